#!/usr/bin/env python3
"""Freeze the names of the pinned tree: functions, named constants and the
locals of every function.  The normaliser (pv/normalise.py) undoes only what
is NEW relative to this table -- helpers, constants and alias locals that a
later change introduced -- so the pinned tree normalises to itself.
Run on the unchanged tree only:  tools/gen_baseline_names.py
"""
import json
import os
import sys

sys.path.insert(0, os.path.dirname(os.path.dirname(os.path.abspath(__file__))))
os.environ['PV_NO_NORMALISE'] = '1'
from pv.srcmodel import Model          # noqa: E402
from pv import normalise               # noqa: E402

m = Model('/repo')
out = {'functions': sorted(m.functions),
       'module_constants': [], 'class_constants': [], 'locals': {}}
for mod in m.modules.values():
    for st in mod.tree.body:
        for t in normalise.ConstTable._targets(st):
            out['module_constants'].append([mod.name, t])
for c in m.classes.values():
    for st in c.node.body:
        for t in normalise.ConstTable._targets(st):
            out['class_constants'].append([c.qual, t])
for q, f in m.functions.items():
    out['locals'][q] = sorted(normalise._local_names(f.node))
out['module_constants'].sort()
out['class_constants'].sort()
path = os.path.join(os.path.dirname(os.path.dirname(os.path.abspath(
    __file__))), 'pv', 'refs', 'baseline_names.json')
with open(path, 'w') as fh:
    json.dump(out, fh, indent=0, sort_keys=True)
    fh.write('\n')
print(len(out['functions']), 'functions', len(out['module_constants']),
      'module constants', len(out['class_constants']), 'class constants')
