#!/bin/sh
# evaluate every finished round-8 worktree (focused small edits in the
# functions the evaluated rules read)
cd "$(dirname "$0")/.."
set -- U01:C01 U02:C02 U03:C08 U04:C08 U05:C10 U06:C11 U07:C12 U08:C20 U09:C15 U10:C04 U11:C04 U12:C17 U13:C17 U14:C16 U15:C16 U16:C03 U17:C05 U18:C07 U19:C06 U20:C11
for pair in "$@"; do
  t=${pair%%:*}; p=${pair##*:}
  wt=/tmp/r8n/$t
  [ -f $wt/change.diff ] || continue
  id=neutral7-$t
  [ -f seeded/$id/meta.json ] && continue
  ( python3 tools/neut_eval.py $id $p $wt > /tmp/r8eval_$id.txt 2>&1 ) &
done
wait
python3 - <<'PY'
import json,glob,os
for f in sorted(glob.glob('/verif/seeded/neutral7-U*/meta.json')):
    m=json.load(open(f)); sid=os.path.basename(os.path.dirname(f))
    print(sid, 'ok' if m['confirmation'].get('confirmed') else 'UNCONFIRMED', 'FA', m['false_alarms_in'], 'err', m['analysis_errors_in'])
PY
