#!/bin/sh
# evaluate every finished round-11 breaking worktree (interaction of two features)
cd "$(dirname "$0")/.."
for i in 01 02 03 04 05 06 07 08 09 10 11 12 13 14 15 16 17 18 19 20; do
  wt=/tmp/r11s/C$i
  [ -f $wt/change.diff ] || continue
  id=seed5-C$i
  [ -f seeded/$id/meta.json ] && continue
  ( python3 tools/seed_eval.py $id C$i $wt > /tmp/r11seval_$id.txt 2>&1 ) &
done
wait
python3 - <<'PY'
import json,glob,os
for f in sorted(glob.glob('/verif/seeded/seed5-C*/meta.json')):
    m=json.load(open(f)); sid=os.path.basename(os.path.dirname(f))
    print(sid, 'ok' if m['confirmation'].get('confirmed') else 'UNCONFIRMED', 'own' , m.get('own_property_detects'), 'by', m.get('detected_by'), 'err', m.get('analysis_errors_in'))
PY
