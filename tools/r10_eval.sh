#!/bin/sh
# evaluate every finished round-10 worktree (small behaviour-preserving edits
# in the functions the rules added in round 9 read)
cd "$(dirname "$0")/.."
set -- W01:C09 W02:C09 W03:C09 W04:C02 W05:C01 W06:C06 W07:C07 W08:C06 W09:C12 W10:C12 W11:C17 W12:C05 W13:C10 W14:C03
for pair in "$@"; do
  t=${pair%%:*}; p=${pair##*:}
  wt=/tmp/r10n/$t
  [ -f $wt/change.diff ] || continue
  id=neutral9-$t
  [ -f seeded/$id/meta.json ] && continue
  ( python3 tools/neut_eval.py $id $p $wt > /tmp/r10eval_$id.txt 2>&1 ) &
done
wait
python3 - <<'PY'
import json,glob,os
for f in sorted(glob.glob('/verif/seeded/neutral9-W*/meta.json')):
    m=json.load(open(f)); sid=os.path.basename(os.path.dirname(f))
    print(sid, 'ok' if m['confirmation'].get('confirmed') else 'UNCONFIRMED', 'FA', m['false_alarms_in'], 'err', m['analysis_errors_in'])
PY
