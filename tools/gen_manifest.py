#!/usr/bin/env python3
"""Regenerates /verif/MANIFEST.json from the per-property table below.
A property is listed under `checks` only when its rule module exists and is
listed in CLAIMED; everything else goes to not_applicable with a reason."""
import json
import os

VERIF = os.path.dirname(os.path.dirname(os.path.abspath(__file__)))

BASELINE = ("cd /repo && /venv/bin/python -m pytest -ra -q -p no:cacheprovider "
            "--timeout=900 --continue-on-collection-errors")

# id -> dict(text, note, technique, design)
CLAIMED = {}
PENDING_REASON = ('static rules for this property are designed (DESIGN.md '
                  'section 4) but not implemented yet; not claimed until the '
                  'check exists and passes on the unchanged tree')
NOT_APPLICABLE = {}


def claim(pid, text, note, technique, design):
    CLAIMED[pid] = dict(text=text, note=note, technique=technique,
                        design=design)


claim('C11',
      'Decides, for all fault points at once, the control-flow fact the '
      'property reduces to: no named file is opened for writing anywhere in '
      'the package except the final copy in game.file.to_file, and that open '
      'is dominated by the normal return of the encoder (not reachable from '
      'its exception edge); every CLI writer goes through it. A unit test '
      'samples fault indices; dominance removes the quantifier.',
      'Decided: ordering/ownership of every file-system write (CFG dominance '
      'with exception edges, who-may-open enumeration, call-graph entry '
      'check). Not decided: a failure of the final copy itself; stdlib '
      'tempfile/pypng semantics are trusted.',
      'static analysis: CFG dominance + exception edges, who-may-open '
      'enumeration with evaluated open modes, resolved call graph',
      'DESIGN.md section 4 C11')

claim('C12',
      'Taint analysis from cart-controlled text (include lines, require '
      'strings) to every file-system sink, for all path strings at once: each '
      'tainted sink is dominated by a raising sanitizer on the very value '
      'opened; the language of require strings that pass the raising filter '
      '(predicates and regex tests turned into automata) contains no string '
      'with a `..` path component -- first, middle or last -- and none '
      'starting with `/`; containment tests between paths must be component-wise; the '
      'load path never derives from cart text; and the load-path lookup '
      '(_locate_require_file) is evaluated on a recording stand-in file '
      'system: every path it asks about is a load-path candidate (argument, '
      'else PICO8_LUA_PATH, else the default; relative to the requiring '
      'file unless absolute) and the first existing one is returned.',
      'Decided: presence, dominance, polarity and component-wise form of the '
      'sanitizers; provenance of candidate paths; the lookup on eight '
      'load-path configurations. Not decided: symlinks, non-POSIX '
      'separators; os.path normalisation semantics are trusted.',
      'static analysis: interprocedural taint dataflow + CFG dominance of '
      'raising guards + path-kind inference + abstract evaluation of the '
      'lookup with a recording stand-in file system',
      'DESIGN.md section 4 C12')

claim('C13',
      'Decides the selection logic of `build` for all 4^6 argument '
      'combinations at once by analysing the loop with the section name kept '
      'symbolic: which value is stored into result.<section> under which '
      'dominating tests, that four sibling section tables agree, and that '
      'every failing exit precedes the single write; and by evaluating '
      'do_build on 67 argument configurations with the file system, the cart '
      'reader / writer and the require machinery replaced by stand-ins whose '
      'carts carry identity-tagged sections: every section of the written '
      'cart is read off by identity (named source / empty cart / previous '
      'OUT), failing configurations return non-zero without writing.',
      'Decided: section tables agreement, provenance and guarding of every '
      'store into the result cart, presence and dominance of the three '
      'validations, single write after the loop, option wiring for the '
      'section options; the evaluated configurations (each section alone x '
      '{.p8, .p8.png, empty, .lua} x OUT present/absent x two output '
      'formats, mixed assignments, seven failure cases). Not decided: byte '
      'equality of sections in OUT (needs the codecs, C03/C04); unreadable '
      'source carts.',
      'static analysis: symbolic attribute dataflow over the loop body + CFG '
      'edge dominance + evaluated argparse/section tables + abstract '
      'evaluation of do_build with recording stand-ins',
      'DESIGN.md section 4 C13')

claim('C15',
      'Decides the property essentially whole: the 256-row table is '
      'evaluated from the source and checked exhaustively (distinct, UTF-8 '
      'encodable, prefix-free over all 65 280 ordered pairs, width table '
      'consistent), and the two converters are shown to be the in-order '
      'table concatenation and the greedy width-directed parse; with a '
      'prefix-free code the parse is unique, so the round trip is the '
      'identity on every byte string.',
      'Decided: table properties (exhaustive over the finite table), '
      'converter structure, use by the .p8 reader/writer with UTF-8. '
      'Trusted: the constant evaluator, Python str semantics, the '
      'unique-decodability argument. The converters are evaluated '
      'path-wise; code the evaluator cannot follow yields an analysis error '
      '(exit 2), not a verdict.',
      'static analysis: constant evaluation of the table + exhaustive table '
      'checks + structural dataflow check of the two converters',
      'DESIGN.md section 4 C15')

claim('C07',
      'Decides token kinds and extents for ALL source texts: the lexer\'s '
      'ordered regex table and procedural openers are turned into automata '
      'and compared, by exhaustive search of the product state space, with '
      'the maximal-munch reference grammar; an empty difference is a proof, '
      'a non-empty one yields the shortest witness. Also decides chunking '
      'independence, multi-line state discipline, number-literal routing '
      'into int()/float() (language dataflow) and position bookkeeping.',
      'Decided: (kind, length) of the first token for every input (hence of '
      'every token by induction, tokens are lexed from the remaining text), '
      'line-locality of rows, opener/terminator agreement and state reset, '
      'that TokNumber.value never raises on a spelling the table accepts, '
      'position counters advance over exactly the consumed text (per-byte '
      'loop decided on paths; a closed-form count/rfind rewrite is evaluated '
      'only on all strings over {a, newline} up to length 4 -- bounded, not a '
      'proof). Not decided: the numeric value computed by '
      'the conversions, decoded string bytes (see C06), get_token_count\'s '
      'counting rules. Trusted base: refs/lexical.py (reference grammar), '
      'long-bracket levels > 2 behave like 0-2.',
      'static analysis: regex-to-automata construction from the source\'s '
      'patterns, product-automaton emptiness (first-match vs maximal munch), '
      'regular-language dataflow, CFG checks',
      'DESIGN.md section 4 C07, Appendix A.1')

claim('C02',
      'Decides the structural conditions that make the renaming a consistent '
      'injection for every identifier population: write-once name map, keep '
      'collections also filter generated candidates (sibling consistency), '
      'monotone candidate counter on every loop path, consistent radix of the '
      'positional name expansion over a duplicate-free alphabet inside the '
      'lexer\'s name-start class, reserved set contains keywords and the API '
      'list, option wiring.',
      'Decided: the necessary conditions above (each is such that breaking it '
      'yields a colliding or unstable renaming for some program). Not '
      'decided: injectivity of the expansion for ALL ids is argued from its '
      'recognised positional form (a textbook argument, not mechanised); the '
      'evaluation of _name_for_id on ids 0..1407 and around the 3/4-letter '
      'boundary can only produce a witness (two ids, one name), a clean '
      'result there proves nothing and is not reported as more; likewise '
      'get_short_name evaluated on fresh factories (default; keep file whose '
      'names include the neighbours of preserved names in the order of '
      'generation) for 300 names each: a generated name the factory itself '
      'leaves unchanged, or two names with one short name, is a witness. '
      'Trusted base: refs/pico8_api.py.',
      'static analysis: def-use / who-stores enumeration, CFG path checks on '
      'the allocation loop, constant evaluation, sibling-consistency of guard '
      'sets, abstract evaluation of the id expansion on a listed id range',
      'DESIGN.md section 4 C02')

claim('C14',
      'Decides structural conditions of package embedding for every package '
      'graph: the visited-table store is guarded and dominates the recursion '
      '(once, cycles terminate), the require finder descends through every '
      'node type it overrides (visitor completeness), no token-replaying '
      'writer serialises an edited AST, spliced sequences are '
      'newline-terminated, every invalid/missing require raises; and the '
      'game-loop strip itself, by evaluating _evaluate_require on a stand-in '
      'package (symbolic token spellings, parser-node stand-ins with concrete '
      'ranges; callbacks at the start / middle / end / adjacent / none / '
      'only, option on and off): the text handed to the re-parse is exactly '
      'the tokens outside the top-level callback definitions, in order, and '
      'the re-parse is what is stored. Likewise evaluated: 17 require() call '
      'shapes on stand-in nodes (name and option taken from the literal '
      'arguments, every other form refused, other calls delegated), the '
      'assembled cart text for stand-in packages (package table, one closed '
      'function per package under its quoted name, the require function, '
      'the main program), and package graphs (repeated, shared, chained, '
      'cyclic requires: every name located, parsed and stored once; bad '
      'names and missing files refused), and the load-path lookup on a '
      'stand-in file system with directories among the candidates (what it '
      'returns is a file).',
      'Decided: the necessary conditions above; the strip for the listed '
      'package shapes with every token spelling symbolic (sampled in the '
      'statement layout, exhaustive in the token texts). Not decided: '
      'token-for-token equality of embedded bodies for concrete packages, '
      'load-path resolution order (value level).',
      'static analysis: CFG dominance, visitor-completeness check against the '
      'evaluated AST schema, def-use check of AST mutation vs serialisation, '
      'splice-termination idiom check, abstract evaluation of the strip with '
      'stand-ins for parser / file system',
      'DESIGN.md section 4 C14')
claim('C20',
      'Decides the structure of the include splice for all carts: identity '
      'pass-through of unmatched lines, no self-yield of include lines, '
      'agreement of recogniser alternatives (regex AST) with the dispatch, '
      'formatter selection, no nested expansion, tab counter/selection '
      'logic on every CFG path, raising missing-file test dominating both '
      'opens, newline termination of spliced lines.',
      'Decided: the necessary conditions above. Not decided: equality with a '
      'reference splice for concrete files; recogniser looseness is outside '
      'the statement.',
      'static analysis: generator-structure and CFG edge-dominance checks, '
      'regex AST inspection, constant evaluation',
      'DESIGN.md section 4 C20')

claim('C08',
      'Decides cursor discipline and tree-construction invariants of the '
      'recursive-descent parser on every path: node arity against the '
      'evaluated schema, start/end extents taken from the cursor, cursor '
      'restoration between alternatives, save/restore of the short-if fence '
      'across re-entrant parsing, operator and statement-keyword inventories '
      'against the reference grammar, and the (missing) end-of-input test; '
      'the fence of a short-if is the index of the next line-end token -- '
      'read off the scan loop, or, when the scan lives in a method of its '
      'own, by evaluating that method on one parser object for positions '
      'asked out of order (the parser backtracks).',
      'Decided: the necessary conditions above. One open known finding: '
      'process_tokens has no end-of-input test (known_findings.json). Not '
      'decided: that the tree has the right shape for a concrete program '
      '(operand order, chain nesting) -- a value-level property of a '
      'recursive algorithm outside this technique. Trusted: refs/grammar.py.',
      'static analysis: CFG path / dominance checks over the parser methods, '
      'constant evaluation of schema and operator tables, try/finally '
      'pairing',
      'DESIGN.md section 4 C08')

claim('C09',
      'Decides the mechanisms that make luafmt whitespace-only and lossless: '
      'a raising end-of-walk test dominates normal completion of every AST '
      'writer; the formatter overrides only the spacing hook; each regex '
      'substitution of its pipeline is shown on automata to match only blank '
      'space (+ comment introducer), to write only blank space, to reproduce '
      'the introducer it matched and to preserve line ends; every node type '
      'has a handler reading every field; parser-consumed terminals per node '
      'type are emitted by the handler; the statement-separator echo '
      '(_get_semis) is evaluated on token lists with 0-3 semicolons and a '
      'stand-in spacing hook: every semicolon consumed is written, spacing '
      'in front of it; every list-walking handler is evaluated on stand-in '
      'nodes with 0-3 elements, tokens back to back and with a space / line '
      'end / comment token before every token (the writer\'s own spacing '
      'routine): every token echoed once, in order.',
      'Decided: the necessary conditions above, for all programs. Four open '
      'known findings: parenthesised prefix expressions under '
      'FunctionCall/FunctionCallMethod/VarIndex/VarAttribute make every AST '
      'writer raise AssertionError (known_findings.json). Not decided: '
      'token/comment order equality for a concrete program; "succeeds on '
      'every valid program" beyond the assertion sites the agreement rule '
      'covers.',
      'static analysis: CFG dominance, MRO diff, regex-language inclusion on '
      'automata with symbolic replacement templates, parser-path vs handler '
      'terminal inventories',
      'DESIGN.md section 4 C09')
claim('C10',
      'Decides the depth bookkeeping of the formatter for all programs: each '
      'handler is unfolded into event paths (booleans tracked, loops '
      'unrolled) and must be balanced, increment right after its opener, '
      'decrement right before its closer, closers at the outer depth, blocks '
      'one level deeper; plus the comment introducers known to the pipeline '
      '== those of the lexer, and the ordering dependencies of the '
      'normalisation steps.',
      'Decided: the structural conditions above, including the step '
      'dependency "no step behind the trailing-space deletion puts spaces in '
      'front of a line end again" (pattern ending in $ + replacement ending '
      'in the indentation: this found the blank-line defect repaired in '
      '/repo 30ac571). NOT decided (stated plainly): idempotence, '
      'independence from input indentation beyond these conditions, exact '
      'columns -- these quantify over the composition of twelve '
      'substitutions on unbounded strings.',
      'static analysis: bounded path unfolding of handlers with boolean '
      'correlation, event-sequence checks, regex-language queries, constant '
      'evaluation',
      'DESIGN.md section 4 C10')

claim('C01',
      'Decides, for all programs and layouts at once, that the token '
      'minifier neither loses, duplicates nor fuses tokens: the writer is '
      'extracted as a finite transducer (every reachable class x state pair '
      'enumerated) and the separator function read off it is checked, by an '
      'exhaustive product search over the implementation\'s own lexer '
      'automaton, for every grammar-adjacent ordered pair of token classes, '
      'all spellings and all continuations; plus newline preservation '
      'between code tokens, option wiring and the sanity re-parse ordering. '
      'Shared clauses: string literals by decoded value (the escape round '
      'trip of C06), header comments (C19), and the renaming (the name '
      'factory of C02 evaluated on fresh factories, default and with a keep '
      'file: no generated name is one the factory leaves unchanged).',
      'Decided: one chunk per code token with identity/short-name dataflow, '
      'line-end preservation, no-glue for all adjacent pairs (empty product '
      '= proof; non-empty = shortest witness). Not decided: that the re-lexed '
      'output equals the input token list for a concrete program (follows '
      'from the rules only under the assumption that the lexer is right, '
      'C07); block comments or long strings containing newlines between a '
      'short-if and the next statement. Trusted: refs/grammar.py adjacency.',
      'static analysis: abstract interpretation of the writer loop to a '
      'finite transducer, grammar terminal-adjacency (FIRST/LAST), product '
      'automaton search',
      'DESIGN.md section 4 C01, Appendix A.1')
claim('C19',
      'Decides on the extracted minifier transducer that the first two '
      'leading comments are emitted verbatim, each followed by a line end, '
      'before anything else, that later comments emit nothing, that the '
      'header size agrees with the token positions get_title/get_byline '
      'read, and (product search) that no adjacent token pair can fuse into '
      'a comment.',
      'Decided: the structural conditions above for all header shapes '
      '(states are enumerated exhaustively). Not decided: what PICO-8 itself '
      'derives from the two lines.',
      'static analysis: finite transducer extraction + exhaustive state '
      'enumeration + product automaton search',
      'DESIGN.md section 4 C19')

claim('C06',
      'Decides the mechanisms behind the lossless echo: per lexer branch the '
      'stored extent equals the consumed extent; the echo writer emits every '
      'token\'s code once in order and is the default; the string re-encoder '
      'and decoder are extracted as specifications and their composition is '
      'checked exhaustively over all 256 bytes x 257 right contexts x 2 '
      'quote kinds, plus every reference escape form.',
      'Decided: coverage of the source by token extents, echo-writer '
      'structure and default selection, encode/decode identity for every '
      'byte in every right context (exhaustive over a finite product), '
      'reference escape values. Not decided: byte-for-byte equality of a '
      'concrete echo (composition on paper). Encoder and decoder are '
      'extracted by evaluating their loops per concrete byte with the rest '
      'of the string kept as a regular-language condition; when the encoder '
      'loop is outside that model it is evaluated on concrete strings over a '
      'reduced remainder set instead: a failing case is then a witness, a '
      'clean result leaves the clause undecided (exit 2), never a verdict. '
      'Trusted: refs/escapes.py.',
      'static analysis: path-wise symbolic extent checks, byte-transducer '
      'extraction of encoder/decoder (evaluated tables + regular-language '
      'conditions) and exhaustive composition over the finite byte x context '
      'product',
      'DESIGN.md section 4 C06')

claim('C18',
      'Decides Game.write_cart_data for ALL (address, length) pairs: the '
      'index arithmetic is piecewise affine in (start, end) with breakpoints '
      'at the evaluated region bounds, so evaluating the extracted slice '
      'bounds (with Python slice normalisation, incl. negative and -0 '
      'bounds) at affinely independent representatives of every cell of the '
      'arrangement is a complete decision; plus the memory map against the '
      'reference and the region constructors, and the rejection threshold.',
      'Decided: destination/source slices equal the specification on every '
      'cell, equal lengths (no region changes size), nothing stored on an '
      'empty intersection, reject iff end > 0x4300, map == reference. Not '
      'decided: sequences of writes (each write is decided; composition is '
      'trivial but not mechanised). Trusted: Python slice-assignment '
      'semantics; refs/formats.py.',
      'static analysis: piecewise-affine cell analysis of extracted index '
      'expressions (own integer evaluator, no cart data), constant '
      'evaluation of the memory map, CFG dominance; whole-method evaluation '
      'on symbolic regions as fallback; cached-region-map rule',
      'DESIGN.md section 4 C18, Appendix A.2')

claim('C17',
      'Decides each accessor for all argument values and all prior memory '
      'contents by abstract interpretation over bit provenance and affine '
      'indices: every region access is in bounds and inside its row under '
      'the guards and documented ranges (interval analysis with constraints '
      'on guarded affine forms), every setter changes only the addressed '
      'bits (frame, by provenance), and getter and setter bit maps are '
      'mutual inverses, including gff per-bit truth tables, sprite nibble '
      'parity and the map/gfx shared rows.',
      'Decided: in-bounds / no-row-wrap / callee-contract under clipping; '
      'frame; inverse, per call. Not decided: sequences of calls against a '
      'model (histories) -- each call is covered, the composition is not '
      'mechanised; ragged rows and TRANSPARENT only as "skipped pixels store '
      'nothing". Trusted: documented argument ranges (DOC_RANGES table in '
      'the rule).',
      'static analysis: abstract interpretation (KnownBits-style bit '
      'provenance with truth-table cells, affine index forms, interval + '
      'constraint domain, path splitting without solver); whole-method '
      'evaluation on symbolic memory for sampled addresses when the symbolic '
      'analysis cannot follow the code',
      'DESIGN.md section 4 C17, Appendix A.2/A.3')

claim('C03',
      'Round-trip equality is a runtime quantity; decided instead, for all '
      'byte values at once: writer and reader of every .p8 section are the '
      'same codec read in two directions. Both directions are extracted '
      'independently by abstract interpretation as maps between memory bits '
      'and hex-digit positions and must be mutual inverses (gfx nibbles, sfx '
      'header and 5-digit notes, music flags/channels; exactly one bit, bit '
      '7 of music channel 3, is not carried); produced line lengths equal '
      'the readers\' filter constants; section names/classes agree; header '
      'and version lines; label and final-newline logic; the string '
      'literals of the __lua__ section, which the writer re-spells from '
      'their decoded value (the escape round trip shared with C06).',
      'Decided: codec agreement, line-length agreement, section dispatch '
      'agreement, text-section plumbing. Not decided: equality of the '
      're-read cart and byte-identity of a rewrite for concrete carts '
      '(follow from the rules modulo bytes.fromhex/format and C06/C15); '
      'carts with non-canonical region sizes.',
      'static analysis: whole-function abstract interpretation of every '
      'section codec on symbolic memory (from_lines(to_lines(m)) == m), '
      'path-wise models of the formatter (write trace, reader dispatch, line '
      'provenance), constant evaluation, regex-automaton membership',
      'DESIGN.md section 4 C03')
claim('C04',
      'Decides the .p8.png codec structurally for all carts: steganographic '
      'writer and reader bit maps (extracted independently) are inverse and '
      'keep the upper six bits; the reader\'s slice bounds equal the prefix '
      'sums of the writer\'s region order; the `:c:` header written is the '
      'header consumed; a raising size test dominates the code-area store; '
      'kind inference shows the raw branch receives bytes; the label is '
      'opened read-only before any output; the code area is evaluated with '
      'a stand-in compressor that, like compress_code, appends to a mutable '
      'buffer it is handed.',
      'Decided: the necessary conditions above. Not decided: that the file '
      'is a valid PNG (pypng), CR/trailing-newline normalisation equalities, '
      '.p8 -> .p8.png -> .p8 for concrete carts, the _update60 suffix.',
      'static analysis: whole-function abstract interpretation of the pixel '
      'codec, the image-memory plumbing and the code area (compressor, PNG '
      'library and files replaced by stand-ins), CFG / path checks for the '
      'label handling',
      'DESIGN.md section 4 C04')
claim('C05',
      'Decides the compression codec as arithmetic: encoder and decoder item '
      'formulas are extracted and must agree with each other and with the '
      'format (the decoder branch tests are evaluated for all 256 byte '
      'values, the block formulas on the whole offset x length grid 1..3120 '
      'x 3..17; table; header); guard shapes of the match search '
      'give, by interval arithmetic on evaluated constants, 3 <= length <= '
      '17, 1 <= offset <= min(pos, 3120), bytes in range, no overlap; the '
      'decoder must copy back-references element-wise (correct for '
      'overlapping references).',
      'Decided: format agreement, well-formedness bounds from guard shapes, '
      'decoder copy discipline; and what decompress_code does AFTER decoding, '
      'by evaluating it on hand-built well-formed streams (0x00-escaped '
      'literals) of texts that meet each post-processing step: it must '
      'return the text; likewise four streams with back-references '
      '(overlapping, not overlapping, followed by literals, running past the '
      'header length): byte-wise copy, stop at the header length. Two open known findings there: a text that itself '
      'ends with PICO8_FUTURE_CODE1 / PICO8_FUTURE_CODE2 is cut by the '
      'suffix stripping (known_findings.json; the NUL stripping found by the '
      'same rule is repaired, /repo 910fadd). NOT decided: '
      'decompress(compress(s)) == s as such (composition on paper: the '
      'greedy search yields SOME valid parse). The search-loop rule '
      'recognises the loop by shape: a rewritten search yields exit 2.',
      'static analysis: path-wise extraction of codec formulas + exhaustive '
      'evaluation over their finite domains, guard-shape recognition + '
      'interval arithmetic, path check of the copy loop, abstract evaluation '
      'of the decoder on constructed streams',
      'DESIGN.md section 4 C05')
claim('C16',
      'Each codec direction (gfx, gff/map, sfx lines and note accessors, '
      'music, PNG steganography, memory order, :c: constants) is extracted '
      'by abstract interpretation and compared with the format description '
      'in refs/formats.py -- not with its sibling. Because every codec is a '
      'fixed selection/permutation of bits, layout equality is behaviour '
      'equality for all 2^n values; a writer and reader sharing a mistake '
      'round-trip perfectly and are still reported.',
      'Decided: layout == reference for every codec direction. Trusted: '
      'refs/formats.py (written from the public format description), '
      'bytes.fromhex / format / pypng semantics. Not decided: carts with '
      'truncated sections.',
      'static analysis: whole-function abstract interpretation (constant '
      'control, bit-provenance data; absint/cx.py) of each codec side and of '
      'the .p8.png memory plumbing vs a reference layout table; older '
      'per-loop extractors as fallback',
      'DESIGN.md section 4 C16')


def main():
    props = []
    with open(os.path.join(VERIF, 'properties.jsonl')) as fh:
        for line in fh:
            if line.strip():
                props.append(json.loads(line)['id'])
    checks = []
    na = []
    for pid in props:
        if pid in CLAIMED and os.path.exists(
                os.path.join(VERIF, 'pv', 'rules', pid.lower() + '.py')):
            c = CLAIMED[pid]
            checks.append({
                'property_id': pid,
                'quick_cmd': './check {} --tier quick'.format(pid),
                'thorough_cmd': './check {} --tier thorough'.format(pid),
                'evidence_file': 'evidence/{}.json'.format(pid),
                'replay_cmd_template': './check --replay {path}',
                'engine': 'pv',
                'level_claimed': {'category': 'other', 'text': c['text'],
                                  'design_ref': c['design']},
                'level_note': c['note'],
                'technique': c['technique'],
            })
        else:
            na.append({'property_id': pid,
                       'reason': NOT_APPLICABLE.get(pid, PENDING_REASON)})
    man = {
        'version': 1,
        'setup_cmd': 'true',
        'hooks': {
            'guard': 'PICOTOOL_VERIF',
            'enable': 'none: the checks are static and read /repo\'s working '
                      'tree; no instrumentation is compiled in',
            'baseline_off_cmd': BASELINE,
            'source_commits': [],
            'add_only': True,
        },
        'engines': [{
            'name': 'pv',
            'path': 'pv/',
            'serves_properties': [c['property_id'] for c in checks],
            'kind_free_text': 'repository-specific static analyser over '
                              'Python ast: source model + call graph, '
                              'delta normaliser against a frozen name '
                              'inventory, constant evaluator, statement CFG '
                              'with dominance, path-wise symbolic evaluator, '
                              'bit/interval abstract domains, regex automata '
                              'and predicate languages',
        }],
        'checks': checks,
        'not_applicable': na,
        'notes': 'All checks are static analysis (technique family fixed by '
                 'the task). Exit 0 = every rule instance holds; exit 1 + '
                 'VIOLATION line = a recognised construct breaks a rule; '
                 'exit 2 + ANALYSIS-ERROR = an anchor vanished or an idiom '
                 'is outside the model (never a silent pass). Known, '
                 'unrepaired defects are listed in known_findings.json. '
                 'Trust gate: when the modules a check consulted differ '
                 'from the pinned reference tree by more than 32 statements '
                 '(pv/churn.py), a VIOLATION of a shape-recognising rule is '
                 'reported as ANALYSIS-ERROR/UNDECIDED instead; rules '
                 'decided by whole-function abstract evaluation with a '
                 'witness stay armed. DESIGN.md sections 9-10 describe what '
                 'was built and how the checks fared on 40 breaking changes '
                 'and 40 behaviour-preserving refactorings written by '
                 'independent sub-agents (seeded/).',
    }
    with open(os.path.join(VERIF, 'MANIFEST.json'), 'w') as fh:
        json.dump(man, fh, indent=1)
        fh.write('\n')
    print('checks:', [c['property_id'] for c in checks], 'n/a:', len(na))


if __name__ == '__main__':
    main()
