#!/usr/bin/env python3
"""Development-time mutation scan of the CHECKER (not part of any registered
check): small syntactic mutants of the functions a property is anchored in are
written to scratch copies of /repo; mutants the unedited test suite still
accepts are (a) judged by the stored property demos of the breaking seeds of
that property (they test the property directly: exit 1 = broken) and (b) given
to the property's check.  Interesting outcome: the demos say "broken" and the
check is silent -- a coverage gap of the rules.

usage: tools/mutation_scan.py Cxx [--max N] [--jobs J] [--seed S]
writes /verif/notes/mutation_scan_Cxx.json
"""
import argparse
import ast
import concurrent.futures as cf
import glob
import json
import os
import random
import re
import shutil
import subprocess
import sys
import tempfile

VERIF = os.path.dirname(os.path.dirname(os.path.abspath(__file__)))
PY = '/venv/bin/python'

sys.path.insert(0, VERIF)
from pv.refs.anchors import TARGETS   # noqa: E402

CMP = {ast.Lt: ['<='], ast.LtE: ['<'], ast.Gt: ['>='], ast.GtE: ['>'],
       ast.Eq: ['!='], ast.NotEq: ['=='], ast.Is: ['is not'],
       ast.IsNot: ['is'], ast.In: ['not in'], ast.NotIn: ['in']}
CMP_TXT = {ast.Lt: '<', ast.LtE: '<=', ast.Gt: '>', ast.GtE: '>=',
           ast.Eq: '==', ast.NotEq: '!=', ast.Is: 'is', ast.IsNot: 'is not',
           ast.In: 'in', ast.NotIn: 'not in'}
BIN = {ast.Add: ('+', ['-']), ast.Sub: ('-', ['+']),
       ast.LShift: ('<<', ['>>']), ast.RShift: ('>>', ['<<']),
       ast.BitAnd: ('&', ['|']), ast.BitOr: ('|', ['&']),
       ast.FloorDiv: ('//', ['%']), ast.Mod: ('%', ['//']),
       ast.Mult: ('*', ['//'])}


def sh(cmd, cwd=None, timeout=300, env=None):
    # own process group, killed as a whole on timeout: a mutant that loops
    # forever must not outlive the scan (a shell=True child did, for hours)
    import os
    import signal
    p = subprocess.Popen(cmd, shell=True, cwd=cwd, stdout=subprocess.PIPE,
                         stderr=subprocess.STDOUT, text=True, env=env,
                         start_new_session=True)
    try:
        out, _ = p.communicate(timeout=timeout)
        return p.returncode, out
    except subprocess.TimeoutExpired:
        try:
            os.killpg(p.pid, signal.SIGKILL)
        except ProcessLookupError:
            pass
        p.wait()
        return 124, 'timeout'


def functions(tree):
    out = {}

    def rec(body, prefix):
        for n in body:
            if isinstance(n, (ast.FunctionDef, ast.AsyncFunctionDef)):
                out[prefix + n.name] = n
            elif isinstance(n, ast.ClassDef):
                rec(n.body, prefix + n.name + '.')
    rec(tree.body, '')
    return out


def offsets(src):
    starts = [0]
    for ln in src.splitlines(keepends=True):
        starts.append(starts[-1] + len(ln.encode('utf-8')))
    return starts


def span(node, starts):
    return (starts[node.lineno - 1] + node.col_offset,
            starts[node.end_lineno - 1] + node.end_col_offset)


def mutants_of(path, quals):
    src = open(os.path.join('/repo', path), encoding='utf-8').read()
    bsrc = src.encode('utf-8')
    tree = ast.parse(src)
    starts = offsets(src)
    fns = functions(tree)
    out = []

    def edit(a, b, new, desc, node):
        out.append(dict(file=path, start=a, end=b, new=new,
                        old=bsrc[a:b].decode('utf-8'), desc=desc,
                        line=node.lineno))
    for q in quals:
        f = fns.get(q)
        if f is None:
            print('  (no function {} in {})'.format(q, path), file=sys.stderr)
            continue
        doc = ast.get_docstring(f)
        for n in ast.walk(f):
            if isinstance(n, ast.Compare) and len(n.ops) == 1:
                a = span(n.left, starts)[1]
                b = span(n.comparators[0], starts)[0]
                mid = bsrc[a:b].decode('utf-8')
                op = CMP_TXT[type(n.ops[0])]
                for alt in CMP[type(n.ops[0])]:
                    if op in mid:
                        edit(a, b, mid.replace(op, alt, 1),
                             '{}: `{}` -> `{}`'.format(q, op, alt), n)
            elif isinstance(n, ast.BoolOp):
                kw = 'and' if isinstance(n.op, ast.And) else 'or'
                alt = 'or' if kw == 'and' else 'and'
                for x, y in zip(n.values, n.values[1:]):
                    a, b = span(x, starts)[1], span(y, starts)[0]
                    mid = bsrc[a:b].decode('utf-8')
                    if re.search(r'\b' + kw + r'\b', mid):
                        edit(a, b, re.sub(r'\b' + kw + r'\b', alt, mid, 1),
                             '{}: `{}` -> `{}`'.format(q, kw, alt), n)
                        break
            elif isinstance(n, ast.BinOp) and type(n.op) in BIN:
                sym, alts = BIN[type(n.op)]
                a, b = span(n.left, starts)[1], span(n.right, starts)[0]
                mid = bsrc[a:b].decode('utf-8')
                if sym in mid and not isinstance(n.left, ast.Constant) or \
                        (sym in mid and not isinstance(getattr(
                            n.left, 'value', None), (str, bytes))):
                    for alt in alts:
                        edit(a, b, mid.replace(sym, alt, 1),
                             '{}: `{}` -> `{}`'.format(q, sym, alt), n)
            elif isinstance(n, ast.Constant) and isinstance(n.value, int) \
                    and not isinstance(n.value, bool):
                a, b = span(n, starts)
                txt = bsrc[a:b].decode('utf-8')
                for d in (1, -1):
                    v = n.value + d
                    if v < 0 and n.value == 0:
                        continue
                    new = hex(v) if txt.lower().startswith('0x') else str(v)
                    edit(a, b, new, '{}: constant {} -> {}'.format(q, txt,
                                                                   new), n)
            elif isinstance(n, (ast.If, ast.While)):
                a, b = span(n.test, starts)
                edit(a, b, 'not (' + bsrc[a:b].decode('utf-8') + ')',
                     '{}: negated test of {}'.format(
                         q, type(n).__name__.lower()), n)
            elif isinstance(n, ast.Break):
                a, b = span(n, starts)
                edit(a, b, 'continue', q + ': break -> continue', n)
            elif isinstance(n, ast.Continue):
                a, b = span(n, starts)
                edit(a, b, 'break', q + ': continue -> break', n)
            elif isinstance(n, (ast.Expr, ast.Assign, ast.AugAssign)) and \
                    n.lineno == n.end_lineno:
                if isinstance(n, ast.Expr) and isinstance(
                        n.value, ast.Constant):
                    continue
                a, b = span(n, starts)
                edit(a, b, 'pass', '{}: statement `{}` deleted'.format(
                    q, bsrc[a:b].decode('utf-8')[:50]), n)
    return out, bsrc


def valid_demos(prop, base_dir):
    """property demos of the breaking seeds that pass on the unchanged tree"""
    ok = []
    for d in sorted(glob.glob(os.path.join(VERIF, 'seeded', 'seed*-' + prop))):
        demo = os.path.join(d, 'demo.py')
        if not os.path.exists(demo):
            continue
        work = tempfile.mkdtemp(prefix='pv-mutdemo-')
        try:
            shutil.copytree(os.path.join(base_dir, 'pico8'),
                            os.path.join(work, 'pico8'))
            shutil.copytree('/repo/tests', os.path.join(work, 'tests'))
            for fn in os.listdir(d):
                if fn.startswith('demo'):
                    shutil.copy(os.path.join(d, fn), work)
            rc, _out = sh(PY + ' demo.py', cwd=work, timeout=180)
            if rc == 0:
                ok.append(d)
        finally:
            shutil.rmtree(work, ignore_errors=True)
    return ok


def run_one(args):
    (idx, m, prop, demos) = args
    work = tempfile.mkdtemp(prefix='pv-mut-')
    res = dict(m)
    try:
        shutil.copytree('/repo/pico8', os.path.join(work, 'pico8'),
                        ignore=shutil.ignore_patterns('__pycache__'))
        shutil.copytree('/repo/tests', os.path.join(work, 'tests'),
                        ignore=shutil.ignore_patterns('__pycache__'))
        p = os.path.join(work, m['file'])
        b = open(p, 'rb').read()
        b2 = b[:m['start']] + m['new'].encode('utf-8') + b[m['end']:]
        try:
            ast.parse(b2.decode('utf-8'))
        except SyntaxError:
            res['outcome'] = 'syntax'
            return res
        open(p, 'wb').write(b2)
        rc, out = sh(PY + ' -m pytest -q -x -p no:cacheprovider tests',
                     cwd=work, timeout=240)
        if rc != 0:
            res['outcome'] = 'killed-by-suite'
            return res
        broken_by = []
        for d in demos:
            for fn in os.listdir(d):
                if fn.startswith('demo'):
                    shutil.copy(os.path.join(d, fn), work)
            rc2, out2 = sh(PY + ' demo.py', cwd=work, timeout=240)
            if rc2 not in (0,):
                broken_by.append(os.path.basename(d) + (
                    '(timeout)' if rc2 == 124 else ''))
        env = dict(os.environ, PV_REPO=work)
        rc3, out3 = sh('{} -m pv.check {} --no-evidence'.format(PY, prop),
                       cwd=VERIF, timeout=600, env=env)
        res['check_rc'] = rc3
        res['check_lines'] = [l[:220] for l in out3.splitlines()
                              if l.startswith(('  violation', 'ANALYSIS-ERROR'
                                               ))][:3]
        res['demos_broken'] = broken_by
        res['outcome'] = 'survivor'
        return res
    finally:
        shutil.rmtree(work, ignore_errors=True)


def main():
    ap = argparse.ArgumentParser()
    ap.add_argument('prop')
    ap.add_argument('--max', type=int, default=120)
    ap.add_argument('--jobs', type=int, default=14)
    ap.add_argument('--seed', type=int, default=1)
    a = ap.parse_args()
    prop = a.prop.upper()
    allm = []
    for path, quals in TARGETS[prop].items():
        ms, _b = mutants_of(path, quals)
        allm.extend(ms)
    random.Random(a.seed).shuffle(allm)
    allm = allm[:a.max]
    demos = valid_demos(prop, '/repo')
    print('{}: {} mutants, oracle demos: {}'.format(
        prop, len(allm), [os.path.basename(d) for d in demos]))
    results = []
    with cf.ProcessPoolExecutor(a.jobs) as ex:
        for r in ex.map(run_one, [(i, m, prop, demos)
                                  for i, m in enumerate(allm)]):
            results.append(r)
    surv = [r for r in results if r['outcome'] == 'survivor']
    gaps = [r for r in surv if r['demos_broken'] and r['check_rc'] == 0]
    silent_ok = [r for r in surv if not r['demos_broken'] and
                 r['check_rc'] == 0]
    summary = dict(
        prop=prop, mutants=len(results),
        killed=sum(1 for r in results if r['outcome'] == 'killed-by-suite'),
        syntax=sum(1 for r in results if r['outcome'] == 'syntax'),
        survivors=len(surv),
        detected=sum(1 for r in surv if r['check_rc'] == 1),
        cannot_follow=sum(1 for r in surv if r['check_rc'] == 2),
        silent=sum(1 for r in surv if r['check_rc'] == 0),
        gaps=len(gaps),
        detected_but_demos_ok=sum(1 for r in surv if r['check_rc'] == 1 and
                                  not r['demos_broken']))
    print(json.dumps(summary))
    for r in gaps:
        print('GAP   {}:{} {}  [{}]'.format(r['file'], r['line'], r['desc'],
                                            ','.join(r['demos_broken'])))
    for r in surv:
        if r['check_rc'] == 1 and not r['demos_broken']:
            print('ALARM? {}:{} {} -- {}'.format(
                r['file'], r['line'], r['desc'],
                (r['check_lines'] or [''])[0][:160]))
    for r in silent_ok:
        print('quiet {}:{} {}'.format(r['file'], r['line'], r['desc']))
    os.makedirs(os.path.join(VERIF, 'notes'), exist_ok=True)
    with open(os.path.join(VERIF, 'notes',
                           'mutation_scan_{}.json'.format(prop)), 'w') as fh:
        json.dump(dict(summary=summary, oracle_demos=[
            os.path.basename(d) for d in demos], survivors=surv), fh,
            indent=1)
    return 0


if __name__ == '__main__':
    sys.exit(main())
