#!/usr/bin/env python3
"""Regenerates pv/refs/baseline_stmts.json: the statement fingerprint of the
pinned tree (run ONLY on the unchanged /repo)."""
import json
import os
import sys
sys.path.insert(0, os.path.dirname(os.path.dirname(os.path.abspath(__file__))))
from pv import churn   # noqa: E402

fp = churn.fingerprint('/repo')
with open(churn.PATH, 'w') as fh:
    json.dump(fp, fh, indent=0, sort_keys=True)
print('modules', len(fp), 'functions', sum(len(v) for v in fp.values()))
