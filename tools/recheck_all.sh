#!/bin/sh
# re-run every check against every stored seed (neutral and breaking)
cd "$(dirname "$0")/.."
for d in seeded/neutral-C*; do
  id=$(basename $d)
  ( python3 tools/neut_eval.py --recheck $id > /tmp/recheck_$id.txt 2>&1 ) &
done
wait
for d in seeded/neutral-C*; do id=$(basename $d); head -1 /tmp/recheck_$id.txt; done
