#!/usr/bin/env python3
"""Evaluate one seeded breaking change produced by a sub-agent.

usage: tools/seed_eval.py <seed-id> <property> <worktree> [--needs "..."]

1. confirms in the worktree: suite passes with the change, demo.py fails with
   the change and passes without it;
2. stores patch.diff, demo.py, meta.json under /verif/seeded/<seed-id>/;
3. applies the patch to a scratch copy of /repo/pico8 (outside /repo and
   /verif, removed afterwards) and runs every registered quick check on it
   with PV_REPO pointing at the copy; records which checks report a violation.
"""
import argparse
import json
import os
import shutil
import subprocess
import sys
import tempfile

VERIF = os.path.dirname(os.path.dirname(os.path.abspath(__file__)))
PY = '/venv/bin/python'


def sh(cmd, cwd=None, timeout=600, env=None):
    p = subprocess.run(cmd, shell=True, cwd=cwd, capture_output=True,
                       text=True, timeout=timeout, env=env)
    out = '\n'.join(l for l in (p.stdout + p.stderr).splitlines()
                    if 'WARNING' not in l)
    return p.returncode, out


def run_checks(patch_path, props=None):
    tmp = tempfile.mkdtemp(prefix='pv-seed-')
    try:
        shutil.copytree('/repo/pico8', os.path.join(tmp, 'pico8'),
                        ignore=shutil.ignore_patterns('__pycache__'))
        rc, out = sh('git apply --unsafe-paths --directory={} {}'.format(
            tmp, patch_path), cwd='/')
        if rc != 0:
            # fall back to patch(1)
            rc, out = sh('patch -p1 -d {} < {}'.format(tmp, patch_path))
            if rc != 0:
                return {'error': 'patch does not apply: ' + out[:300]}
        man = json.load(open(os.path.join(VERIF, 'MANIFEST.json')))
        results = {}
        env = dict(os.environ, PV_REPO=tmp, PYTHONDONTWRITEBYTECODE='1',
                   PYTHONHASHSEED='0')
        for c in man['checks']:
            pid = c['property_id']
            if props and pid not in props:
                continue
            rc, out = sh('{} -m pv.check {} --no-evidence'.format(PY, pid),
                         cwd=VERIF, env=env)
            viol = [l.strip() for l in out.splitlines()
                    if l.startswith('  violation:')]
            errs = [l.strip() for l in out.splitlines()
                    if l.startswith('ANALYSIS-ERROR')]
            results[pid] = {'rc': rc, 'violations': viol[:4],
                            'analysis_errors': errs[:2]}
        return results
    finally:
        shutil.rmtree(tmp, ignore_errors=True)


def recheck(seed_id, props, verbose=True):
    """Re-run the checks against a stored seed and refresh meta.json."""
    dest = os.path.join(VERIF, 'seeded', seed_id)
    meta = json.load(open(os.path.join(dest, 'meta.json')))
    results = run_checks(os.path.join(dest, 'patch.diff'), props or None)
    old = meta.get('check_results', {})
    if props:
        for p in props:
            old.pop(p, None)
    else:
        old = {}
    for p, r in results.items():
        if isinstance(r, dict) and r.get('rc'):
            old[p] = r
    meta['check_results'] = old
    meta['detected_by'] = sorted(p for p, r in old.items() if r['rc'] == 1)
    meta['analysis_errors_in'] = sorted(p for p, r in old.items()
                                        if r['rc'] == 2)
    meta['own_property_detects'] = meta['breaks_property'] in \
        meta['detected_by']
    with open(os.path.join(dest, 'meta.json'), 'w') as fh:
        json.dump(meta, fh, indent=1)
        fh.write('\n')
    if verbose:
        print(seed_id, 'detected_by=', meta['detected_by'], 'errors_in=',
              meta['analysis_errors_in'])
        for p, r in sorted(old.items()):
            for v in (r['violations'] + r['analysis_errors'])[:3]:
                print('   ', p, v[:260])
    return meta


def main():
    if len(sys.argv) > 2 and sys.argv[1] == '--recheck':
        recheck(sys.argv[2], sys.argv[3:])
        return 0
    ap = argparse.ArgumentParser()
    ap.add_argument('seed_id')
    ap.add_argument('prop')
    ap.add_argument('worktree')
    ap.add_argument('--needs', default='')
    ap.add_argument('--summary', default='')
    ap.add_argument('--skip-confirm', action='store_true')
    a = ap.parse_args()
    wt = a.worktree
    dest = os.path.join(VERIF, 'seeded', a.seed_id)
    os.makedirs(dest, exist_ok=True)
    ran = []
    rc, diff = sh('git diff -- pico8', cwd=wt)
    if not diff.strip():
        print('no change in worktree')
        return 1
    with open(os.path.join(dest, 'patch.diff'), 'w') as fh:
        fh.write(diff + '\n')
    confirm = {}
    if not a.skip_confirm:
        rc, out = sh('{} -m pytest -q -p no:cacheprovider tests'.format(PY),
                     cwd=wt)
        confirm['suite_with_change'] = out.strip().splitlines()[-1]
        ran.append('cd <worktree> && /venv/bin/python -m pytest -q -p '
                   'no:cacheprovider tests')
        rc1, out1 = sh('{} demo.py'.format(PY), cwd=wt, timeout=600)
        confirm['demo_with_change_rc'] = rc1
        confirm['demo_with_change_tail'] = out1.strip()[-400:]
        # (not `git stash`: the stash is shared by all worktrees)
        sh('git diff -- pico8 > .pv-change.patch && git apply -R '
           '.pv-change.patch', cwd=wt)
        try:
            rc2, out2 = sh('{} demo.py'.format(PY), cwd=wt, timeout=600)
        finally:
            sh('git apply .pv-change.patch && rm -f .pv-change.patch', cwd=wt)
        confirm['demo_without_change_rc'] = rc2
        ran += ['/venv/bin/python demo.py   (with the change)',
                'git apply -R <diff>; /venv/bin/python demo.py; git apply <diff>   '
                '(without the change)']
        confirm['confirmed'] = ('278 passed' in confirm['suite_with_change']
                                and rc1 != 0 and rc2 == 0)
    shutil.copy(os.path.join(wt, 'demo.py'), os.path.join(dest, 'demo.py'))
    if os.path.exists(os.path.join(wt, 'demo_expected.json')):
        # a demo that compares with values recorded on the unmodified code
        shutil.copy(os.path.join(wt, 'demo_expected.json'),
                    os.path.join(dest, 'demo_expected.json'))
    results = run_checks(os.path.join(dest, 'patch.diff'))
    detected_by = sorted(p for p, r in results.items()
                         if isinstance(r, dict) and r.get('rc') == 1)
    errors_in = sorted(p for p, r in results.items()
                       if isinstance(r, dict) and r.get('rc') == 2)
    meta = {
        'seed_id': a.seed_id,
        'breaks_property': a.prop,
        'summary': a.summary,
        'needs_to_manifest': a.needs,
        'confirmation': confirm,
        'commands_run': ran + [
            'scratch copy of /repo/pico8 + patch.diff, PV_REPO=<copy> '
            './check <every property> --no-evidence'],
        'detected_by': detected_by,
        'own_property_detects': a.prop in detected_by,
        'analysis_errors_in': errors_in,
        'check_results': {p: r for p, r in results.items()
                          if isinstance(r, dict) and r.get('rc')},
    }
    with open(os.path.join(dest, 'meta.json'), 'w') as fh:
        json.dump(meta, fh, indent=1)
        fh.write('\n')
    print(json.dumps({k: meta[k] for k in (
        'seed_id', 'breaks_property', 'confirmation', 'detected_by',
        'own_property_detects', 'analysis_errors_in')}, indent=1))
    for p in detected_by + errors_in:
        r = results[p]
        for v in (r['violations'] + r['analysis_errors'])[:2]:
            print(' ', p, v[:300])
    return 0


if __name__ == '__main__':
    sys.exit(main())
