#!/bin/sh
# evaluate every finished round-3 worktree that has no stored result yet
cd "$(dirname "$0")/.."
for k in n s; do
  for i in 01 02 03 04 05 06 07 08 09 10 11 12 13 14 15 16 17 18 19 20; do
    wt=/tmp/r3$k/C$i
    [ -f $wt/change.diff ] || continue
    if [ $k = n ]; then id=neutral2-C$i; tool=neut_eval.py; else id=seed2-C$i; tool=seed_eval.py; fi
    [ -f seeded/$id/meta.json ] && continue
    [ -f /tmp/r3eval_$id.lock ] && continue
    touch /tmp/r3eval_$id.lock
    ( python3 tools/$tool $id C$i $wt > /tmp/r3eval_$id.txt 2>&1; rm -f /tmp/r3eval_$id.lock ) &
  done
done
wait
