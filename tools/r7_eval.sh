#!/bin/sh
# evaluate every finished round-7 worktree (focused small edits in the
# functions the evaluated rules read)
cd "$(dirname "$0")/.."
set -- T01:C13 T02:C14 T03:C14 T04:C14 T05:C12 T06:C09 T07:C09 T08:C09 T09:C02 T10:C05 T11:C05 T12:C17 T13:C17 T14:C16 T15:C16 T16:C07 T17:C07 T18:C04 T19:C18 T20:C03
for pair in "$@"; do
  t=${pair%%:*}; p=${pair##*:}
  wt=/tmp/r7n/$t
  [ -f $wt/change.diff ] || continue
  id=neutral6-$t
  [ -f seeded/$id/meta.json ] && continue
  ( python3 tools/neut_eval.py $id $p $wt > /tmp/r7eval_$id.txt 2>&1 ) &
done
wait
python3 - <<'PY'
import json,glob,os
for f in sorted(glob.glob('/verif/seeded/neutral6-T*/meta.json')):
    m=json.load(open(f)); sid=os.path.basename(os.path.dirname(f))
    print(sid, 'ok' if m['confirmation'].get('confirmed') else 'UNCONFIRMED', 'FA', m['false_alarms_in'], 'err', m['analysis_errors_in'])
PY
