#!/usr/bin/env python3
"""debug aid: print a function of $PV_REPO after normalisation
usage: PV_REPO=... tools/show_norm.py <module> <qualname>"""
import ast, os, sys
sys.path.insert(0, os.path.dirname(os.path.dirname(os.path.abspath(__file__))))
from pv import srcmodel, normalise
m = srcmodel.Model()
print(m.normalise_stats, file=sys.stderr)
for f in m.functions.values():
    if f.module.name == sys.argv[1] and f.qualname == sys.argv[2]:
        print(ast.unparse(f.node))
