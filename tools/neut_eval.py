#!/usr/bin/env python3
"""Evaluate one behaviour-preserving refactoring produced by a sub-agent.

usage: tools/neut_eval.py <id> <property> <worktree> [--summary "..."]
       tools/neut_eval.py --recheck <id> [props...]

Confirms in the worktree that the suite passes and demo.py exits 0 with the
change; stores patch.diff, demo.py (+ its recorded expectations) and meta.json
under /verif/seeded/<id>/; applies the patch to a scratch copy of /repo/pico8
and runs every check: every one must exit 0 (an exit 1 is a false alarm, an
exit 2 an analysis that could not follow the refactored code).
"""
import argparse
import glob
import json
import os
import shutil
import sys

sys.path.insert(0, os.path.dirname(os.path.abspath(__file__)))
from seed_eval import sh, run_checks, VERIF, PY   # noqa: E402


def summarise(results):
    alarms = sorted(p for p, r in results.items()
                    if isinstance(r, dict) and r.get('rc') == 1)
    errors = sorted(p for p, r in results.items()
                    if isinstance(r, dict) and r.get('rc') == 2)
    return alarms, errors


def recheck(sid, props):
    dest = os.path.join(VERIF, 'seeded', sid)
    meta = json.load(open(os.path.join(dest, 'meta.json')))
    results = run_checks(os.path.join(dest, 'patch.diff'), props or None)
    old = meta.get('check_results', {}) if props else {}
    for p in props:
        old.pop(p, None)
    for p, r in results.items():
        if isinstance(r, dict) and r.get('rc'):
            old[p] = r
    meta['check_results'] = old
    meta['false_alarms_in'] = sorted(p for p, r in old.items() if r['rc'] == 1)
    meta['analysis_errors_in'] = sorted(p for p, r in old.items()
                                        if r['rc'] == 2)
    json.dump(meta, open(os.path.join(dest, 'meta.json'), 'w'), indent=1)
    print(sid, 'false_alarms=', meta['false_alarms_in'], 'errors=',
          meta['analysis_errors_in'])
    for p, r in sorted(old.items()):
        for v in (r['violations'] + r['analysis_errors'])[:4]:
            print('   ', p, v[:300])


def main():
    if len(sys.argv) > 2 and sys.argv[1] == '--recheck':
        recheck(sys.argv[2], sys.argv[3:])
        return 0
    ap = argparse.ArgumentParser()
    ap.add_argument('sid')
    ap.add_argument('prop')
    ap.add_argument('worktree')
    ap.add_argument('--summary', default='')
    a = ap.parse_args()
    wt = a.worktree
    dest = os.path.join(VERIF, 'seeded', a.sid)
    os.makedirs(dest, exist_ok=True)
    rc, diff = sh('git diff -- pico8', cwd=wt)
    if not diff.strip():
        print('no change in worktree')
        return 1
    with open(os.path.join(dest, 'patch.diff'), 'w') as fh:
        fh.write(diff + '\n')
    confirm = {}
    rc, out = sh('{} -m pytest -q -p no:cacheprovider tests'.format(PY),
                 cwd=wt)
    confirm['suite_with_change'] = out.strip().splitlines()[-1]
    rc1, out1 = sh('{} demo.py'.format(PY), cwd=wt, timeout=900)
    confirm['demo_with_change_rc'] = rc1
    # (not `git stash`: the stash is shared by all worktrees)
    sh('git diff -- pico8 > .pv-change.patch && git apply -R '
       '.pv-change.patch', cwd=wt)
    try:
        rc2, out2 = sh('{} demo.py'.format(PY), cwd=wt, timeout=900)
    finally:
        sh('git apply .pv-change.patch && rm -f .pv-change.patch', cwd=wt)
    confirm['demo_without_change_rc'] = rc2
    confirm['confirmed'] = ('278 passed' in confirm['suite_with_change']
                            and rc1 == 0 and rc2 == 0)
    for fn in ['demo.py'] + [os.path.basename(x) for x in
                             glob.glob(os.path.join(wt, '*.json'))]:
        src = os.path.join(wt, fn)
        if os.path.exists(src) and os.path.getsize(src) < 2_000_000:
            shutil.copy(src, os.path.join(dest, fn))
    results = run_checks(os.path.join(dest, 'patch.diff'))
    alarms, errors = summarise(results)
    touched = sorted({l.split(' b/')[-1] for l in diff.splitlines()
                      if l.startswith('diff --git')})
    meta = {
        'seed_id': a.sid, 'kind': 'neutral', 'property': a.prop,
        'summary': a.summary, 'files_touched': touched,
        'confirmation': confirm,
        'commands_run': [
            'cd <worktree> && /venv/bin/python -m pytest -q -p '
            'no:cacheprovider tests',
            '/venv/bin/python demo.py (with and, after git apply -R, without the '
            'change)',
            'scratch copy of /repo/pico8 + patch.diff, PV_REPO=<copy> '
            './check <every property> --no-evidence'],
        'false_alarms_in': alarms, 'analysis_errors_in': errors,
        'check_results': {p: r for p, r in results.items()
                          if isinstance(r, dict) and r.get('rc')},
    }
    json.dump(meta, open(os.path.join(dest, 'meta.json'), 'w'), indent=1)
    print(a.sid, 'confirmed=', confirm['confirmed'], 'false_alarms=', alarms,
          'errors=', errors)
    for p in alarms + errors:
        r = results[p]
        for v in (r['violations'] + r['analysis_errors'])[:4]:
            print('   ', p, v[:300])
    return 0


if __name__ == '__main__':
    sys.exit(main())
