#!/usr/bin/env python3
"""Regenerates pv/refs/baseline_exprs.json: the pinned tree's spelling of
every condition, keyed by function and normal form (run ONLY on the unchanged
/repo)."""
import json
import os
import sys
sys.path.insert(0, os.path.dirname(os.path.dirname(os.path.abspath(__file__))))
from pv import canon   # noqa: E402

d = canon.generate('/repo')
with open(canon.PATH, 'w') as fh:
    json.dump(d, fh, indent=0, sort_keys=True)
print('modules', len(d), 'functions', sum(len(v) for v in d.values()),
      'conditions', sum(len(t) for v in d.values() for t in v.values()))
