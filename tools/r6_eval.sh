#!/bin/sh
# evaluate every finished round-6 worktree (small behaviour-preserving edits)
cd "$(dirname "$0")/.."
for i in 01 02 03 04 05 06 07 08 09 10 11 12 13 14 15 16 17 18 19 20; do
  wt=/tmp/r6n/C$i
  [ -f $wt/change.diff ] || continue
  id=neutral5-C$i
  [ -f seeded/$id/meta.json ] && continue
  [ -f /tmp/r6eval_$id.lock ] && continue
  touch /tmp/r6eval_$id.lock
  ( python3 tools/neut_eval.py $id C$i $wt > /tmp/r6eval_$id.txt 2>&1; rm -f /tmp/r6eval_$id.lock ) &
done
wait
python3 - <<'PY'
import json,glob,os
for f in sorted(glob.glob('/verif/seeded/neutral5-C*/meta.json')):
    m=json.load(open(f)); sid=os.path.basename(os.path.dirname(f))
    print(sid, 'ok' if m['confirmation'].get('confirmed') else 'UNCONFIRMED', 'FA', m['false_alarms_in'], 'err', m['analysis_errors_in'])
PY
