#!/bin/sh
# usage: tools/apply_fix.sh NN   -- applies notes/planned-fixes/00NN-*.patch to /repo as its own commit, runs the suite
set -e
P=$(ls /verif/notes/planned-fixes/00$1-*.patch)
git -C /repo am -q "$P"
cd /repo && /venv/bin/python -m pytest -q -p no:cacheprovider -x tests 2>&1 | tail -2
git -C /repo log --oneline | head -1
