"""Predicates on one bytes/str variable as regular languages.

`pred_lang(test, var)` turns a Python boolean expression over the variable
`var` (endswith / startswith / slices compared with literals / `in` / not /
and / or / len comparisons) into the language of the values for which it is
true.  Rules then compare languages (equality, inclusion, with a witness
string) instead of matching the source text of the test, so every equivalent
way of writing the test is accepted and every inequivalent one is reported
with a value on which it differs.
"""
import ast

from .core import AnalysisError
from .lang import Lang


class NotAPredicate(AnalysisError):
    pass


def _lit(e):
    """literal bytes/str alternatives of an expression, as a list of bytes"""
    if isinstance(e, ast.Constant) and isinstance(e.value, (bytes, str)):
        v = e.value
        return [v if isinstance(v, bytes) else v.encode('latin-1')]
    if isinstance(e, (ast.Tuple, ast.List, ast.Set)):
        out = []
        for x in e.elts:
            r = _lit(x)
            if r is None:
                return None
            out.extend(r)
        return out
    if isinstance(e, ast.Attribute) and ast.unparse(e) in (
            'os.path.sep', 'os.sep'):
        return [b'/']
    return None


def _any_of(lits):
    L = Lang.empty()
    for x in lits:
        L = L.union(Lang.literal(x))
    return L


def _is_var(e, var):
    return isinstance(e, ast.Name) and e.id == var


def _const_int(e):
    if isinstance(e, ast.Constant) and isinstance(e.value, int) and \
            not isinstance(e.value, bool):
        return e.value
    if isinstance(e, ast.UnaryOp) and isinstance(e.op, ast.USub) and \
            isinstance(e.operand, ast.Constant) and \
            isinstance(e.operand.value, int):
        return -e.operand.value
    return None


def _exactly(n):
    """strings of length n"""
    L = Lang()
    cur = L.new()
    L.starts.add(cur)
    for _ in range(n):
        nx = L.new()
        L.trans[cur].append((frozenset(range(256)), nx))
        cur = nx
    L.accepts.add(cur)
    return L


def _shorter_than(n):
    L = Lang.empty()
    for k in range(n):
        L = L.union(_exactly(k))
    return L


def _regex_test(t, var):
    """`re.search(P, var)` / `re.match` / `re.fullmatch`, also through
    `re.compile(P)`: the language of the values with a match, or None.  The
    pattern is wrapped (`[\x00-\xff]*` before / behind) rather than the
    languages concatenated, so `^`, `$` and `\b` inside the pattern see the
    true ends of the value."""
    if not (isinstance(t, ast.Call) and isinstance(t.func, ast.Attribute)
            and t.func.attr in ('match', 'search', 'fullmatch')
            and not t.keywords):
        return None
    recv, args = t.func.value, t.args
    if isinstance(recv, ast.Name) and recv.id == 're' and len(args) == 2:
        pat, subj = args
    elif isinstance(recv, ast.Call) and ast.unparse(recv.func) == \
            're.compile' and len(recv.args) == 1 and not recv.keywords \
            and len(args) == 1:
        pat, subj = recv.args[0], args[0]
    else:
        return None
    if not _is_var(subj, var) or not isinstance(pat, ast.Constant) or \
            not isinstance(pat.value, (bytes, str)):
        return None
    p = pat.value
    if isinstance(p, str):
        try:
            p = p.encode('ascii')
        except UnicodeEncodeError:
            return None
    anyb = b'[\x00-\xff]*'
    body = b'(?:' + p + b')'
    if t.func.attr == 'match':
        body = body + anyb
    elif t.func.attr == 'search':
        body = anyb + body + anyb
    try:
        return Lang.from_regex(body)
    except AnalysisError as e:
        raise NotAPredicate('regex outside the model: {}'.format(e))
    except Exception as e:          # re.error etc.
        raise NotAPredicate('regex not parsed: {}'.format(e))


def pred_lang(t, var):
    """var may be one name or a set of names that all denote the same text"""
    if isinstance(var, (set, frozenset, list, tuple)):
        names = set(var)
        canon = sorted(names)[0]

        class R(ast.NodeTransformer):
            def visit_Name(self, n):
                return ast.Name(id=canon, ctx=n.ctx) if n.id in names else n
        import copy
        from .astutil import clone
        return pred_lang(R().visit(clone(t)), canon)
    ALL = Lang.all_strings()
    if isinstance(t, ast.Constant) and isinstance(t.value, bool):
        return ALL if t.value else Lang.empty()
    if isinstance(t, ast.IfExp):
        c = pred_lang(t.test, var)
        a = pred_lang(t.body, var)
        b = pred_lang(t.orelse, var)
        return c.intersect(a).union(c.complement().intersect(b))
    if isinstance(t, ast.UnaryOp) and isinstance(t.op, ast.Not):
        return pred_lang(t.operand, var).complement()
    if isinstance(t, ast.BoolOp):
        parts = [pred_lang(v, var) for v in t.values]
        out = parts[0]
        for p in parts[1:]:
            out = out.union(p) if isinstance(t.op, ast.Or) else \
                out.intersect(p)
        return out
    if _is_var(t, var):
        # truthiness: non-empty
        return Lang.literal(b'').complement()
    rl = _regex_test(t, var)
    if rl is not None:
        return rl           # a match object is truthy
    if isinstance(t, ast.Call) and isinstance(t.func, ast.Name) and \
            t.func.id == 'bool' and len(t.args) == 1 and not t.keywords:
        return pred_lang(t.args[0], var)
    if isinstance(t, ast.Compare) and len(t.ops) == 1 and \
            isinstance(t.ops[0], (ast.Is, ast.IsNot)) and \
            isinstance(t.comparators[0], ast.Constant) and \
            t.comparators[0].value is None:
        rl = _regex_test(t.left, var)
        if rl is not None:
            return rl.complement() if isinstance(t.ops[0], ast.Is) else rl
    if isinstance(t, ast.Call) and ast.unparse(t.func) in (
            'os.path.isabs', 'posixpath.isabs') and len(t.args) == 1 and \
            _is_var(t.args[0], var):
        return Lang.literal(b'/').concat(ALL)
    if isinstance(t, ast.Call) and isinstance(t.func, ast.Attribute) and \
            _is_var(t.func.value, var) and len(t.args) == 1 and \
            not t.keywords:
        lits = _lit(t.args[0])
        if lits is not None and t.func.attr == 'endswith':
            return ALL.concat(_any_of(lits))
        if lits is not None and t.func.attr == 'startswith':
            return _any_of(lits).concat(ALL)
    if isinstance(t, ast.Compare) and len(t.ops) == 1 and \
            isinstance(t.ops[0], (ast.Is, ast.IsNot)) and \
            _is_var(t.left, var) and \
            isinstance(t.comparators[0], ast.Constant) and \
            t.comparators[0].value is None:
        # no byte string is None
        return Lang.empty() if isinstance(t.ops[0], ast.Is) else ALL
    if isinstance(t, ast.Compare) and len(t.ops) == 1 and \
            isinstance(t.ops[0], (ast.In, ast.NotIn)) and \
            isinstance(t.left, ast.Subscript) and \
            _is_var(t.left.value, var) and \
            isinstance(t.comparators[0], (ast.Tuple, ast.List, ast.Set)) \
            and t.comparators[0].elts:
        # var[a:b] in (x, y)  ==  var[a:b] == x or var[a:b] == y
        alts = Lang.empty()
        for e in t.comparators[0].elts:
            alts = alts.union(pred_lang(ast.Compare(
                left=t.left, ops=[ast.Eq()], comparators=[e]), var))
        return alts.complement() if isinstance(t.ops[0], ast.NotIn) \
            else alts
    if isinstance(t, ast.Compare) and len(t.ops) == 1:
        op, l, r = t.ops[0], t.left, t.comparators[0]
        neg = isinstance(op, (ast.NotEq, ast.NotIn))
        out = None
        if isinstance(op, (ast.In, ast.NotIn)) and _is_var(r, var):
            lits = _lit(l)
            if lits is not None and len(lits) == 1:
                out = ALL.concat(Lang.literal(lits[0])).concat(ALL)
        elif isinstance(op, (ast.In, ast.NotIn)) and _is_var(l, var):
            lits = _lit(r)
            if lits is not None and isinstance(r, (ast.Tuple, ast.List,
                                                   ast.Set)):
                out = _any_of(lits)
        elif isinstance(op, (ast.Eq, ast.NotEq)):
            for a, b in ((l, r), (r, l)):
                lits = _lit(b)
                if lits is None or len(lits) != 1:
                    continue
                lit = lits[0]
                if _is_var(a, var):
                    out = Lang.literal(lit)
                elif isinstance(a, ast.Subscript) and _is_var(a.value, var) \
                        and isinstance(a.slice, ast.Slice) and \
                        a.slice.step is None:
                    lo = _const_int(a.slice.lower) if a.slice.lower else None
                    hi = _const_int(a.slice.upper) if a.slice.upper else None
                    if a.slice.lower is not None and lo is None or \
                            a.slice.upper is not None and hi is None:
                        continue
                    if lo is not None and lo < 0 and hi is None:
                        # var[-k:] == lit
                        k = -lo
                        if len(lit) == k:
                            out = ALL.concat(Lang.literal(lit))
                        elif len(lit) < k:
                            out = Lang.literal(lit)    # whole string
                        else:
                            out = Lang.empty()
                    elif (lo is None or lo == 0) and hi is not None and \
                            hi >= 0:
                        if len(lit) == hi:
                            out = Lang.literal(lit).concat(ALL)
                        elif len(lit) < hi:
                            out = Lang.literal(lit)
                        else:
                            out = Lang.empty()
                if out is not None:
                    break
            if out is None:
                # len(var) == k
                for a, b in ((l, r), (r, l)):
                    k = _const_int(b)
                    if k is not None and isinstance(a, ast.Call) and \
                            isinstance(a.func, ast.Name) and \
                            a.func.id == 'len' and len(a.args) == 1 and \
                            _is_var(a.args[0], var):
                        out = _exactly(k) if k >= 0 else Lang.empty()
        if out is not None:
            return out.complement() if neg else out
    raise NotAPredicate('not a recognised predicate on {}: {}'.format(
        var, ast.unparse(t)[:60]))
