"""Plain regular languages over bytes (no guards) with the handful of
operations the string-dataflow rules need: filters, byte homomorphisms, left
quotient by k bytes, split-at-separator projections, inclusion with witness.
Built from E6 NFAs by a position-synchronous subset construction (so guards
such as (?!\\.) are resolved exactly for whole-token matching)."""
from . import rx
from .rx import END


class Lang:
    def __init__(self):
        self.trans = []          # state -> list of (frozenset bytes, target)
        self.starts = set()
        self.accepts = set()

    def new(self):
        self.trans.append([])
        return len(self.trans) - 1

    # ---- construction -------------------------------------------------------
    @staticmethod
    def from_nfa(nfa):
        """Language of whole strings the pattern matches entirely."""
        _c, reps = rx.partition(nfa.bytesets())
        class_of, reps = rx.partition(nfa.bytesets())
        members = {}
        for b in range(256):
            members.setdefault(class_of[b], set()).add(b)
        L = Lang()
        start = (frozenset([nfa.start]), None)
        ids = {start: L.new()}
        L.starts.add(ids[start])
        queue = [start]
        while queue:
            st = queue.pop()
            (S, prev) = st
            if nfa.accept in rx.closure(nfa, S, prev, END):
                L.accepts.add(ids[st])
            for ci, rep in enumerate(reps):
                c = rx.closure(nfa, S, prev, rep)
                ns = rx.step(nfa, c, rep)
                if not ns:
                    continue
                nst = (ns, rx._prev_key(rep))
                if nst not in ids:
                    ids[nst] = L.new()
                    queue.append(nst)
                L.trans[ids[st]].append((frozenset(members[ci]), ids[nst]))
        return L

    @staticmethod
    def from_regex(pattern, flags=0):
        return Lang.from_nfa(rx.build(pattern, flags))

    @staticmethod
    def literal(data):
        L = Lang()
        cur = L.new()
        L.starts.add(cur)
        for b in data:
            n = L.new()
            L.trans[cur].append((frozenset([b]), n))
            cur = n
        L.accepts.add(cur)
        return L

    def copy(self):
        L = Lang()
        L.trans = [list(t) for t in self.trans]
        L.starts = set(self.starts)
        L.accepts = set(self.accepts)
        return L

    # ---- basic queries ----------------------------------------------------------
    def _reach(self, starts):
        seen = set(starts)
        stack = list(starts)
        while stack:
            s = stack.pop()
            for (_bs, t) in self.trans[s]:
                if t not in seen:
                    seen.add(t)
                    stack.append(t)
        return seen

    def _coreach(self):
        rev = {}
        for s, lst in enumerate(self.trans):
            for (_bs, t) in lst:
                rev.setdefault(t, set()).add(s)
        seen = set(self.accepts)
        stack = list(self.accepts)
        while stack:
            s = stack.pop()
            for p in rev.get(s, ()):
                if p not in seen:
                    seen.add(p)
                    stack.append(p)
        return seen

    def is_empty(self):
        return not (self._reach(self.starts) & self.accepts)

    def has_eps(self):
        return bool(self.starts & self.accepts)

    def witness(self):
        prev = {s: None for s in self.starts}
        queue = list(self.starts)
        while queue:
            s = queue.pop(0)
            if s in self.accepts:
                out = []
                while prev[s] is not None:
                    s, b = prev[s]
                    out.append(b)
                return bytes(reversed(out))
            for (bs, t) in self.trans[s]:
                if t not in prev and bs:
                    prev[t] = (s, min(bs))
                    queue.append(t)
        return None

    # ---- operations ---------------------------------------------------------
    def map_bytes(self, f):
        L = self.copy()
        L.trans = [[(frozenset(f(b) for b in bs), t) for (bs, t) in lst]
                   for lst in self.trans]
        return L

    def lower(self):
        return self.map_bytes(lambda b: b + 32 if 65 <= b <= 90 else b)

    def upper(self):
        return self.map_bytes(lambda b: b - 32 if 97 <= b <= 122 else b)

    def filter_contains(self, byteset, want=True):
        """Strings that contain (want) / do not contain a byte of byteset."""
        byteset = frozenset(byteset)
        L = Lang()
        n = len(self.trans)
        if not want:
            L.trans = [[(bs - byteset, t) for (bs, t) in lst
                        if bs - byteset] for lst in self.trans]
            L.starts = set(self.starts)
            L.accepts = set(self.accepts)
            return L
        # two layers: 0 = not seen yet, 1 = seen
        L.trans = [[] for _ in range(2 * n)]
        for s, lst in enumerate(self.trans):
            for (bs, t) in lst:
                if bs - byteset:
                    L.trans[s].append((bs - byteset, t))
                if bs & byteset:
                    L.trans[s].append((bs & byteset, t + n))
                L.trans[s + n].append((bs, t + n))
        L.starts = set(self.starts)
        L.accepts = {a + n for a in self.accepts}
        return L

    def drop_prefix(self, k):
        """{w[k:] : w in L} with Python slice semantics."""
        L = self.copy()
        cur = set(self.starts)
        short = bool(cur & self.accepts)
        for _ in range(k):
            nxt = set()
            for s in cur:
                for (bs, t) in self.trans[s]:
                    if bs:
                        nxt.add(t)
            cur = nxt
            if _ < k - 1 and (cur & self.accepts):
                short = True
        L.starts = set(cur)
        if short:
            e = L.new()
            L.starts.add(e)
            L.accepts.add(e)
        return L

    def count_sep_problems(self, sep):
        """Witnesses of strings with zero / more than one separator byte."""
        zero = self.filter_contains({sep}, want=False)
        w0 = None if zero.is_empty() else zero.witness()
        # at least two: filter twice through layered construction
        once = self.filter_contains({sep}, want=True)
        # strings with >= 2 seps: in the layered automaton, take a sep edge
        # while already in layer 1
        n = len(self.trans)
        L = Lang()
        L.trans = [[] for _ in range(3 * n)]
        for s, lst in enumerate(self.trans):
            for (bs, t) in lst:
                ns = bs - {sep}
                if ns:
                    L.trans[s].append((ns, t))
                    L.trans[s + n].append((ns, t + n))
                if sep in bs:
                    L.trans[s].append((frozenset([sep]), t + n))
                    L.trans[s + n].append((frozenset([sep]), t + 2 * n))
                L.trans[s + 2 * n].append((bs, t + 2 * n))
        L.starts = set(self.starts)
        L.accepts = {a + 2 * n for a in self.accepts}
        w2 = None if L.is_empty() else L.witness()
        return w0, w2

    def split_part(self, sep, idx):
        """Projection on the part before (0) / after (1) the single sep."""
        co = self._coreach()
        re_ = self._reach(self.starts)
        L = Lang()
        L.trans = [[(bs - {sep}, t) for (bs, t) in lst if bs - {sep}]
                   for lst in self.trans]
        if idx == 0:
            L.starts = set(self.starts)
            for s, lst in enumerate(self.trans):
                for (bs, t) in lst:
                    if sep in bs and t in co:
                        L.accepts.add(s)
        else:
            # states reachable without sep, then one sep edge
            pre = L._reach(self.starts)
            for s in pre:
                for (bs, t) in self.trans[s]:
                    if sep in bs:
                        L.starts.add(t)
            L.accepts = set(self.accepts)
        return L

    def or_default(self, const):
        L = self.copy()
        if not self.has_eps():
            return L
        # remove epsilon: fresh non-accepting copies of start states
        mp = {}
        for s in list(self.starts):
            ns = L.new()
            L.trans[ns] = list(L.trans[s])
            mp[s] = ns
        L.starts = set(mp.values())
        lit = Lang.literal(const)
        off = len(L.trans)
        for lst in lit.trans:
            L.trans.append([(bs, t + off) for (bs, t) in lst])
        L.starts |= {s + off for s in lit.starts}
        L.accepts |= {a + off for a in lit.accepts}
        return L

    def union(self, other):
        L = self.copy()
        off = len(L.trans)
        for lst in other.trans:
            L.trans.append([(bs, t + off) for (bs, t) in lst])
        L.starts |= {s + off for s in other.starts}
        L.accepts |= {a + off for a in other.accepts}
        return L

    def determinise(self):
        """-> complete deterministic Lang (states: subsets; a dead state is
        added) with the same language"""
        sets = set()
        for lst in self.trans:
            for (bs, _t) in lst:
                sets.add(bs)
        class_of, reps = rx.partition(sets)
        members = {}
        for b in range(256):
            members.setdefault(class_of[b], set()).add(b)
        D = Lang()
        start = frozenset(self.starts)
        ids = {start: D.new()}
        D.starts.add(ids[start])
        queue = [start]
        while queue:
            S = queue.pop()
            if S & self.accepts:
                D.accepts.add(ids[S])
            for ci, rep in enumerate(reps):
                T = frozenset(t for s in S for (bs, t) in self.trans[s]
                              if rep in bs)
                if T not in ids:
                    ids[T] = D.new()
                    queue.append(T)
                D.trans[ids[S]].append((frozenset(members[ci]), ids[T]))
        return D

    def complement(self):
        D = self.determinise()
        D.accepts = set(range(len(D.trans))) - D.accepts
        return D

    def intersect(self, other):
        return self.complement().union(other.complement()).complement()

    def difference_witness(self, other):
        """a string in exactly one of the two languages, with the side it is
        in: (bytes, 'left'|'right'), or None when the languages are equal"""
        w = self.not_subset_witness(other)
        if w is not None:
            return w, 'left'
        w = other.not_subset_witness(self)
        if w is not None:
            return w, 'right'
        return None

    @staticmethod
    def all_strings():
        L = Lang()
        s0 = L.new()
        L.starts.add(s0)
        L.accepts.add(s0)
        L.trans[s0].append((frozenset(range(256)), s0))
        return L

    @staticmethod
    def empty():
        L = Lang()
        L.starts.add(L.new())
        return L

    def concat(self, other):
        """L(self) . L(other)   (epsilon-free NFAs: accepting states of self
        get copies of the start transitions of other)"""
        L = self.copy()
        off = len(L.trans)
        for lst in other.trans:
            L.trans.append([(bs, t + off) for (bs, t) in lst])
        for a in self.accepts:
            for s0 in other.starts:
                L.trans[a].extend(L.trans[s0 + off])
        L.accepts = {a + off for a in other.accepts}
        if other.starts & other.accepts:
            L.accepts |= set(self.accepts)
        return L

    def not_subset_witness(self, other):
        """None if L(self) subseteq L(other), else a string in the
        difference."""
        sets = set()
        for lst in self.trans + other.trans:
            for (bs, _t) in lst:
                sets.add(bs)
        class_of, reps = rx.partition(sets)
        start = (frozenset(self.starts), frozenset(other.starts))
        prev = {start: None}
        queue = [start]
        while queue:
            st = queue.pop(0)
            (A, B) = st
            if (A & self.accepts) and not (B & other.accepts):
                out = []
                while prev[st] is not None:
                    st, b = prev[st]
                    out.append(b)
                return bytes(reversed(out))
            for rep in reps:
                na = frozenset(t for s in A for (bs, t) in self.trans[s]
                               if rep in bs)
                if not na:
                    continue
                nb = frozenset(t for s in B for (bs, t) in other.trans[s]
                               if rep in bs)
                nst = (na, nb)
                if nst not in prev:
                    prev[nst] = (st, rep)
                    queue.append(nst)
        return None
