"""E2 -- constant evaluator: partial evaluation of module- and class-level
data definitions of /repo/pico8 over `ast` nodes.

This is constant propagation / folding with a whitelist of pure constructors.
No function body of the repository is ever entered; nothing is imported from
pico8.  Anything outside the whitelist evaluates to UNKNOWN and poisons its
dependents.
"""
import ast
import posixpath

from .core import AnalysisError, Vanished


class _Unknown:
    def __repr__(self):
        return 'UNKNOWN'

    def __bool__(self):
        raise _Poison()


UNKNOWN = _Unknown()


class _Poison(Exception):
    pass


class Regex:
    def __init__(self, pattern, flags=0):
        self.pattern = pattern
        self.flags = flags

    def __repr__(self):
        return 'Regex({!r})'.format(self.pattern)

    def __eq__(self, o):
        return isinstance(o, Regex) and (o.pattern, o.flags) == (
            self.pattern, self.flags)

    def __hash__(self):
        return hash((self.pattern, self.flags))


class ClassRef:
    def __init__(self, qual, info=None, fields=None, name=None):
        self.qual = qual
        self.info = info
        self.dyn_fields = fields      # for type()-generated node classes
        self.name = name or qual.split(':')[-1]

    def __repr__(self):
        return 'ClassRef({})'.format(self.qual)

    def __eq__(self, o):
        return isinstance(o, ClassRef) and o.qual == self.qual

    def __hash__(self):
        return hash(self.qual)


class FuncRef:
    def __init__(self, qual):
        self.qual = qual

    def __repr__(self):
        return 'FuncRef({})'.format(self.qual)


class ModuleRef:
    def __init__(self, name, internal):
        self.name = name
        self.internal = internal

    def __repr__(self):
        return 'ModuleRef({})'.format(self.name)


class NTType:
    def __init__(self, name, fields):
        self.name = name
        self.fields = tuple(fields)

    def __call__(self, *args, **kw):
        vals = list(args)
        for f in self.fields[len(vals):]:
            vals.append(kw[f])
        if len(vals) != len(self.fields):
            raise _Poison()
        return NTValue(self, vals)


class NTValue(tuple):
    def __new__(cls, typ, vals):
        o = tuple.__new__(cls, vals)
        o._typ = typ
        return o

    def __getattr__(self, name):
        typ = object.__getattribute__(self, '_typ')
        if name in typ.fields:
            return self[typ.fields.index(name)]
        raise AttributeError(name)


class Instance:
    """An instance of a repo class built at module level, e.g.
    lexer.TokSymbol(b'+'): class + evaluated constructor arguments."""

    def __init__(self, cls, args, kwargs):
        self.cls = cls
        self.args = tuple(args)
        self.kwargs = dict(kwargs)

    def __repr__(self):
        return '{}{}'.format(self.cls.name, self.args)

    def __eq__(self, o):
        return (isinstance(o, Instance) and o.cls == self.cls and
                o.args == self.args)

    def __hash__(self):
        return hash((self.cls, self.args))


class TList(list):
    """list that remembers which index ranges came from iterating a set
    (their relative order is unspecified at run time)."""

    def __init__(self, it=(), unordered=None):
        super().__init__(it)
        self.unordered = list(unordered or [])

    def extend(self, other):
        base = len(self)
        super().extend(other)
        if isinstance(other, TList):
            self.unordered += [(a + base, b + base)
                               for (a, b) in other.unordered]

    def __add__(self, other):
        r = TList(self, self.unordered)
        r.extend(other)
        return r


def _sorted_set(s):
    return sorted(s, key=repr)


_PURE_BUILTINS = {
    'dict': dict, 'list': list, 'tuple': tuple, 'set': set,
    'frozenset': frozenset, 'len': len, 'range': range, 'chr': chr,
    'ord': ord, 'bytes': bytes, 'bytearray': bytearray, 'int': int,
    'min': min, 'max': max, 'sorted': sorted, 'str': str, 'abs': abs,
    'sum': sum, 'enumerate': enumerate, 'zip': zip, 'reversed': reversed,
    'bool': bool, 'float': float, 'repr': repr, 'any': any, 'all': all,
    'True': True, 'False': False, 'None': None, 'divmod': divmod,
    'hex': hex, 'isinstance': None, 'type': None,
}

_PURE_EXT = {
    'os.path.join': posixpath.join, 'os.path.dirname': posixpath.dirname,
    'os.path.basename': posixpath.basename,
    'os.path.normpath': posixpath.normpath,
}

_PURE_METHODS = {
    bytes: {'lower', 'upper', 'join', 'split', 'replace', 'strip', 'rstrip',
            'lstrip', 'startswith', 'endswith', 'decode', 'hex', 'find',
            'index', 'count', 'isdigit', 'rjust', 'ljust', 'zfill'},
    str: {'lower', 'upper', 'join', 'split', 'replace', 'strip', 'rstrip',
          'lstrip', 'startswith', 'endswith', 'encode', 'format', 'find',
          'index', 'count', 'isdigit', 'rjust', 'ljust', 'zfill'},
    dict: {'items', 'keys', 'values', 'get', 'copy'},
    list: {'index', 'count', 'copy'},
    TList: {'index', 'count', 'copy'},
    tuple: {'index', 'count'},
    set: {'union', 'intersection', 'difference', 'copy', 'issubset'},
    frozenset: {'union', 'intersection', 'difference', 'copy', 'issubset'},
}

_MUTATORS = {'extend', 'append', 'update', 'add', 'insert', 'pop', 'remove',
             'clear', 'setdefault', 'discard'}


class Evaluator:
    def __init__(self, model):
        self.model = model
        self._envs = {}
        self._class_envs = {}
        self._busy = set()

    # ---- public ------------------------------------------------------------
    def module_env(self, modname):
        if modname in self._envs:
            return self._envs[modname]
        if modname in self._busy:
            return {}
        if modname not in self.model.modules:
            raise Vanished('module {} not found'.format(modname))
        self._busy.add(modname)
        m = self.model.modules[modname]
        env = {'__file__': m.path, '__name__': modname}
        self._envs[modname] = env
        self._exec_block(m.tree.body, env, m, toplevel=True)
        self._busy.discard(modname)
        return env

    def module_const(self, modname, name):
        env = self.module_env(modname)
        if name not in env:
            raise Vanished('{}.{} is not defined at module level'.format(
                modname, name))
        return env[name]

    def has_const(self, modname, name):
        return name in self.module_env(modname)

    def class_env(self, cls):
        if cls.qual in self._class_envs:
            return self._class_envs[cls.qual]
        menv = self.module_env(cls.module.name)
        env = _ChainEnv(menv)
        self._class_envs[cls.qual] = env
        self._exec_block(cls.node.body, env, cls.module, toplevel=False)
        return env

    def class_const(self, cls, name):
        for c in self.model.mro(cls):
            env = self.class_env(c)
            if name in env.local:
                return env.local[name]
        raise Vanished('{}.{} is not a class-level constant'.format(
            cls.qual, name))

    def eval_expr(self, module, expr, local=None):
        env = self.module_env(module.name)
        if local:
            env = _ChainEnv(env, dict(local))
        return self._eval(expr, env, module)

    # ---- statements ----------------------------------------------------------
    def _exec_block(self, body, env, m, toplevel):
        for s in body:
            try:
                self._exec(s, env, m, toplevel)
            except _Poison:
                for n in _assigned_names(s):
                    env[n] = UNKNOWN

    def _exec(self, s, env, m, toplevel):
        if isinstance(s, (ast.Import, ast.ImportFrom)):
            for a in s.names:
                alias = a.asname or a.name.split('.')[0]
                imp = m.imports.get(alias)
                if imp is None:
                    env[alias] = UNKNOWN
                elif imp[0] == 'module':
                    env[alias] = ModuleRef(imp[1],
                                           imp[1] in self.model.modules)
                else:
                    modname, attr = imp[1], imp[2]
                    if modname in self.model.modules:
                        env[alias] = _Lazy(self, modname, attr)
                    else:
                        env[alias] = ModuleRef(modname + '.' + attr, False)
            return
        if isinstance(s, ast.Assign):
            v = self._eval(s.value, env, m)
            for t in s.targets:
                self._assign(t, v, env, m)
            return
        if isinstance(s, ast.AnnAssign):
            if s.value is not None:
                self._assign(s.target, self._eval(s.value, env, m), env, m)
            return
        if isinstance(s, ast.AugAssign):
            cur = self._eval(_load(s.target), env, m)
            v = self._eval(s.value, env, m)
            self._assign(s.target, self._binop(s.op, cur, v), env, m)
            return
        if isinstance(s, ast.Expr):
            v = s.value
            if isinstance(v, ast.Call) and isinstance(v.func, ast.Attribute) \
                    and v.func.attr in _MUTATORS:
                obj = self._eval(v.func.value, env, m)
                args = [self._eval(a, env, m) for a in v.args]
                if obj is UNKNOWN or any(a is UNKNOWN for a in args):
                    self._poison_target(v.func.value, env)
                    return
                if isinstance(obj, (list, dict, set)):
                    getattr(obj, v.func.attr)(*args)
                    return
                self._poison_target(v.func.value, env)
            return
        if isinstance(s, ast.Delete):
            for t in s.targets:
                if isinstance(t, ast.Subscript):
                    obj = self._eval(t.value, env, m)
                    k = self._eval(t.slice, env, m)
                    if obj is UNKNOWN or k is UNKNOWN:
                        self._poison_target(t.value, env)
                    else:
                        del obj[k]
                elif isinstance(t, ast.Name):
                    env.pop(t.id, None)
            return
        if isinstance(s, (ast.FunctionDef, ast.AsyncFunctionDef)):
            env[s.name] = FuncRef('{}:{}'.format(m.name, s.name))
            return
        if isinstance(s, ast.ClassDef):
            info = m.classes.get(s.name)
            env[s.name] = ClassRef('{}:{}'.format(m.name, s.name), info)
            return
        if isinstance(s, ast.For):
            self._exec_for(s, env, m)
            return
        if isinstance(s, ast.If):
            try:
                t = self._eval(s.test, env, m)
                if t is UNKNOWN:
                    raise _Poison()
                self._exec_block(s.body if t else s.orelse, env, m, toplevel)
            except _Poison:
                for n in _assigned_names(s):
                    env[n] = UNKNOWN
            return
        if isinstance(s, (ast.Pass, ast.Global)):
            return
        if isinstance(s, (ast.Try, ast.With, ast.While)):
            for n in _assigned_names(s):
                env[n] = UNKNOWN
            return
        # anything else: ignore, poison what it binds
        for n in _assigned_names(s):
            env[n] = UNKNOWN

    def _exec_for(self, s, env, m):
        """Module-level loops are executed only when every statement of the
        body is in the supported subset (assignments, def, globals()[k]=v)."""
        try:
            it = self._eval(s.iter, env, m)
            if it is UNKNOWN:
                raise _Poison()
            items = list(_sorted_set(it) if isinstance(it, (set, frozenset))
                         else it)
            if len(items) > 5000:
                raise _Poison()
            for item in items:
                self._assign(s.target, item, env, m)
                for b in s.body:
                    if isinstance(b, (ast.Assign, ast.FunctionDef, ast.Pass)):
                        self._exec(b, env, m, False)
                    else:
                        raise _Poison()
        except _Poison:
            for n in _assigned_names(s):
                env[n] = UNKNOWN
            # classes generated through globals()[name] = type(...) stay
            # undefined: users get Vanished/UNKNOWN, never a guess

    def _poison_target(self, node, env):
        while isinstance(node, (ast.Attribute, ast.Subscript)):
            node = node.value
        if isinstance(node, ast.Name):
            env[node.id] = UNKNOWN

    def _assign(self, t, v, env, m):
        if isinstance(t, ast.Name):
            env[t.id] = v
        elif isinstance(t, (ast.Tuple, ast.List)):
            if v is UNKNOWN:
                for e in t.elts:
                    self._assign(e, UNKNOWN, env, m)
                return
            vals = list(v)
            if len(vals) != len(t.elts):
                raise _Poison()
            for e, x in zip(t.elts, vals):
                self._assign(e, x, env, m)
        elif isinstance(t, ast.Subscript):
            # globals()[name] = value
            if (isinstance(t.value, ast.Call) and
                    isinstance(t.value.func, ast.Name) and
                    t.value.func.id == 'globals'):
                k = self._eval(t.slice, env, m)
                if isinstance(k, str):
                    root = env
                    while isinstance(root, _ChainEnv):
                        root = root.parent
                    root[k] = v
                    return
                raise _Poison()
            obj = self._eval(t.value, env, m)
            k = self._eval(t.slice, env, m)
            if obj is UNKNOWN or k is UNKNOWN or v is UNKNOWN:
                self._poison_target(t.value, env)
            else:
                obj[k] = v
        elif isinstance(t, ast.Attribute):
            pass
        else:
            raise _Poison()

    # ---- expressions ------------------------------------------------------
    def _eval(self, e, env, m):
        try:
            return self._ev(e, env, m)
        except _Poison:
            return UNKNOWN
        except (TypeError, ValueError, KeyError, IndexError, AttributeError,
                OverflowError, ZeroDivisionError, RecursionError):
            return UNKNOWN

    def _ev(self, e, env, m):
        if isinstance(e, ast.Constant):
            return e.value
        if isinstance(e, ast.Name):
            if e.id in env:
                v = env[e.id]
                if isinstance(v, _Lazy):
                    v = v.get()
                return v
            if e.id in _PURE_BUILTINS and _PURE_BUILTINS[e.id] is not None:
                return _Builtin(e.id)
            if e.id in ('True', 'False', 'None'):
                return {'True': True, 'False': False, 'None': None}[e.id]
            return UNKNOWN
        if isinstance(e, ast.Tuple):
            return tuple(self._elts(e.elts, env, m))
        if isinstance(e, ast.List):
            return TList(self._elts(e.elts, env, m))
        if isinstance(e, ast.Set):
            return set(self._elts(e.elts, env, m))
        if isinstance(e, ast.Dict):
            d = {}
            for k, v in zip(e.keys, e.values):
                if k is None:
                    d.update(self._need(v, env, m))
                else:
                    d[self._need(k, env, m)] = self._need(v, env, m)
            return d
        if isinstance(e, ast.BinOp):
            return self._binop(e.op, self._need(e.left, env, m),
                               self._need(e.right, env, m))
        if isinstance(e, ast.UnaryOp):
            v = self._need(e.operand, env, m)
            if isinstance(e.op, ast.USub):
                return -v
            if isinstance(e.op, ast.UAdd):
                return +v
            if isinstance(e.op, ast.Invert):
                return ~v
            if isinstance(e.op, ast.Not):
                return not v
        if isinstance(e, ast.BoolOp):
            vals = [self._need(v, env, m) for v in e.values]
            r = vals[0]
            for v in vals[1:]:
                r = (r and v) if isinstance(e.op, ast.And) else (r or v)
            return r
        if isinstance(e, ast.Compare):
            left = self._need(e.left, env, m)
            for op, c in zip(e.ops, e.comparators):
                right = self._need(c, env, m)
                if not _cmp(op, left, right):
                    return False
                left = right
            return True
        if isinstance(e, ast.IfExp):
            return self._need(e.body if self._need(e.test, env, m)
                              else e.orelse, env, m)
        if isinstance(e, ast.Subscript):
            obj = self._need(e.value, env, m)
            if isinstance(e.slice, ast.Slice):
                lo = self._need(e.slice.lower, env, m) if e.slice.lower else None
                hi = self._need(e.slice.upper, env, m) if e.slice.upper else None
                st = self._need(e.slice.step, env, m) if e.slice.step else None
                r = obj[lo:hi:st]
                return TList(r) if isinstance(r, list) else r
            return obj[self._need(e.slice, env, m)]
        if isinstance(e, ast.Attribute):
            return self._attr(e, env, m)
        if isinstance(e, (ast.ListComp, ast.GeneratorExp, ast.SetComp,
                          ast.DictComp)):
            return self._comp(e, env, m)
        if isinstance(e, ast.Call):
            return self._call(e, env, m)
        if isinstance(e, ast.JoinedStr):
            out = []
            for v in e.values:
                if isinstance(v, ast.Constant):
                    out.append(v.value)
                else:
                    raise _Poison()
            return ''.join(out)
        if isinstance(e, ast.Starred):
            raise _Poison()
        raise _Poison()

    def _need(self, e, env, m):
        v = self._ev(e, env, m)
        if v is UNKNOWN:
            raise _Poison()
        return v

    def _elts(self, elts, env, m):
        out = []
        for x in elts:
            if isinstance(x, ast.Starred):
                out.extend(self._need(x.value, env, m))
            else:
                out.append(self._need(x, env, m))
        return out

    def _binop(self, op, a, b):
        if a is UNKNOWN or b is UNKNOWN:
            raise _Poison()
        if isinstance(op, ast.Add):
            if isinstance(a, TList):
                return a + b
            if isinstance(a, list):
                return TList(a) + b
            return a + b
        if isinstance(op, ast.Sub):
            return a - b
        if isinstance(op, ast.Mult):
            return a * b
        if isinstance(op, ast.FloorDiv):
            return a // b
        if isinstance(op, ast.Div):
            return a / b
        if isinstance(op, ast.Mod):
            return a % b
        if isinstance(op, ast.Pow):
            if isinstance(b, int) and abs(b) > 64:
                raise _Poison()
            return a ** b
        if isinstance(op, ast.BitOr):
            return a | b
        if isinstance(op, ast.BitAnd):
            return a & b
        if isinstance(op, ast.BitXor):
            return a ^ b
        if isinstance(op, ast.LShift):
            if b > 64:
                raise _Poison()
            return a << b
        if isinstance(op, ast.RShift):
            return a >> b
        raise _Poison()

    def _attr(self, e, env, m):
        base = self._need(e.value, env, m)
        if isinstance(base, ModuleRef):
            if base.internal:
                menv = self.module_env(base.name)
                if e.attr in menv:
                    v = menv[e.attr]
                    return v.get() if isinstance(v, _Lazy) else v
                sub = base.name + '.' + e.attr
                if sub in self.model.modules:
                    return ModuleRef(sub, True)
                raise _Poison()
            return ModuleRef(base.name + '.' + e.attr, False)
        if isinstance(base, NTValue):
            return getattr(base, e.attr)
        if isinstance(base, ClassRef):
            if base.info is not None:
                try:
                    return self.class_const(base.info, e.attr)
                except Vanished:
                    f = self.model.lookup_method(base.info, e.attr)
                    if f is not None:
                        return FuncRef(f.qual)
                    raise _Poison()
            if e.attr == '__name__':
                return base.name
            raise _Poison()
        if isinstance(base, Instance):
            raise _Poison()
        raise _Poison()

    def _comp(self, e, env, m):
        results = []
        unordered = [False]

        def rec(gens, scope):
            if not gens:
                if isinstance(e, ast.DictComp):
                    results.append((self._need(e.key, scope, m),
                                    self._need(e.value, scope, m)))
                else:
                    results.append(self._need(e.elt, scope, m))
                return
            g = gens[0]
            it = self._need(g.iter, scope, m)
            if isinstance(it, (set, frozenset)):
                unordered[0] = True
                it = _sorted_set(it)
            elif isinstance(it, dict):
                it = list(it)
            elif isinstance(it, _DictView):
                it = list(it.items)
            n = 0
            for item in it:
                n += 1
                if n > 100000:
                    raise _Poison()
                sc = _ChainEnv(scope)
                self._assign(g.target, item, sc, m)
                if all(self._need(c, sc, m) for c in g.ifs):
                    rec(gens[1:], sc)
        rec(e.generators, env)
        if isinstance(e, ast.DictComp):
            return dict(results)
        if isinstance(e, ast.SetComp):
            return set(results)
        r = TList(results)
        if unordered[0]:
            r.unordered = [(0, len(r))]
        return r

    def _call(self, e, env, m):
        fn = e.func
        # method calls on evaluated values
        if isinstance(fn, ast.Attribute):
            try:
                base = self._ev(fn.value, env, m)
            except _Poison:
                base = UNKNOWN
            if base is not UNKNOWN and not isinstance(
                    base, (ModuleRef, ClassRef, NTType)):
                for typ, names in _PURE_METHODS.items():
                    if type(base) is typ or (typ in (list,) and
                                             isinstance(base, list)):
                        if fn.attr in names:
                            args = self._elts(e.args, env, m)
                            kw = {k.arg: self._need(k.value, env, m)
                                  for k in e.keywords}
                            r = getattr(base, fn.attr)(*args, **kw)
                            if fn.attr in ('items', 'keys', 'values'):
                                return _DictView(list(r))
                            if isinstance(r, list):
                                return TList(r)
                            return r
                raise _Poison()
        if isinstance(fn, ast.Name) and fn.id == 'type' and \
                'type' not in env and len(e.args) == 3:
            name = self._need(e.args[0], env, m)
            bases = self._need(e.args[1], env, m)
            ns = self._need(e.args[2], env, m)
            if not isinstance(name, str) or not isinstance(ns, dict):
                raise _Poison()
            c = ClassRef('{}:{}'.format(m.name, name), None,
                         fields=ns.get('_fields'), name=name)
            c.dyn_bases = bases
            return c
        callee = self._need(fn, env, m)
        args = self._elts(e.args, env, m)
        kw = {}
        for k in e.keywords:
            if k.arg is None:
                kw.update(self._need(k.value, env, m))
            else:
                kw[k.arg] = self._need(k.value, env, m)
        if isinstance(callee, _Builtin):
            f = _PURE_BUILTINS[callee.name]
            args = [list(a.items) if isinstance(a, _DictView) else a
                    for a in args]
            if callee.name in ('list', 'sorted', 'tuple') and args and \
                    isinstance(args[0], (set, frozenset)):
                r = TList(_sorted_set(args[0]))
                if callee.name != 'sorted':
                    r.unordered = [(0, len(r))]
                return r if callee.name != 'tuple' else tuple(r)
            r = f(*args, **kw)
            if callee.name in ('enumerate', 'zip', 'reversed'):
                return TList(r)
            if type(r) is list:
                u = args[0].unordered if (args and isinstance(args[0], TList)
                                          and callee.name == 'list') else None
                return TList(r, u)
            if callee.name == 'tuple' and args and isinstance(args[0], TList) \
                    and args[0].unordered:
                return _UTuple(r, args[0].unordered)
            return r
        if isinstance(callee, ModuleRef) and not callee.internal:
            if callee.name == 're.compile':
                return Regex(args[0], args[1] if len(args) > 1
                             else kw.get('flags', 0))
            if callee.name == 'collections.namedtuple':
                fields = args[1]
                if isinstance(fields, str):
                    fields = fields.replace(',', ' ').split()
                return NTType(args[0], fields)
            if callee.name in _PURE_EXT:
                return _PURE_EXT[callee.name](*args, **kw)
            raise _Poison()
        if isinstance(callee, NTType):
            return callee(*args, **kw)
        if isinstance(callee, ClassRef):
            return Instance(callee, args, kw)
        raise _Poison()


class _UTuple(tuple):
    def __new__(cls, vals, unordered):
        o = tuple.__new__(cls, vals)
        o.unordered = unordered
        return o


class _Builtin:
    def __init__(self, name):
        self.name = name


class _DictView:
    def __init__(self, items):
        self.items = items

    def __iter__(self):
        return iter(self.items)


class _Lazy:
    def __init__(self, ev, modname, attr):
        self.ev, self.modname, self.attr = ev, modname, attr

    def get(self):
        env = self.ev.module_env(self.modname)
        v = env.get(self.attr, UNKNOWN)
        if isinstance(v, _Lazy):
            return v.get()
        return v


class _ChainEnv(dict):
    """local scope on top of a parent env (reads fall through)."""

    def __init__(self, parent, local=None):
        super().__init__()
        self.parent = parent
        self.local = self
        if local:
            self.update(local)

    def __contains__(self, k):
        return dict.__contains__(self, k) or k in self.parent

    def __getitem__(self, k):
        if dict.__contains__(self, k):
            return dict.__getitem__(self, k)
        return self.parent[k]

    def get(self, k, d=None):
        return self[k] if k in self else d


def _cmp(op, a, b):
    if isinstance(op, ast.Eq):
        return a == b
    if isinstance(op, ast.NotEq):
        return a != b
    if isinstance(op, ast.Lt):
        return a < b
    if isinstance(op, ast.LtE):
        return a <= b
    if isinstance(op, ast.Gt):
        return a > b
    if isinstance(op, ast.GtE):
        return a >= b
    if isinstance(op, ast.In):
        return a in b
    if isinstance(op, ast.NotIn):
        return a not in b
    if isinstance(op, ast.Is):
        return a is b
    if isinstance(op, ast.IsNot):
        return a is not b
    raise _Poison()


def _load(t):
    import copy
    n = copy.copy(t)
    n.ctx = ast.Load()
    return n


def _assigned_names(s):
    out = set()
    for n in ast.walk(s):
        if isinstance(n, ast.Name) and isinstance(n.ctx, (ast.Store, ast.Del)):
            out.add(n.id)
        elif isinstance(n, (ast.FunctionDef, ast.ClassDef)):
            out.add(n.name)
    return out
