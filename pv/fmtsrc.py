"""Extraction of the AST writers' structure from pico8/lua/lua.py:

  * the whitespace-normalisation pipeline of LuaFormatterWriter
    (ordered re.sub steps with evaluated pattern, symbolic replacement and
    guard), used by R-C09-wsregex / R-C10-introducers / R-C10-order;
  * per-handler event sequences (emit terminal / walk child / indent +-1) on
    every path of each _walk_<Type> handler of LuaASTEchoWriter, with boolean
    locals tracked so correlated branches pair up, used by R-C10-balance,
    R-C10-bracket and R-C09-agree.
"""
import ast

from . import rx
from .core import AnalysisError
from .srcmodel import walk_own, const_str

LUA = 'pico8.lua.lua'


# ------------------------------------------------------------------ pipeline

class Sub:
    def __init__(self, node, pattern, repl, guard, flags=0):
        self.node = node
        self.pattern = pattern
        self.repl = repl          # list of ('lit', bytes)|('spaces',)|('ref', n)
        self.guard = guard        # unparsed enclosing test or ''
        self.flags = flags

    def repl_literal(self):
        return b''.join(p[1] for p in self.repl if p[0] == 'lit')

    def describe(self):
        def part(p):
            if p[0] == 'lit':
                return repr(p[1].decode('latin-1'))
            if p[0] == 'spaces':
                return '<indent>'
            return '\\%d' % (p[1] if len(p) > 1 else 0)
        return 're.sub({!r}, {}, ...)'.format(
            self.pattern.decode('latin-1'),
            ' + '.join(part(p) for p in self.repl) or "''")


def _template_parts(data):
    """bytes replacement template -> parts (handles \\1 .. \\9, \\n, \\\\)."""
    parts = []
    lit = bytearray()
    i = 0
    while i < len(data):
        c = data[i:i + 1]
        if c == b'\\' and i + 1 < len(data):
            d = data[i + 1:i + 2]
            if d.isdigit():
                if lit:
                    parts.append(('lit', bytes(lit)))
                    lit = bytearray()
                parts.append(('ref', int(d)))
                i += 2
                continue
            esc = {b'n': b'\n', b't': b'\t', b'r': b'\r', b'\\': b'\\'}
            if d in esc:
                lit += esc[d]
                i += 2
                continue
            raise AnalysisError('replacement escape \\' + d.decode('latin-1'))
        lit += c
        i += 1
    if lit:
        parts.append(('lit', bytes(lit)))
    return parts


def _repl_parts(e):
    if isinstance(const_str(e), bytes):
        return _template_parts(const_str(e))
    if isinstance(e, ast.BinOp) and isinstance(e.op, ast.Add):
        return _repl_parts(e.left) + _repl_parts(e.right)
    if isinstance(e, ast.BinOp) and isinstance(e.op, ast.Mult):
        # b' ' * k * depth
        base = e
        while isinstance(base, ast.BinOp) and isinstance(base.op, ast.Mult):
            base = base.left
        if const_str(base) == b' ':
            return [('spaces',)]
    raise AnalysisError('replacement expression outside the model: ' +
                        ast.unparse(e)[:60])


_CANON_ESC = {9: b'\\t', 10: b'\\n', 13: b'\\r'}


def _canon_pattern(pat):
    """a regex that is a plain literal is re-spelled in one canonical way
    (\\t \\n \\r for control characters, re.escape for the rest) so that
    re.sub(br'\\t', ..) and s.replace(b'\\t', ..) compare equal"""
    import re as _re
    from . import rx
    try:
        tree = list(rx.parse(pat))
    except Exception:
        return pat
    if not tree or any(str(op) != 'LITERAL' for (op, _av) in tree):
        return pat
    out = b''
    for (_op, av) in tree:
        out += _CANON_ESC.get(av) or (
            bytes([av]) if bytes([av]).isalnum() or av == 0x20
            else _re.escape(bytes([av])))
    return out


def extract_pipeline(ctx, qual=LUA + ':LuaFormatterWriter._get_code_for_spaces'):
    """the substitution steps applied to the whitespace run, in order:
       V = re.sub(P, R, V) | V = <compiled P>.sub(R, V) | V = V.replace(A, B)
    (a literal replace is the substitution of the escaped literal)"""
    import re as _re
    from . import norm
    from .consteval import Regex
    model, ev = ctx.model, ctx.consts
    f = model.func(qual)
    subs = []
    var = None
    for st in walk_own(f.node):
        if not (isinstance(st, ast.Assign) and isinstance(st.value, ast.Call)
                and isinstance(st.value.func, ast.Attribute)):
            continue
        c = st.value
        pat = repl_e = src = None
        if model.ext_name(f.module, c.func) == 're.sub':
            if len(c.args) < 3:
                raise AnalysisError('re.sub with keyword arguments')
            pat = norm.fold(ctx, f, c.args[0])
            if isinstance(pat, Regex):
                pat = pat.pattern
            repl_e, src = c.args[1], c.args[2]
        elif c.func.attr == 'sub' and len(c.args) == 2:
            rv = norm.fold(ctx, f, c.func.value)
            if not isinstance(rv, Regex):
                continue
            pat = rv.pattern
            repl_e, src = c.args[0], c.args[1]
        elif c.func.attr == 'replace' and len(c.args) == 2 and \
                isinstance(c.func.value, ast.Name):
            a = norm.fold(ctx, f, c.args[0])
            if not isinstance(a, bytes):
                continue
            pat = _re.escape(a)
            repl_e, src = c.args[1], c.func.value
        else:
            continue
        if not isinstance(pat, bytes):
            raise AnalysisError('re.sub pattern is not a bytes constant')
        tgt = st.targets[0]
        if not (isinstance(tgt, ast.Name) and isinstance(src, ast.Name)
                and tgt.id == src.id):
            raise AnalysisError('re.sub does not rewrite one variable '
                                'in place')
        if var is None:
            var = tgt.id
        elif var != tgt.id:
            raise AnalysisError('pipeline uses several variables')
        guard = ''
        p = getattr(st, '_parent', None)
        if isinstance(p, ast.If):
            guard = ast.unparse(norm.subst_locals(f.node, p.test))
            if st in p.orelse:
                guard = 'not (' + guard + ')'
        flags = 0
        repl_e = norm.subst_locals(f.node, repl_e)
        if c.func.attr == 'replace':
            b_ = norm.fold(ctx, f, repl_e)
            if not isinstance(b_, bytes):
                raise AnalysisError('replace() with a non-constant')
            parts = [('lit', b_)] if b_ else []
        else:
            parts = _repl_parts(repl_e)
        pat = _canon_pattern(pat)
        s_ = Sub(st, pat, parts, guard, flags)
        s_.repl_expr = repl_e
        subs.append(s_)
    # statement order of the function body (spliced statements share the
    # line of the call they replaced: line numbers do not order them)
    order = {}

    def number(stmts):
        for st2 in stmts:
            order[id(st2)] = len(order)
            for fld in ('body', 'orelse', 'finalbody'):
                sub = getattr(st2, fld, None)
                if isinstance(sub, list) and not isinstance(
                        st2, (ast.FunctionDef, ast.AsyncFunctionDef,
                              ast.ClassDef)):
                    number(sub)
            for h in getattr(st2, 'handlers', []) or []:
                number(h.body)
    number(f.node.body)
    subs.sort(key=lambda s: order.get(id(s.node), 1 << 30))
    rets = [n for n in walk_own(f.node) if isinstance(n, ast.Return)]
    returns_var = all(isinstance(r.value, ast.Name) and r.value.id == var
                      for r in rets) and bool(rets)
    return f, subs, var, returns_var


# ------------------------------------------------------------ handler events

OPENERS = {b'do', b'then', b'else', b'repeat', b'(', b'[', b'{', b')'}
CLOSERS = {b'end', b'until', b'elseif', b'else', b')', b']', b'}'}


class PathLimit(AnalysisError):
    pass


class HandlerPaths:
    """All (bounded) paths of one handler as event lists.

    events: ('emit', bytes|None) ('content', what) ('block', field)
            ('ws',) ('inc',) ('dec',) ('pos',)
    """

    def __init__(self, func, max_paths=4000):
        self.f = func
        self.node_param = func.params()[1] if len(func.params()) > 1 else 'node'
        self.max_paths = max_paths
        self.paths = []
        for (ev, env, term) in self._block(func.node.body, {}, []):
            self.paths.append((ev, env))
        if len(self.paths) > max_paths:
            raise PathLimit('too many paths in ' + func.qual)

    # --- expression classification
    def _yield_event(self, v, env=None):
        env = env or {}
        if v is None:
            return ('ws',)
        if isinstance(v, ast.Name) and isinstance(env.get(v.id), bytes):
            return ('emit', env[v.id])
        if isinstance(const_str(v), bytes):
            return ('emit', const_str(v))
        if isinstance(v, ast.Call) and isinstance(v.func, ast.Attribute) and \
                isinstance(v.func.value, ast.Name) and v.func.value.id == 'self':
            a = v.func.attr
            if a == '_get_text':
                arg = v.args[1] if len(v.args) > 1 else None
                c = const_str(arg) if arg is not None else None
                if isinstance(arg, ast.Name) and \
                        isinstance(env.get(arg.id), bytes):
                    c = env[arg.id]
                return ('emit', c if isinstance(c, bytes) else None)
            if a == '_get_semis':
                return ('emit', b';')
            if a == '_get_code_for_spaces':
                return ('ws',)
            if a == '_get_name':
                return ('content', 'name')
        if isinstance(v, ast.BinOp) and isinstance(v.op, ast.Add):
            # spaces + self._get_text(...)
            r = self._yield_event(v.right, env)
            if r[0] == 'emit':
                return r
        if isinstance(v, ast.Attribute) and v.attr == 'code':
            return ('content', 'token')
        if isinstance(v, ast.Name):
            return ('content', 'child')
        return ('content', ast.unparse(v)[:30])

    def _walk_target(self, it):
        """self._walk(X) -> description of X"""
        if isinstance(it, ast.Call) and isinstance(it.func, ast.Attribute) and \
                it.func.attr == '_walk' and it.args:
            a = it.args[0]
            if isinstance(a, ast.Attribute) and a.attr == 'block':
                return ('block', 'block')
            if isinstance(a, ast.Name) and a.id == 'block':
                return ('block', 'block')
            return ('content', ast.unparse(a)[:30])
        return None

    # --- path enumeration
    def _block(self, stmts, env, prefix):
        """yields (events, env, terminated)"""
        states = [(list(prefix), dict(env), False)]
        for st in stmts:
            nxt = []
            for (ev, en, term) in states:
                if term:
                    nxt.append((ev, en, term))
                    continue
                nxt.extend(self._stmt(st, ev, en))
                if len(nxt) > self.max_paths:
                    raise PathLimit('too many paths in ' + self.f.qual)
            states = nxt
        return states

    def _truth(self, test, env):
        """True / False / None(unknown) of a test under env"""
        if isinstance(test, ast.Name):
            return env.get(test.id)
        if isinstance(test, ast.UnaryOp) and isinstance(test.op, ast.Not):
            t = self._truth(test.operand, env)
            return None if t is None else (not t)
        if isinstance(test, ast.Constant):
            return bool(test.value)
        return None

    def _assume(self, test, env, value):
        env = dict(env)
        if isinstance(test, ast.Name):
            env[test.id] = value
        elif isinstance(test, ast.UnaryOp) and isinstance(test.op, ast.Not) \
                and isinstance(test.operand, ast.Name):
            env[test.operand.id] = not value
        return env

    def _stmt(self, st, ev, env):
        if isinstance(st, ast.Expr):
            v = st.value
            if isinstance(v, ast.Yield):
                ife = [x for x in ast.walk(v.value)
                       if isinstance(x, ast.IfExp)] if v.value is not None \
                    else []
                if ife:
                    # a conditional inside the yielded expression (b'if' if
                    # first else b'elseif'): one path per alternative
                    from .astutil import clone
                    x = ife[0]
                    out = []
                    for val, sub in ((True, x.body), (False, x.orelse)):
                        t = self._truth(x.test, env)
                        if t is not None and t != val:
                            continue
                        en = self._assume(x.test, env, val)

                        class T(ast.NodeTransformer):
                            def visit_IfExp(self, n):
                                if ast.dump(n) == ast.dump(x):
                                    return clone(sub)
                                return self.generic_visit(n)
                        nv = T().visit(clone(v.value))
                        st2 = ast.Expr(value=ast.Yield(value=nv))
                        out.extend(self._stmt(st2, ev, en))
                    return out
                return [(ev + [self._yield_event(v.value, env)], env,
                         False)]
            if isinstance(v, ast.YieldFrom):
                w = self._walk_target(v.value)
                return [(ev + [w or ('content', 'child')], env, False)]
            if isinstance(v, ast.Constant):
                return [(ev, env, False)]
            return [(ev, env, False)]
        if isinstance(st, ast.AugAssign):
            t = st.target
            if isinstance(t, ast.Attribute) and isinstance(t.value, ast.Name) \
                    and t.value.id == 'self':
                if t.attr == '_indent' and isinstance(st.value, ast.Constant) \
                        and isinstance(st.value.value, int) and \
                        not isinstance(st.value.value, bool) and \
                        0 <= st.value.value <= 4 and \
                        isinstance(st.op, (ast.Add, ast.Sub)):
                    # a step of k is k unit steps (0: none): the balance and
                    # bracket rules then see a depth that does not return
                    one = ('inc',) if isinstance(st.op, ast.Add) else ('dec',)
                    return [(ev + [one] * st.value.value, env, False)]
                if t.attr == '_indent':
                    raise AnalysisError('indent step is not +-1 in ' +
                                        self.f.qual)
                if t.attr == '_pos':
                    return [(ev + [('pos',)], env, False)]
            return [(ev, env, False)]
        if isinstance(st, ast.Assign) and len(st.targets) == 1 and \
                isinstance(st.targets[0], ast.Name) and \
                isinstance(st.value, ast.IfExp) and \
                isinstance(const_str(st.value.body), bytes) and \
                isinstance(const_str(st.value.orelse), bytes):
            # opener = b'do' if <test> else b'then'
            out = []
            for val, sub in ((True, st.value.body), (False, st.value.orelse)):
                t = self._truth(st.value.test, env)
                if t is not None and t != val:
                    continue
                en = self._assume(st.value.test, env, val)
                en[st.targets[0].id] = const_str(sub)
                out.append((ev, en, False))
            return out
        if isinstance(st, ast.Assign):
            en = dict(env)
            for t in st.targets:
                if isinstance(t, ast.Name):
                    if isinstance(st.value, ast.Constant) and \
                            isinstance(st.value.value, bool):
                        en[t.id] = st.value.value
                    elif isinstance(const_str(st.value), bytes):
                        en[t.id] = const_str(st.value)
                    else:
                        en.pop(t.id, None)
                elif isinstance(t, ast.Attribute) and t.attr == '_indent':
                    raise AnalysisError('direct store to _indent in ' +
                                        self.f.qual)
            return [(ev, en, False)]
        if isinstance(st, ast.If):
            t = self._truth(st.test, env)
            out = []
            if t is not False:
                en_t = self._assume(st.test, env, True)
                if isinstance(st.test, ast.Compare) and \
                        isinstance(st.test.ops[0], ast.Is) and \
                        isinstance(st.test.left, ast.Name) and \
                        isinstance(st.test.comparators[0], ast.Constant) and \
                        st.test.comparators[0].value is None and \
                        st.test.left.id in env.get('__loopvars__', ()):
                    # the pair without a condition is the LAST pair
                    en_t = dict(en_t)
                    en_t['__last_iteration__'] = True
                out += self._block(st.body, en_t, ev)
            if t is not True:
                en = self._assume(st.test, env, False)
                # `if <loop var> is not None: ... else: <else part>`: the pair
                # without a condition is the LAST pair of exp_block_pairs
                # (Parser._stat appends it last) -- no iteration follows it
                if isinstance(st.test, ast.Compare) and \
                        isinstance(st.test.ops[0], ast.IsNot) and \
                        isinstance(st.test.left, ast.Name) and \
                        st.test.left.id in env.get('__loopvars__', ()):
                    en = dict(en)
                    en['__last_iteration__'] = True
                out += self._block(st.orelse, en, ev)
            return out
        if isinstance(st, ast.For):
            w = self._walk_target(st.iter)
            if w is not None:
                # `for t in self._walk(x): yield t`
                return [(ev + [w], env, False)]
            # ordinary loop: 0, 1 and 2 iterations
            lv = tuple(x.id for x in walk_own(st.target)
                       if isinstance(x, ast.Name))
            env = dict(env)
            env['__loopvars__'] = lv
            out = [(ev, env, False)]
            cur = [(ev, env, False)]
            for _ in range(2):
                nxt = []
                for (e1, en1, term) in cur:
                    if term or en1.get('__last_iteration__'):
                        continue
                    for (e2, en2, t2) in self._block(st.body, en1, e1):
                        # `continue` ends the iteration, not the handler
                        nxt.append((e2, en2, False if t2 == 'continue'
                                    else t2))
                out += nxt
                cur = nxt
            res = []
            for (e1, en1, term) in out:
                en1 = dict(en1)
                en1.pop('__last_iteration__', None)
                en1.pop('__loopvars__', None)
                res.append((e1, en1, term))
            return res
        if isinstance(st, ast.While):
            raise AnalysisError('while loop in handler ' + self.f.qual)
        if isinstance(st, ast.Return):
            return [(ev, env, True)]
        if isinstance(st, ast.Continue):
            return [(ev, env, 'continue')]
        if isinstance(st, (ast.Assert, ast.Pass)):
            return [(ev, env, False)]
        if isinstance(st, ast.Raise):
            return []
        raise AnalysisError('statement {} in handler {}'.format(
            type(st).__name__, self.f.qual))


def handler_terminals(func):
    """Constant terminals a handler may emit."""
    out = set()
    hp = HandlerPaths(func)
    for (ev, _env) in hp.paths:
        for e in ev:
            if e[0] == 'emit' and e[1] is not None:
                out.add(e[1])
    return out, hp
