"""E8 -- rule runner plumbing: instances, verdicts, findings, evidence.

Every rule produces `Instance` records.  The runner turns them into the
stdout protocol (VIOLATION / KNOWN-FINDING / ANALYSIS-ERROR lines), the exit
code and /verif/evidence/<id>.json.
"""
import json
import os
import time

VERIF = os.path.dirname(os.path.dirname(os.path.abspath(__file__)))

HOLDS = 'HOLDS'
VIOLATION = 'VIOLATION'
UNDECIDED = 'UNDECIDED'
VANISHED = 'VANISHED'
INFO = 'INFO'


class AnalysisError(Exception):
    """The analysed construct is outside what the rule models (never a
    verdict about the code: the run exits 2)."""


class Vanished(AnalysisError):
    """An anchor the rule is built on is gone."""


class Instance:
    __slots__ = ('rule', 'where', 'inst', 'verdict', 'detail', 'loc',
                 'nontrivial', 'extra')

    def __init__(self, rule, where, inst, verdict, detail='', loc='',
                 nontrivial=True, extra=None):
        self.rule = rule          # e.g. 'R-C11-order'
        self.where = where        # 'pico8.game.file:to_file'
        self.inst = inst          # semantic instance (no line numbers)
        self.verdict = verdict
        self.detail = detail
        self.loc = loc            # file:line (report only, not part of key)
        self.nontrivial = nontrivial
        self.extra = extra or {}

    @property
    def key(self):
        return '{}|{}|{}'.format(self.rule, self.where, self.inst)

    def as_json(self):
        d = {'rule': self.rule, 'where': self.where, 'instance': self.inst,
             'verdict': self.verdict, 'loc': self.loc, 'detail': self.detail}
        if self.extra:
            d['extra'] = self.extra
        return d


class Results:
    """Collector handed to rule functions."""

    def __init__(self, prop):
        self.prop = prop
        self.instances = []
        self.min_required = {}    # rule -> minimum number of instances
        self.notes = []
        self.tables = {}
        self.stats = {}

    def add(self, rule, where, inst, verdict, detail='', loc='',
            nontrivial=True, extra=None, semantic=False):
        """semantic=True: the verdict comes from whole-function abstract
        evaluation or evaluated tables and carries a witness -- it stays a
        VIOLATION even on a tree far from the reference (see churn.py)"""
        if semantic:
            extra = dict(extra or {}, semantic=True)
        i = Instance(rule, where, inst, verdict, detail, loc, nontrivial,
                     extra)
        self.instances.append(i)
        return i

    def holds(self, rule, where, inst, detail='', loc='', **kw):
        return self.add(rule, where, inst, HOLDS, detail, loc, **kw)

    def violation(self, rule, where, inst, detail='', loc='', **kw):
        return self.add(rule, where, inst, VIOLATION, detail, loc, **kw)

    def undecided(self, rule, where, inst, detail='', loc='', **kw):
        return self.add(rule, where, inst, UNDECIDED, detail, loc, **kw)

    def vanished(self, rule, where, inst, detail='', loc='', **kw):
        return self.add(rule, where, inst, VANISHED, detail, loc, **kw)

    def info(self, rule, where, inst, detail='', loc='', **kw):
        kw.setdefault('nontrivial', False)
        return self.add(rule, where, inst, INFO, detail, loc, **kw)

    def check(self, cond, rule, where, inst, ok='', bad='', loc='', **kw):
        if cond:
            return self.holds(rule, where, inst, ok, loc, **kw)
        return self.violation(rule, where, inst, bad or ok, loc, **kw)

    def require_min(self, rule, n):
        self.min_required[rule] = n

    def count(self, rule):
        return sum(1 for i in self.instances
                   if i.rule == rule and i.verdict != INFO)


def load_known_findings():
    path = os.path.join(VERIF, 'known_findings.json')
    if not os.path.exists(path):
        return []
    with open(path) as fh:
        return json.load(fh).get('findings', [])


def finish(prop, tier, res, t0, explanation, assumptions, analysed,
           level='other', extra_cov=None, write_evidence=True):
    """Print the protocol lines, write evidence, return the exit code."""
    known = [k for k in load_known_findings()
             if k.get('property') == prop and k.get('status') == 'open']
    known_keys = {k['key']: k for k in known}

    for rule, n in sorted(res.min_required.items()):
        have = res.count(rule)
        if have < n:
            res.vanished(rule, '-', 'instance-count',
                         'rule matched {} instances, hand-confirmed minimum '
                         'is {}'.format(have, n))

    # ---- trust gate: how far is the analysed tree from the reference tree?
    churn_info = None
    try:
        from . import churn as _churn
        mods = analysed.get('accessed_modules') if analysed else None
        root = analysed.get('repo') if analysed else None
        if root:
            total, per, detail = _churn.churn(
                root, mods if mods else None)
            churn_info = {'changed_statements': total, 'per_module': per,
                          'threshold': _churn.THRESHOLD,
                          'refactored': total > _churn.THRESHOLD}
            if total > _churn.THRESHOLD:
                for i in res.instances:
                    if i.verdict == VIOLATION and \
                            i.key not in known_keys and \
                            not i.extra.get('semantic'):
                        i.verdict = UNDECIDED
                        i.extra['downgraded'] = True
                        i.detail = ('the consulted modules differ from the '
                                    'reference tree by {} statements (> {}): '
                                    'this shape-based rule is not trusted to '
                                    'accuse refactored code; it reported: '
                                    .format(total, _churn.THRESHOLD)
                                    + i.detail)
    except Exception as e:       # the gate must never break a check
        churn_info = {'error': '{}: {}'.format(type(e).__name__, e)}
    if analysed is not None:
        analysed['distance_from_reference'] = churn_info
        analysed.pop('accessed_modules', None)

    n_viol = 0
    n_err = 0
    matched_known = []
    replay_dir = os.path.join(VERIF, 'evidence', 'replay')
    lines = []
    vcount = 0
    for i in res.instances:
        tag = i.verdict
        if i.verdict == VIOLATION:
            if i.key in known_keys:
                matched_known.append(i.key)
                lines.append('KNOWN-FINDING: property={} {} [{}] {}'.format(
                    prop, known_keys[i.key].get('what_fails', i.detail),
                    i.key, i.loc))
                continue
            n_viol += 1
            vcount += 1
            rp = os.path.join(replay_dir, '{}-{}.json'.format(prop, vcount))
            if write_evidence:
                os.makedirs(replay_dir, exist_ok=True)
                with open(rp, 'w') as fh:
                    json.dump({'property': prop, 'finding': i.as_json(),
                               'key': i.key}, fh, indent=1)
            lines.append('  violation: {} {} {} -- {}'.format(
                i.loc, i.rule, i.inst, i.detail))
            lines.append('VIOLATION property={} replay={}'.format(prop, rp))
        elif i.verdict in (UNDECIDED, VANISHED):
            n_err += 1
            lines.append('ANALYSIS-ERROR property={} {} {} {} {} -- {}'.format(
                prop, tag, i.loc, i.rule, i.inst, i.detail))
    # per-instance log (what was analysed)
    for i in res.instances:
        # (the word VIOLATION is reserved for the protocol line)
        label = i.verdict
        if i.verdict == VIOLATION:
            label = 'KNOWN' if i.key in known_keys else 'BROKEN'
        print('{:9s} {} {} [{}] {}'.format(
            label, i.rule, i.where, i.inst,
            (i.loc + ' ' if i.loc else '') + i.detail)[:400])
    for ln in lines:
        print(ln)

    decided = [i for i in res.instances if i.verdict != INFO]
    n_hold = sum(1 for i in decided if i.verdict == HOLDS)
    wall = time.time() - t0
    distinct_nt = len({i.key for i in decided if i.nontrivial})
    samples = []
    seen_rules = set()
    for i in decided:
        if i.rule not in seen_rules or i.verdict != HOLDS:
            seen_rules.add(i.rule)
            samples.append(i.as_json())
        if len(samples) >= 40:
            break
    rules = {}
    for i in decided:
        r = rules.setdefault(i.rule, {'instances': 0, 'holds': 0})
        r['instances'] += 1
        r['holds'] += int(i.verdict == HOLDS)
    cov = {
        'explanation': explanation,
        'obligations': len(decided),
        'discharged': n_hold,
        'evaluations': max(len(decided), 1),
        'distinct_nontrivial': distinct_nt,
        'rule': 'one evaluation = one rule instance (a construct of /repo '
                'checked against one static rule); non-trivial = its verdict '
                'depended on analysing a non-constant construct of the '
                'source; distinct = distinct finding key',
        'samples': samples,
        'rules': rules,
        'analysed': analysed,
        'known_findings_matched': matched_known,
        'notes': res.notes,
        'trusted_base': assumptions,
        'exhaustive': False,
    }
    if extra_cov:
        cov.update(extra_cov)
    ev = {
        'property_id': prop,
        'tier': tier,
        'seed': int(os.environ.get('VERIF_SEED', '0') or 0),
        'level': level,
        'coverage': cov,
        'assumptions': assumptions,
        'wall_s': round(wall, 3),
        'violations': n_viol,
    }
    if write_evidence:
        os.makedirs(os.path.join(VERIF, 'evidence'), exist_ok=True)
        with open(os.path.join(VERIF, 'evidence', prop + '.json'), 'w') as fh:
            json.dump(ev, fh, indent=1, sort_keys=True)
            fh.write('\n')
    print('SUMMARY property={} tier={} instances={} hold={} violations={} '
          'known={} analysis_errors={} wall={:.2f}s'.format(
              prop, tier, len(decided), n_hold, n_viol, len(matched_known),
              n_err, wall))
    if n_viol:
        return 1
    if n_err:
        return 2
    return 0
