"""Small integer-arithmetic evaluator over `ast` expressions with symbols
bound to integers.  Used to evaluate EXTRACTED index / slice-bound
expressions at the representative points of the cells of a piecewise-affine
arrangement (E4, C18) -- no repository function is called and no cart data is
involved; only addresses and lengths are interpreted.
"""
import ast

from ..core import AnalysisError


class Skip(Exception):
    """the analysed loop body executed `continue`"""


def ev(e, env):
    if isinstance(e, ast.Constant) and isinstance(e.value, (int, bool)):
        return e.value
    if isinstance(e, ast.Name):
        if e.id in env:
            return env[e.id]
        raise AnalysisError('unbound name ' + e.id)
    if isinstance(e, ast.Call) and isinstance(e.func, ast.Name):
        if e.func.id == 'len' and len(e.args) == 1:
            k = 'len(' + ast.unparse(e.args[0]) + ')'
            if k in env:
                return env[k]
        if e.func.id in ('max', 'min') and e.args:
            vals = [ev(a, env) for a in e.args]
            return max(vals) if e.func.id == 'max' else min(vals)
        if e.func.id == 'abs' and len(e.args) == 1:
            return abs(ev(e.args[0], env))
        raise AnalysisError('call outside the arithmetic model: ' +
                            ast.unparse(e)[:50])
    if isinstance(e, ast.UnaryOp):
        v = ev(e.operand, env)
        if isinstance(e.op, ast.USub):
            return -v
        if isinstance(e.op, ast.UAdd):
            return +v
        if isinstance(e.op, ast.Not):
            return not v
        if isinstance(e.op, ast.Invert):
            return ~v
    if isinstance(e, ast.BinOp):
        a, b = ev(e.left, env), ev(e.right, env)
        op = e.op
        if isinstance(op, ast.Add):
            return a + b
        if isinstance(op, ast.Sub):
            return a - b
        if isinstance(op, ast.Mult):
            return a * b
        if isinstance(op, ast.FloorDiv):
            return a // b
        if isinstance(op, ast.Mod):
            return a % b
        if isinstance(op, ast.LShift):
            return a << b
        if isinstance(op, ast.RShift):
            return a >> b
        if isinstance(op, ast.BitAnd):
            return a & b
        if isinstance(op, ast.BitOr):
            return a | b
    if isinstance(e, ast.Compare):
        left = ev(e.left, env)
        for op, c in zip(e.ops, e.comparators):
            right = ev(c, env)
            r = {ast.Lt: left < right, ast.LtE: left <= right,
                 ast.Gt: left > right, ast.GtE: left >= right,
                 ast.Eq: left == right, ast.NotEq: left != right}.get(type(op))
            if r is None:
                raise AnalysisError('comparison outside the model')
            if not r:
                return False
            left = right
        return True
    if isinstance(e, ast.BoolOp):
        vals = [ev(v, env) for v in e.values]
        return all(vals) if isinstance(e.op, ast.And) else any(vals)
    if isinstance(e, ast.IfExp):
        return ev(e.body if ev(e.test, env) else e.orelse, env)
    k = ast.unparse(e)
    if k in env:
        return env[k]
    raise AnalysisError('expression outside the arithmetic model: ' + k[:60])


def norm_slice(lo, hi, n):
    """Python slice [lo:hi] on a sequence of length n -> (start, stop)."""
    def clamp(v, default):
        if v is None:
            return default
        if v < 0:
            v += n
            if v < 0:
                v = 0
        if v > n:
            v = n
        return v
    a = clamp(lo, 0)
    b = clamp(hi, n)
    if b < a:
        b = a
    return a, b
