"""Evaluator of EXTRACTED byte-string expressions (count / find / rfind /
len / slices / comparisons / conditional expressions) on synthetic strings
written here -- used to refute or confirm that an extracted bookkeeping
expression equals its specification on every short string over a small
alphabet.  No repository function is called; unknown constructs abort."""
import ast

from ..core import AnalysisError


def ev(e, env):
    if isinstance(e, ast.Constant):
        return e.value
    k = ast.unparse(e)
    if k in env:
        return env[k]
    if isinstance(e, ast.Name):
        raise AnalysisError('unbound name ' + e.id)
    if isinstance(e, ast.IfExp):
        return ev(e.body if ev(e.test, env) else e.orelse, env)
    if isinstance(e, ast.UnaryOp):
        v = ev(e.operand, env)
        if isinstance(e.op, ast.Not):
            return not v
        if isinstance(e.op, ast.USub):
            return -v
    if isinstance(e, ast.BoolOp):
        v = None
        for x in e.values:
            v = ev(x, env)
            if isinstance(e.op, ast.And) and not v:
                return v
            if isinstance(e.op, ast.Or) and v:
                return v
        return v
    if isinstance(e, ast.BinOp):
        a, b = ev(e.left, env), ev(e.right, env)
        if isinstance(e.op, ast.Add):
            return a + b
        if isinstance(e.op, ast.Sub):
            return a - b
        if isinstance(e.op, ast.Mult):
            return a * b
    if isinstance(e, ast.Compare):
        left = ev(e.left, env)
        for op, c in zip(e.ops, e.comparators):
            right = ev(c, env)
            r = {ast.Lt: lambda: left < right, ast.LtE: lambda: left <= right,
                 ast.Gt: lambda: left > right, ast.GtE: lambda: left >= right,
                 ast.Eq: lambda: left == right,
                 ast.NotEq: lambda: left != right,
                 ast.In: lambda: left in right,
                 ast.NotIn: lambda: left not in right}.get(type(op))
            if r is None:
                raise AnalysisError('comparison outside the model')
            if not r():
                return False
            left = right
        return True
    if isinstance(e, ast.Subscript):
        base = ev(e.value, env)
        if isinstance(e.slice, ast.Slice):
            lo = ev(e.slice.lower, env) if e.slice.lower is not None else None
            hi = ev(e.slice.upper, env) if e.slice.upper is not None else None
            return base[lo:hi]
        return base[ev(e.slice, env)]
    if isinstance(e, ast.Call):
        if isinstance(e.func, ast.Name) and e.func.id == 'len' and \
                len(e.args) == 1:
            return len(ev(e.args[0], env))
        if isinstance(e.func, ast.Name) and e.func.id in ('min', 'max'):
            vals = [ev(a, env) for a in e.args]
            return min(vals) if e.func.id == 'min' else max(vals)
        if isinstance(e.func, ast.Attribute) and e.func.attr in (
                'count', 'find', 'rfind', 'index', 'rindex', 'startswith',
                'endswith'):
            base = ev(e.func.value, env)
            if not isinstance(base, bytes):
                raise AnalysisError('method on a non-bytes value')
            args = [ev(a, env) for a in e.args]
            try:
                return getattr(base, e.func.attr)(*args)
            except ValueError:
                raise AnalysisError('index() of an absent value')
    raise AnalysisError('expression outside the bytes model: ' + k[:60])
