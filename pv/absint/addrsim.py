"""Interpreter of address-arithmetic functions over the integers (E4, used by
C18 for Game.write_cart_data).

Only addresses and lengths are interpreted: the data parameter is a symbol
with a length, region arrays are symbols with a name, slice stores are
recorded by their bounds.  Values are ints, tuples / lists of values, the data
(or a slice of it, by its raw bounds) and region arrays.  Package helper
functions that only do such arithmetic are inlined.  Anything else aborts the
analysis.  The caller evaluates the function at representative points of a
piecewise-affine arrangement, so `*`, `//`, `%` and bit operators on
addresses are refused (they would break the affinity argument).
"""
import ast

from . import arith
from ..consteval import UNKNOWN
from ..core import AnalysisError


def _u(node, n=60):
    return ast.unparse(node)[:n]


class Stop(Exception):
    def __init__(self, kind, value=None):
        self.kind = kind
        self.value = value


class Data:
    """the data parameter; only its length matters"""


class SelfRef:
    pass


class Region:
    def __init__(self, name):
        self.name = name


class DataSlice:
    def __init__(self, lo, hi):
        self.lo, self.hi = lo, hi


class Sim:
    def __init__(self, ctx, f, data_param, addr_param):
        self.ctx = ctx
        self.f = f
        self.model = ctx.model
        self.data = data_param
        self.addr = addr_param
        self.row_tables = []
        self.depth = 0

    def run(self, s, L):
        """-> (outcome, [(region, dlo, dhi, slo, shi)]); outcome 'ok' or
        'raise'; slice bounds raw (None = omitted)"""
        self.L = L
        self.stores = []
        env = {self.f.params()[0]: SelfRef(), self.addr: s,
               self.data: Data()}
        try:
            self.block(self.f.node.body, env, self.f)
        except Stop as ex:
            if ex.kind == 'raise':
                return 'raise', self.stores
            if ex.kind in ('continue', 'break'):
                raise AnalysisError('continue/break outside a loop')
        return 'ok', self.stores

    # ---- expressions ------------------------------------------------------
    def ev(self, e, env, f):
        if isinstance(e, ast.Constant):
            return e.value
        if isinstance(e, ast.Name):
            if e.id in env:
                return env[e.id]
            r = self.model.resolve_name(f.module, e.id)
            if r and r[0] == 'const':
                v = self.ctx.consts.module_const(r[1].name, r[2])
                if v is not UNKNOWN:
                    return v
            if r and r[0] in ('func', 'class'):
                return r
            raise AnalysisError('unbound name ' + e.id)
        if isinstance(e, (ast.Tuple, ast.List)):
            vals = [self.ev(x, env, f) for x in e.elts]
            return tuple(vals) if isinstance(e, ast.Tuple) else vals
        if isinstance(e, ast.Attribute):
            base = self.ev(e.value, env, f)
            if isinstance(base, SelfRef):
                c = f.cls or self.f.cls
                v = UNKNOWN
                try:
                    v = self.ctx.consts.class_const(c, e.attr)
                except Exception:
                    pass
                if v is not UNKNOWN and isinstance(v, (int, tuple, list)):
                    return v
                m = self.model.lookup_method(c, e.attr) if c else None
                if m is not None:
                    return ('func', m, base)
                return Region(e.attr)
            if isinstance(base, Region) and e.attr == '_data':
                return base
            if isinstance(base, tuple) and base and base[0] == 'class':
                m = self.model.lookup_method(base[1], e.attr)
                if m is not None:
                    return ('func', m, None)
                v = self.ctx.consts.class_const(base[1], e.attr)
                if v is not UNKNOWN:
                    return v
            raise AnalysisError('attribute outside the model: ' + _u(e, 50))
        if isinstance(e, ast.Subscript):
            base = self.ev(e.value, env, f)
            if isinstance(e.slice, ast.Slice):
                if e.slice.step is not None:
                    raise AnalysisError('slice with a step')
                lo = self.ev(e.slice.lower, env, f) \
                    if e.slice.lower is not None else None
                hi = self.ev(e.slice.upper, env, f) \
                    if e.slice.upper is not None else None
                if isinstance(base, Data):
                    return DataSlice(lo, hi)
                if isinstance(base, (tuple, list)):
                    return base[lo:hi]
                raise AnalysisError('slice of ' + _u(e.value, 40))
            k = self.ev(e.slice, env, f)
            if isinstance(base, (tuple, list)) and isinstance(k, int):
                return base[k]
            if isinstance(base, dict):
                return base[k]
            raise AnalysisError('subscript outside the model: ' + _u(e, 50))
        if isinstance(e, ast.Call):
            return self.call(e, env, f)
        if isinstance(e, ast.UnaryOp):
            v = self.ev(e.operand, env, f)
            if isinstance(e.op, ast.Not):
                return not self.truth(v)
            v = self.int_(v, e)
            if isinstance(e.op, ast.USub):
                return -v
            if isinstance(e.op, ast.UAdd):
                return +v
            raise AnalysisError('operator outside the affine model: ' +
                                _u(e, 50))
        if isinstance(e, ast.BoolOp):
            v = None
            for x in e.values:
                v = self.ev(x, env, f)
                t = self.truth(v)
                if isinstance(e.op, ast.And) and not t:
                    return v
                if isinstance(e.op, ast.Or) and t:
                    return v
            return v
        if isinstance(e, ast.IfExp):
            return self.ev(e.body if self.truth(self.ev(e.test, env, f))
                           else e.orelse, env, f)
        if isinstance(e, ast.Compare):
            left = self.ev(e.left, env, f)
            for op, c in zip(e.ops, e.comparators):
                right = self.ev(c, env, f)
                if isinstance(op, (ast.Is, ast.IsNot)):
                    r = left is right
                    r = r if isinstance(op, ast.Is) else not r
                else:
                    a, b = self.int_(left, e), self.int_(right, e)
                    r = {ast.Lt: a < b, ast.LtE: a <= b, ast.Gt: a > b,
                         ast.GtE: a >= b, ast.Eq: a == b,
                         ast.NotEq: a != b}.get(type(op))
                    if r is None:
                        raise AnalysisError('comparison outside the model')
                if not r:
                    return False
                left = right
            return True
        if isinstance(e, ast.BinOp):
            a = self.int_(self.ev(e.left, env, f), e)
            b = self.int_(self.ev(e.right, env, f), e)
            if isinstance(e.op, ast.Add):
                return a + b
            if isinstance(e.op, ast.Sub):
                return a - b
            raise AnalysisError('operator outside the affine model: ' +
                                _u(e, 50))
        if isinstance(e, (ast.ListComp, ast.GeneratorExp)) and \
                len(e.generators) == 1 and not e.generators[0].ifs:
            g = e.generators[0]
            seq = self.ev(g.iter, env, f)
            if not isinstance(seq, (tuple, list)):
                raise AnalysisError('comprehension over a non-constant')
            out = []
            for item in seq:
                e2 = dict(env)
                self.bind(g.target, item, e2)
                out.append(self.ev(e.elt, e2, f))
            return out
        raise AnalysisError('expression outside the model: ' + _u(e))

    def int_(self, v, node):
        if isinstance(v, bool):
            return int(v)
        if isinstance(v, int):
            return v
        raise AnalysisError('non-integer in address arithmetic: ' +
                            _u(node, 50))

    def truth(self, v):
        if isinstance(v, Data):
            return self.L != 0
        if isinstance(v, DataSlice):
            a, b = arith.norm_slice(v.lo, v.hi, self.L)
            return b > a
        if isinstance(v, (Region, SelfRef)):
            return True
        return bool(v)

    def call(self, e, env, f):
        fn = e.func
        if isinstance(fn, ast.Name) and fn.id not in env:
            if fn.id == 'len' and len(e.args) == 1:
                v = self.ev(e.args[0], env, f)
                if isinstance(v, Data):
                    return self.L
                if isinstance(v, DataSlice):
                    a, b = arith.norm_slice(v.lo, v.hi, self.L)
                    return b - a
                if isinstance(v, (tuple, list)):
                    return len(v)
                raise AnalysisError('len of ' + _u(e.args[0], 40))
            if fn.id in ('max', 'min') and e.args:
                vals = [self.int_(self.ev(a, env, f), e) for a in e.args]
                return max(vals) if fn.id == 'max' else min(vals)
            if fn.id == 'getattr' and len(e.args) == 2:
                o = self.ev(e.args[0], env, f)
                n = self.ev(e.args[1], env, f)
                if isinstance(o, SelfRef) and isinstance(n, str):
                    return Region(n)
            if fn.id in ('tuple', 'list') and len(e.args) == 1:
                v = self.ev(e.args[0], env, f)
                if isinstance(v, (tuple, list)):
                    return tuple(v) if fn.id == 'tuple' else list(v)
            if fn.id in ('bytes', 'bytearray', 'memoryview') and \
                    len(e.args) == 1:
                v = self.ev(e.args[0], env, f)
                if isinstance(v, (Data, DataSlice)):
                    return v
            if fn.id == 'enumerate' and len(e.args) == 1:
                v = self.ev(e.args[0], env, f)
                if isinstance(v, (tuple, list)):
                    return [(i, x) for i, x in enumerate(v)]
            if fn.id == 'zip':
                vs = [self.ev(a, env, f) for a in e.args]
                if all(isinstance(v, (tuple, list)) for v in vs):
                    return [tuple(t) for t in zip(*vs)]
            if fn.id == 'range':
                vs = [self.int_(self.ev(a, env, f), e) for a in e.args]
                r = range(*vs)
                if len(r) > 64:
                    raise AnalysisError('long range in address code')
                return list(r)
        if isinstance(fn, ast.Attribute) and fn.attr == 'format':
            return ''                       # error message text
        target = self.ev(fn, env, f)
        if isinstance(target, tuple) and target and target[0] == 'func':
            recv = target[2] if len(target) > 2 else None
            return self.inline(target[1], recv, e, env, f)
        raise AnalysisError('call outside the model: ' + _u(e))

    def inline(self, callee, recv, call, env, f):
        self.depth += 1
        if self.depth > 4:
            raise AnalysisError('inline depth')
        try:
            a = callee.node.args
            names = [x.arg for x in a.args]
            static = any(ast.unparse(d) == 'staticmethod'
                         for d in callee.node.decorator_list)
            new = {}
            if callee.cls is not None and not static:
                new[names[0]] = recv if recv is not None else SelfRef()
                names = names[1:]
            defaults = dict(zip(names[len(names) - len(a.defaults):],
                                a.defaults))
            for i, arg in enumerate(call.args):
                if i >= len(names):
                    raise AnalysisError('too many arguments')
                new[names[i]] = self.ev(arg, env, f)
            for k in call.keywords:
                new[k.arg] = self.ev(k.value, env, f)
            for n in names:
                if n not in new:
                    if n not in defaults:
                        raise AnalysisError('missing argument ' + n)
                    new[n] = self.ev(defaults[n], {}, callee)
            try:
                self.block(callee.node.body, new, callee)
            except Stop as ex:
                if ex.kind == 'return':
                    return ex.value
                raise
            return None
        finally:
            self.depth -= 1

    # ---- statements --------------------------------------------------------
    def bind(self, t, v, env):
        if isinstance(t, ast.Name):
            env[t.id] = v
        elif isinstance(t, (ast.Tuple, ast.List)):
            if not isinstance(v, (tuple, list)) or len(v) != len(t.elts):
                raise AnalysisError('unpacking shape')
            for x, y in zip(t.elts, v):
                self.bind(x, y, env)
        else:
            raise AnalysisError('assignment target ' + _u(t, 40))

    def store(self, t, v, env, f):
        reg = self.ev(t.value, env, f)
        if not isinstance(reg, Region):
            raise AnalysisError('store into ' + _u(t.value, 40))
        if not isinstance(t.slice, ast.Slice) or t.slice.step is not None:
            raise AnalysisError('store is not a plain slice store')
        dlo = self.ev(t.slice.lower, env, f) if t.slice.lower is not None \
            else None
        dhi = self.ev(t.slice.upper, env, f) if t.slice.upper is not None \
            else None
        if isinstance(v, Data):
            slo = shi = None
        elif isinstance(v, DataSlice):
            slo, shi = v.lo, v.hi
        else:
            raise AnalysisError('stored value is not (a slice of) the data')
        self.stores.append((reg.name, dlo, dhi, slo, shi))

    def block(self, stmts, env, f):
        for st in stmts:
            if isinstance(st, ast.Expr) and isinstance(st.value, ast.Constant):
                continue
            if isinstance(st, ast.Pass):
                continue
            if isinstance(st, ast.If):
                self.block(st.body if self.truth(self.ev(st.test, env, f))
                           else st.orelse, env, f)
                continue
            if isinstance(st, ast.Raise):
                raise Stop('raise')
            if isinstance(st, ast.Return):
                raise Stop('return', self.ev(st.value, env, f)
                           if st.value is not None else None)
            if isinstance(st, ast.Continue):
                raise Stop('continue')
            if isinstance(st, ast.Break):
                raise Stop('break')
            if isinstance(st, ast.Assert):
                if not self.truth(self.ev(st.test, env, f)):
                    raise Stop('raise')
                continue
            if isinstance(st, ast.Assign) and len(st.targets) == 1:
                t = st.targets[0]
                v = self.ev(st.value, env, f)
                if isinstance(t, ast.Subscript):
                    self.store(t, v, env, f)
                else:
                    self.bind(t, v, env)
                continue
            if isinstance(st, ast.AugAssign) and \
                    isinstance(st.target, ast.Name) and \
                    isinstance(st.op, (ast.Add, ast.Sub)):
                a = self.int_(env.get(st.target.id), st)
                b = self.int_(self.ev(st.value, env, f), st)
                env[st.target.id] = a + b if isinstance(st.op, ast.Add) \
                    else a - b
                continue
            if isinstance(st, ast.For) and not st.orelse:
                seq = self.ev(st.iter, env, f)
                if not isinstance(seq, (tuple, list)):
                    raise AnalysisError('loop over a non-constant: ' +
                                        _u(st.iter, 40))
                if seq and all(isinstance(r, tuple) and len(r) == 3 and
                               isinstance(r[0], int) and
                               isinstance(r[1], int) and
                               isinstance(r[2], Region) for r in seq):
                    rows = [(r[0], r[1], r[2].name) for r in seq]
                    if rows not in self.row_tables:
                        self.row_tables.append(rows)
                for item in seq:
                    self.bind(st.target, item, env)
                    try:
                        self.block(st.body, env, f)
                    except Stop as ex:
                        if ex.kind == 'continue':
                            continue
                        if ex.kind == 'break':
                            break
                        raise
                continue
            if isinstance(st, ast.Expr) and isinstance(st.value, ast.Call):
                self.ev(st.value, env, f)
                continue
            raise AnalysisError('statement outside the model: ' + _u(st))
