"""E4/E5 -- bit-provenance and affine-index abstract evaluator.

Evaluates accessor / codec functions of /repo over an abstract domain:

  Aff   affine integer expressions over named symbols (index arithmetic),
        symbols carry interval ranges (from asserts and documented ranges);
  BV    bit vectors whose cells are 0, 1 or boolean functions (truth tables)
        of at most four source bits -- "bit k of memory byte M", "bit k of
        parameter p", "bit k of hex digit d";
  sequences of those (tuples, byte lists, hex-digit strings).

Paths through `if`s are enumerated (no solver: a test is decided by the
domain, or both branches are followed with the assumption recorded).
Effects (array stores) and results are returned per path.  Anything outside
the modelled subset raises AnalysisError (exit 2), never a guess.
"""
import ast

from ..astutil import clone
import itertools

from ..core import AnalysisError
from ..srcmodel import walk_own, const_str

MAXV = 6


# ----------------------------------------------------------------- cells ---

class Cell:
    """boolean function of a few source bits: (vars tuple, truth table int)"""
    __slots__ = ('vars', 'table')

    def __init__(self, vars_=(), table=0):
        self.vars = tuple(vars_)
        self.table = table

    def __eq__(self, o):
        return isinstance(o, Cell) and self.vars == o.vars and \
            self.table == o.table

    def __hash__(self):
        return hash((self.vars, self.table))

    def is_const(self):
        return not self.vars

    def const(self):
        return self.table & 1 if not self.vars else None

    def __repr__(self):
        if not self.vars:
            return str(self.table & 1)
        if len(self.vars) == 1 and self.table == 0b10:
            return _atom_str(self.vars[0])
        if len(self.vars) == 1 and self.table == 0b01:
            return '~' + _atom_str(self.vars[0])
        return 'f{}[{:b}]'.format([_atom_str(v) for v in self.vars],
                                  self.table)


def _atom_str(a):
    return '{}.{}'.format(a[0], a[1])


ZERO = Cell((), 0)
ONE = Cell((), 1)
TOP = None


def atom(src, k):
    return Cell(((src, k),), 0b10)


_COMBINE_CACHE = {}


def _combine(a, b, fn, tag=None):
    if a is TOP or b is TOP:
        return TOP
    if a.vars == b.vars:
        vs = a.vars
    else:
        vs = tuple(sorted(set(a.vars) | set(b.vars), key=repr))
    if len(vs) > MAXV:
        return TOP
    key = None
    if tag is not None:
        key = (tag, tuple(vs.index(v) for v in a.vars), a.table,
               tuple(vs.index(v) for v in b.vars), b.table, len(vs))
        hit = _COMBINE_CACHE.get(key)
        if hit is not None:
            return Cell(tuple(vs[i] for i in hit[0]), hit[1])
    table = 0
    for i in range(1 << len(vs)):
        env = {v: (i >> j) & 1 for j, v in enumerate(vs)}
        av = _eval(a, env)
        bv = _eval(b, env)
        if fn(av, bv):
            table |= 1 << i
    r = _simplify(Cell(vs, table))
    if key is not None:
        _COMBINE_CACHE[key] = (tuple(vs.index(v) for v in r.vars), r.table)
    return r


def _eval(c, env):
    idx = 0
    for j, v in enumerate(c.vars):
        idx |= env[v] << j
    return (c.table >> idx) & 1


def _simplify(c):
    vs = list(c.vars)
    table = c.table
    changed = True
    while changed:
        changed = False
        for j in range(len(vs)):
            dep = False
            for i in range(1 << len(vs)):
                if ((table >> i) & 1) != ((table >> (i ^ (1 << j))) & 1):
                    dep = True
                    break
            if not dep:
                nt = 0
                k = 0
                for i in range(1 << len(vs)):
                    if not (i >> j) & 1:
                        if (table >> i) & 1:
                            nt |= 1 << k
                        k += 1
                table = nt
                del vs[j]
                changed = True
                break
    return Cell(tuple(vs), table)


def c_and(a, b):
    if a == ZERO or b == ZERO:
        return ZERO
    if a == ONE and b is not TOP:
        return b
    if b == ONE and a is not TOP:
        return a
    return _combine(a, b, lambda x, y: x & y, 'and')


def c_or(a, b):
    if a == ONE or b == ONE:
        return ONE
    if a == ZERO and b is not TOP:
        return b
    if b == ZERO and a is not TOP:
        return a
    return _combine(a, b, lambda x, y: x | y, 'or')


def c_xor(a, b):
    return _combine(a, b, lambda x, y: x ^ y, 'xor')


def c_not(a):
    if a is TOP:
        return TOP
    return _simplify(Cell(a.vars, ~a.table & ((1 << (1 << len(a.vars))) - 1)))


def c_ite(c, a, b):
    return c_or(c_and(c, a), c_and(c_not(c), b))


# -------------------------------------------------------------------- BV ---

class BV:
    def __init__(self, cells):
        self.cells = list(cells)

    @staticmethod
    def const(v, width=None):
        if v < 0:
            raise AnalysisError('negative constant in bit context')
        w = max(v.bit_length(), 1) if width is None else width
        return BV([ONE if (v >> i) & 1 else ZERO for i in range(w)])

    @staticmethod
    def source(name, width):
        return BV([atom(name, k) for k in range(width)])

    def cell(self, k):
        return self.cells[k] if k < len(self.cells) else ZERO

    @property
    def width(self):
        w = len(self.cells)
        while w > 0 and self.cells[w - 1] == ZERO:
            w -= 1
        return w

    def trimmed(self):
        return BV(self.cells[:max(self.width, 1)])

    def bitop(self, o, fn):
        n = max(len(self.cells), len(o.cells))
        return BV([fn(self.cell(i), o.cell(i)) for i in range(n)]).trimmed()

    def __and__(self, o):
        return self.bitop(o, c_and)

    def __or__(self, o):
        return self.bitop(o, c_or)

    def __xor__(self, o):
        return self.bitop(o, c_xor)

    def shl(self, n):
        return BV([ZERO] * n + self.cells).trimmed()

    def shr(self, n):
        return BV(self.cells[n:] or [ZERO]).trimmed()

    def invert_masked(self, mask):
        """(~self) & mask"""
        w = mask.bit_length()
        return BV([c_not(self.cell(i)) if (mask >> i) & 1 else ZERO
                   for i in range(w)]).trimmed()

    def add(self, o):
        n = max(len(self.cells), len(o.cells))
        out = []
        for i in range(n):
            a, b = self.cell(i), o.cell(i)
            if a == ZERO:
                out.append(b)
            elif b == ZERO:
                out.append(a)
            else:
                raise AnalysisError('addition of overlapping bit fields')
        return BV(out).trimmed()

    def as_const(self):
        v = 0
        for i, c in enumerate(self.cells):
            if c is TOP or not c.is_const():
                return None
            v |= c.const() << i
        return v

    def any_set(self):
        r = ZERO
        for c in self.cells:
            r = c_or(r, c)
        return r

    def __eq__(self, o):
        if not isinstance(o, BV):
            return False
        n = max(len(self.cells), len(o.cells))
        return all(self.cell(i) == o.cell(i) for i in range(n))

    def __repr__(self):
        return 'BV[' + ' '.join(repr(c) for c in reversed(
            self.trimmed().cells)) + ']'

    def sources(self):
        """{bit index: atom} for cells that are exactly one source bit"""
        out = {}
        for i, c in enumerate(self.cells):
            if c is not TOP and len(c.vars) == 1 and c.table == 0b10:
                out[i] = c.vars[0]
        return out


# ------------------------------------------------------------------- Aff ---

class Aff:
    def __init__(self, coeffs=None, const=0):
        self.coeffs = {k: v for k, v in (coeffs or {}).items() if v}
        self.const = const

    @staticmethod
    def sym(name):
        return Aff({name: 1}, 0)

    def is_const(self):
        return not self.coeffs

    def __add__(self, o):
        c = dict(self.coeffs)
        for k, v in o.coeffs.items():
            c[k] = c.get(k, 0) + v
        return Aff(c, self.const + o.const)

    def __neg__(self):
        return Aff({k: -v for k, v in self.coeffs.items()}, -self.const)

    def __sub__(self, o):
        return self + (-o)

    def scale(self, k):
        return Aff({s: v * k for s, v in self.coeffs.items()}, self.const * k)

    def key(self):
        return (tuple(sorted(self.coeffs.items())), self.const)

    def __eq__(self, o):
        return isinstance(o, Aff) and self.key() == o.key()

    def __hash__(self):
        return hash(self.key())

    def __repr__(self):
        parts = ['{}*{}'.format(v, k) if v != 1 else str(k)
                 for k, v in sorted(self.coeffs.items())]
        if self.const or not parts:
            parts.append(str(self.const))
        return ' + '.join(parts)

    def bounds(self, ranges):
        lo = hi = self.const
        for k, v in self.coeffs.items():
            r = ranges.get(k)
            if r is None:
                return None, None
            a, b = r
            if v > 0:
                lo = None if (lo is None or a is None) else lo + v * a
                hi = None if (hi is None or b is None) else hi + v * b
            else:
                lo = None if (lo is None or b is None) else lo + v * b
                hi = None if (hi is None or a is None) else hi + v * a
        return lo, hi


class NoneVal:
    def __repr__(self):
        return 'None'


NONE = NoneVal()


class HexText:
    """text of hexadecimal digits; each digit a 4-bit BV (high digit first)"""

    def __init__(self, digits):
        self.digits = list(digits)

    def __add__(self, o):
        return HexText(self.digits + o.digits)


class SymLine:
    """a symbolic text line whose byte at position p is an unknown hex digit
    ('d', repr(p))"""

    def __init__(self, name, length=None):
        self.name = name
        self.length = length

    def all_digits(self):
        if self.length is None:
            raise AnalysisError('symbolic line of unknown length')
        return HexText([self.digit(Aff({}, k)) for k in range(self.length)])

    def digit(self, pos):
        if not isinstance(pos, Aff):
            pos = Aff({}, pos)
        return BV.source(('digit', self.name, pos.key()), 4)


class Text:
    """opaque text made of labelled pieces (for line-shape checks)"""

    def __init__(self, parts):
        self.parts = list(parts)

    def __add__(self, o):
        return Text(self.parts + o.parts)


class Path:
    def __init__(self, ranges=None):
        self.ranges = dict(ranges or {})
        self.constraints = {}
        self.assume = []
        self.stores = []       # (array key, Aff index, BV value, node)
        self.ret = None
        self.raised = False
        self.yields = []
        self.flow = None       # 'continue' / 'break' inside an unrolled loop

    def clone(self):
        p = Path(self.ranges)
        p.constraints = dict(self.constraints)
        p.assume = list(self.assume)
        p.stores = list(self.stores)
        p.ret = self.ret
        p.raised = self.raised
        p.yields = list(self.yields)
        p.flow = self.flow
        p.last_cond = getattr(self, 'last_cond', None)
        return p


class _Return(Exception):
    def __init__(self, v):
        self.v = v


class Evaluator:
    def __init__(self, model, consts, func, ranges=None, mem_width=8):
        self.model = model
        self.consts = consts
        self.f = func
        self.init_ranges = dict(ranges or {})
        self.cur = Path(self.init_ranges)
        self.mem_width = mem_width
        self.depth = 0
        self.hooks = {}

    # ranges / constraints live in the current path
    @property
    def ranges(self):
        return self.cur.ranges

    @ranges.setter
    def ranges(self, v):
        self.cur.ranges = v

    @property
    def constraints(self):
        return self.cur.constraints

    @constraints.setter
    def constraints(self, v):
        self.cur.constraints = v

    # ---- memory ------------------------------------------------------------
    def array_key(self, e):
        """canonical name of a byte array expression"""
        t = ast.unparse(e)
        return t

    def load(self, arr, idx, path):
        # read-after-write within the same path
        for (a, i, v, _n) in reversed(path.stores):
            if a == arr and i == idx:
                return v
            if a == arr and not self.distinct(i, idx):
                raise AnalysisError('load may alias an earlier store')
        return BV.source(('mem', arr, idx.key()), self.mem_width)

    def distinct(self, i, j):
        d = i - j
        lo, hi = self.bounds(d)
        if d.is_const():
            return d.const != 0
        return (lo is not None and lo > 0) or (hi is not None and hi < 0)

    # ---- expressions --------------------------------------------------------
    def to_bv(self, v):
        if isinstance(v, BV):
            return v
        if isinstance(v, bool):
            return BV([ONE if v else ZERO])
        if isinstance(v, int):
            return BV.const(v)
        if isinstance(v, Aff):
            if v.is_const():
                return BV.const(v.const)
            if len(v.coeffs) == 1 and v.const == 0:
                (s, c), = v.coeffs.items()
                r = self.ranges.get(s)
                if c == 1 and r and r[0] is not None and r[0] >= 0 and \
                        r[1] is not None:
                    return BV.source(('sym', s), max(r[1].bit_length(), 1))
            lo, hi = v.bounds(self.ranges)
            if lo is not None and hi is not None and lo >= 0:
                return BV.source(('expr', repr(v)), max(hi.bit_length(), 1))
            raise AnalysisError('no bit view of ' + repr(v))
        raise AnalysisError('no bit view of {!r}'.format(v))

    def to_aff(self, v):
        if isinstance(v, Aff):
            return v
        if isinstance(v, bool):
            return Aff({}, int(v))
        if isinstance(v, int):
            return Aff({}, v)
        if isinstance(v, BV):
            c = v.as_const()
            if c is not None:
                return Aff({}, c)
        raise AnalysisError('no affine view of {!r}'.format(v))

    def ev(self, e, env, path):
        self.cur = path
        if isinstance(e, ast.Constant):
            if e.value is None:
                return NONE
            if isinstance(e.value, (bool, int)):
                return e.value
            return e.value
        if isinstance(e, ast.Name):
            if e.id in env:
                return env[e.id]
            r = self.model.resolve_name(self.f.module, e.id)
            if r and r[0] == 'const':
                v = self.consts.module_const(r[1].name, r[2])
                if isinstance(v, int):
                    return v
            raise AnalysisError('unbound name ' + e.id)
        if isinstance(e, ast.Attribute) and e.attr == '_data':
            return ArrRef(self.array_key(e))
        if isinstance(e, ast.Attribute):
            # class / module constants
            try:
                v = self.consts.eval_expr(self.f.module, e,
                                          {'self': None, 'cls': None})
            except Exception:
                v = None
            if isinstance(v, int):
                return v
            if isinstance(e.value, ast.Name) and e.value.id in ('self', 'cls') \
                    and self.f.cls is not None:
                try:
                    v = self.consts.class_const(self.f.cls, e.attr)
                    if isinstance(v, int):
                        return v
                except Exception:
                    pass
            raise AnalysisError('attribute outside the model: ' +
                                ast.unparse(e))
        if isinstance(e, ast.Tuple):
            return tuple(self.ev(x, env, path) for x in e.elts)
        if isinstance(e, ast.List):
            return [self.ev(x, env, path) for x in e.elts]
        if isinstance(e, ast.UnaryOp):
            if isinstance(e.op, ast.USub):
                return -self.to_aff(self.ev(e.operand, env, path))
            if isinstance(e.op, ast.Invert):
                return ('invert', self.to_bv(self.ev(e.operand, env, path)))
            if isinstance(e.op, ast.Not):
                v = self.ev(e.operand, env, path)
                if isinstance(v, bool):
                    return not v
                if isinstance(v, BV):
                    return BV([c_not(v.any_set())])
        if isinstance(e, ast.BinOp):
            return self.binop(e, env, path)
        if isinstance(e, ast.Subscript):
            return self.subscript(e, env, path)
        if isinstance(e, ast.Compare):
            return self.compare(e, env, path)
        if isinstance(e, ast.IfExp):
            c = self.ev(e.test, env, path)
            if isinstance(c, bool):
                return self.ev(e.body if c else e.orelse, env, path)
            if isinstance(c, BV):
                cc = c.any_set()
                a = self.to_bv(self.ev(e.body, env, path))
                b = self.to_bv(self.ev(e.orelse, env, path))
                n = max(len(a.cells), len(b.cells))
                return BV([c_ite(cc, a.cell(i), b.cell(i))
                           for i in range(n)]).trimmed()
        if isinstance(e, ast.Call):
            return self.call(e, env, path)
        if isinstance(e, (ast.ListComp, ast.GeneratorExp)) and \
                len(e.generators) == 1 and not e.generators[0].ifs:
            g = e.generators[0]
            seq = self.ev(g.iter, env, path)
            if isinstance(seq, tuple) and seq and seq[0] == 'range':
                vals = []
                for a in seq[1]:
                    av = self.to_aff(a)
                    if not av.is_const():
                        raise AnalysisError('comprehension over a symbolic '
                                            'range')
                    vals.append(av.const)
                seq = list(range(*vals))
            if isinstance(seq, (list, tuple)) and len(seq) <= 64:
                out = []
                for item in seq:
                    e2 = dict(env)
                    self.assign(g.target, item, e2, path, e)
                    out.append(self.ev(e.elt, e2, path))
                return out
            raise AnalysisError('comprehension outside the model: ' +
                                ast.unparse(e)[:60])
        if isinstance(e, ast.BoolOp):
            vals = [self.ev(v, env, path) for v in e.values]
            if all(isinstance(v, bool) for v in vals):
                return all(vals) if isinstance(e.op, ast.And) else any(vals)
        raise AnalysisError('expression outside the bit/affine model: ' +
                            ast.unparse(e)[:70])

    def binop(self, e, env, path):
        a = self.ev(e.left, env, path)
        b = self.ev(e.right, env, path)
        op = e.op
        if isinstance(a, HexText) and isinstance(b, HexText) and \
                isinstance(op, ast.Add):
            return a + b
        if isinstance(a, (Text, HexText, bytes)) or \
                isinstance(b, (Text, HexText, bytes)):
            if isinstance(op, ast.Add):
                return _as_text(a) + _as_text(b)
        if isinstance(op, (ast.BitAnd, ast.BitOr, ast.BitXor)):
            if isinstance(a, tuple) and a and a[0] == 'invert':
                if isinstance(op, ast.BitAnd):
                    m = self.to_aff(b) if not isinstance(b, BV) else b
                    mask = m.const if isinstance(m, Aff) else m.as_const()
                    if mask is None:
                        raise AnalysisError('~x & non-constant')
                    return a[1].invert_masked(mask)
            if isinstance(b, tuple) and b and b[0] == 'invert':
                if isinstance(op, ast.BitAnd):
                    # x & ~c  with constant c
                    c = b[1].as_const()
                    av = self.to_bv(a)
                    if c is not None:
                        return BV([ZERO if (c >> i) & 1 else av.cell(i)
                                   for i in range(len(av.cells))]).trimmed()
                    raise AnalysisError('x & ~non-constant')
            x, y = self.to_bv(a), self.to_bv(b)
            if isinstance(op, ast.BitAnd):
                return x & y
            if isinstance(op, ast.BitOr):
                return x | y
            return x ^ y
        if isinstance(op, (ast.LShift, ast.RShift)):
            n = self.to_aff(b)
            if not n.is_const():
                raise AnalysisError('shift by a non-constant')
            x = self.to_bv(a)
            return x.shl(n.const) if isinstance(op, ast.LShift) \
                else x.shr(n.const)
        if isinstance(op, (ast.Add, ast.Sub)):
            if isinstance(a, BV) or isinstance(b, BV):
                if isinstance(op, ast.Add):
                    ca = a.as_const() if isinstance(a, BV) else None
                    cb = b.as_const() if isinstance(b, BV) else None
                    if ca is None and cb is None or True:
                        try:
                            return self.to_bv(a).add(self.to_bv(b))
                        except AnalysisError:
                            raise
            x, y = self.to_aff(a), self.to_aff(b)
            return x + y if isinstance(op, ast.Add) else x - y
        if isinstance(op, ast.Mult):
            if isinstance(a, (bytes, bytearray)) and isinstance(b, int):
                return a * b
            x, y = self.to_aff(a), self.to_aff(b)
            if x.is_const():
                return y.scale(x.const)
            if y.is_const():
                return x.scale(y.const)
            raise AnalysisError('non-linear multiplication')
        if isinstance(op, (ast.FloorDiv, ast.Mod, ast.Div)):
            x, y = self.to_aff(a), self.to_aff(b)
            if not y.is_const() or y.const <= 0:
                raise AnalysisError('division by a non-constant')
            k = y.const
            if x.is_const() and not isinstance(op, ast.Div):
                return Aff({}, x.const // k if isinstance(op, ast.FloorDiv)
                           else x.const % k)
            if isinstance(op, ast.Div):
                op = ast.FloorDiv()
            # exact when every coefficient is a multiple of k
            if all(v % k == 0 for v in x.coeffs.values()):
                if isinstance(op, ast.FloorDiv):
                    return Aff({s: v // k for s, v in x.coeffs.items()},
                               x.const // k)
                return Aff({}, x.const % k)
            constrained = Aff(x.coeffs, 0).key() in self.constraints
            if not constrained:
                # floor((D + R)/k) = D/k + floor(R/k) when k divides D
                D = Aff({s: v for s, v in x.coeffs.items() if v % k == 0},
                        (x.const // k) * k)
                R = x - D
                if D.coeffs or D.const:
                    rv = self.binop_div(R, k, isinstance(op, ast.FloorDiv))
                    if isinstance(op, ast.FloorDiv):
                        return Aff({s: v // k for s, v in D.coeffs.items()},
                                   D.const // k) + rv
                    return rv
            name = '({})'.format(repr(x))
            lo, hi = self.bounds(x)
            if isinstance(op, ast.FloorDiv):
                s = name + '//' + str(k)
                self.ranges.setdefault(
                    s, (None if lo is None else lo // k,
                        None if hi is None else hi // k))
                self.derived = getattr(self, 'derived', {})
                self.derived[s] = ('floordiv', x, k)
                return Aff.sym(s)
            s = name + '%' + str(k)
            self.ranges.setdefault(s, (0, k - 1))
            self.derived = getattr(self, 'derived', {})
            self.derived[s] = ('mod', x, k)
            return Aff.sym(s)
        raise AnalysisError('operator outside the model: ' +
                            ast.unparse(e)[:60])

    def binop_div(self, x, k, floor):
        if x.is_const():
            return Aff({}, x.const // k if floor else x.const % k)
        name = '({})'.format(repr(x))
        lo, hi = self.bounds(x)
        self.derived = getattr(self, 'derived', {})
        if floor:
            s = name + '//' + str(k)
            self.ranges.setdefault(s, (None if lo is None else lo // k,
                                       None if hi is None else hi // k))
            self.derived[s] = ('floordiv', x, k)
        else:
            s = name + '%' + str(k)
            self.ranges.setdefault(s, (0, k - 1))
            self.derived[s] = ('mod', x, k)
        return Aff.sym(s)

    def subscript(self, e, env, path):
        base = e.value
        # memory load: <...>._data[idx]
        if isinstance(base, ast.Attribute) and base.attr == '_data':
            if isinstance(e.slice, ast.Slice):
                raise AnalysisError('slice of a region array')
            idx = self.to_aff(self.ev(e.slice, env, path))
            arr = self.array_key(base)
            self.note_access(arr, idx, e, path, 'load')
            return self.load(arr, idx, path)
        v = self.ev(base, env, path)
        if isinstance(v, ArrRef):
            if isinstance(e.slice, ast.Slice):
                raise AnalysisError('slice of a region array')
            idx = self.to_aff(self.ev(e.slice, env, path))
            self.note_access(v.key, idx, e, path, 'load')
            return self.load(v.key, idx, path)
        if isinstance(v, SymLine):
            if isinstance(e.slice, ast.Slice):
                lo = self.to_aff(self.ev(e.slice.lower, env, path)) \
                    if e.slice.lower is not None else Aff({}, 0)
                hi = self.to_aff(self.ev(e.slice.upper, env, path))
                n = (hi - lo)
                if not n.is_const():
                    raise AnalysisError('symbolic slice length')
                return HexText([v.digit(lo + Aff({}, k))
                                for k in range(n.const)])
            return HexText([v.digit(self.to_aff(self.ev(e.slice, env, path)))])
        if isinstance(v, HexText):
            if isinstance(e.slice, ast.Slice):
                lo = self.ev(e.slice.lower, env, path) if e.slice.lower \
                    else 0
                hi = self.ev(e.slice.upper, env, path) if e.slice.upper \
                    else len(v.digits)
                lo, hi = self.to_aff(lo).const, self.to_aff(hi).const
                return HexText(v.digits[lo:hi])
            i = self.to_aff(self.ev(e.slice, env, path))
            return HexText([v.digits[i.const]])
        if isinstance(v, dict):
            k = const_str(e.slice)
            if k in v:
                return v[k]
        if isinstance(v, (tuple, list)):
            i = self.to_aff(self.ev(e.slice, env, path))
            if i.is_const():
                return v[i.const]
        if isinstance(v, ByteList):
            i = self.to_aff(self.ev(e.slice, env, path))
            if i.is_const():
                return v.items[i.const]
        if isinstance(v, bytes):
            i = self.to_aff(self.ev(e.slice, env, path))
            if i.is_const():
                return v[i.const]
        if isinstance(v, SymArray):
            idx = self.to_aff(self.ev(e.slice, env, path))
            self.note_access(v.name, idx, e, path, 'load')
            for (a, i, val, _n) in reversed(path.stores):
                if a == v.name and i == idx:
                    return val
                if a == v.name and not self.distinct(i, idx):
                    raise AnalysisError('load may alias an earlier store')
            if v.init_zero:
                return BV([ZERO])
            return BV.source(('mem', v.name, idx.key()), v.width)
        raise AnalysisError('subscript outside the model: ' +
                            ast.unparse(e)[:60])

    def note_access(self, arr, idx, node, path, kind):
        self.accesses = getattr(self, 'accesses', [])
        self.accesses.append((arr, idx, node, kind, list(path.assume),
                              self.bounds(idx), path))

    def compare(self, e, env, path):
        left = self.ev(e.left, env, path)
        result = True
        for op, c in zip(e.ops, e.comparators):
            right = self.ev(c, env, path)
            r = self.cmp1(op, left, right, e)
            if r is False:
                return False
            if r is not True:
                result = r if result is True else None
                if result is None:
                    raise AnalysisError('chained symbolic comparison')
            left = right
        return result

    def cmp1(self, op, a, b, node):
        if isinstance(op, (ast.Is, ast.IsNot)):
            isn = (a is NONE) == (b is NONE) if (a is NONE or b is NONE) \
                else None
            if a is NONE or b is NONE:
                same = a is NONE and b is NONE
                return same if isinstance(op, ast.Is) else not same
            raise AnalysisError('identity test outside the model')
        if a is NONE or b is NONE:
            if isinstance(op, (ast.Eq, ast.NotEq)):
                same = a is NONE and b is NONE
                return same if isinstance(op, ast.Eq) else not same
        if isinstance(a, BV) or isinstance(b, BV):
            ca = a.as_const() if isinstance(a, BV) else (
                self.to_aff(a).const if self.to_aff(a).is_const() else None)
            cb = b.as_const() if isinstance(b, BV) else (
                self.to_aff(b).const if self.to_aff(b).is_const() else None)
            if ca is not None and cb is not None:
                return _pycmp(op, ca, cb)
            if isinstance(a, BV) and cb == 0 and isinstance(op, ast.Gt):
                return BV([a.any_set()])
            if isinstance(a, BV) and cb == 0 and isinstance(op, ast.NotEq):
                return BV([a.any_set()])
            if isinstance(a, BV) and cb == 0 and isinstance(op, ast.Eq):
                return BV([c_not(a.any_set())])
            if isinstance(a, BV) and cb is not None and cb >= 0:
                # x > 2^k - 1, x >= 2^k: some bit >= k set (and negations)
                thr = None
                if isinstance(op, (ast.Gt, ast.LtE)) and (cb + 1) & cb == 0:
                    thr = (cb + 1).bit_length() - 1
                elif isinstance(op, (ast.GtE, ast.Lt)) and cb > 0 and \
                        cb & (cb - 1) == 0:
                    thr = cb.bit_length() - 1
                if thr is not None:
                    hi = BV(a.cells[thr:] or [ZERO])
                    t = hi.any_set()
                    if isinstance(op, (ast.LtE, ast.Lt)):
                        t = c_not(t)
                    r = BV([t])
                    rc = r.as_const()
                    return bool(rc) if rc is not None else r
            return ('symcmp', ast.unparse(node))
        x, y = self.to_aff(a), self.to_aff(b)
        d = x - y
        lo, hi = self.bounds(d)
        if d.is_const():
            return _pycmp(op, d.const, 0)
        t = {ast.Lt: (hi is not None and hi < 0, lo is not None and lo >= 0),
             ast.LtE: (hi is not None and hi <= 0, lo is not None and lo > 0),
             ast.Gt: (lo is not None and lo > 0, hi is not None and hi <= 0),
             ast.GtE: (lo is not None and lo >= 0, hi is not None and hi < 0),
             ast.Eq: (False, (lo is not None and lo > 0) or
                      (hi is not None and hi < 0)),
             ast.NotEq: ((lo is not None and lo > 0) or
                         (hi is not None and hi < 0), False)}.get(type(op))
        if t is None:
            raise AnalysisError('comparison outside the model')
        if t[0]:
            return True
        if t[1]:
            return False
        return ('affcmp', type(op), d)

    def call(self, e, env, path):
        fn = e.func
        name = fn.id if isinstance(fn, ast.Name) else (
            fn.attr if isinstance(fn, ast.Attribute) else None)
        if name in self.hooks:
            return self.hooks[name](self, e, env, path)
        if isinstance(fn, ast.Name):
            if fn.id == 'len' and len(e.args) == 1:
                v = self.ev(e.args[0], env, path)
                if isinstance(v, (tuple, list, bytes)):
                    return len(v)
                if isinstance(v, HexText):
                    return len(v.digits)
                k = 'len(' + ast.unparse(e.args[0]) + ')'
                if k in env:
                    return env[k]
                raise AnalysisError('len of a symbolic value')
            if fn.id == 'bytes' and e.args:
                v = self.ev(e.args[0], env, path)
                if isinstance(v, list):
                    return ByteList([self.to_bv(x) for x in v])
                if isinstance(v, (HexText, Text, ByteList, SymLine)):
                    return v
                if isinstance(v, tuple):
                    return ByteList([self.to_bv(x) for x in v])
                if isinstance(v, SymArrayView):
                    return v
            if fn.id in ('int',) and e.args:
                v = self.ev(e.args[0], env, path)
                base = 10
                if len(e.args) > 1:
                    base = self.to_aff(self.ev(e.args[1], env, path)).const
                if isinstance(v, HexText) and base == 16:
                    out = BV([ZERO])
                    for d in v.digits:
                        out = out.shl(4) | d
                    return out
                if isinstance(v, Aff):
                    return v
            if fn.id == 'str' and e.args:
                return self.ev(e.args[0], env, path)
            if fn.id in ('tuple', 'list') and len(e.args) == 1:
                v = self.ev(e.args[0], env, path)
                if isinstance(v, (list, tuple)):
                    return tuple(v) if fn.id == 'tuple' else list(v)
            if fn.id == 'enumerate' and len(e.args) == 1:
                v = self.ev(e.args[0], env, path)
                if isinstance(v, (list, tuple)) and not (
                        v and v[0] == 'range'):
                    return [(i, x) for i, x in enumerate(v)]
            if fn.id == 'divmod' and len(e.args) == 2:
                q = ast.BinOp(left=e.args[0], op=ast.FloorDiv(),
                              right=e.args[1])
                r = ast.BinOp(left=e.args[0], op=ast.Mod(), right=e.args[1])
                for x in (q, r):
                    ast.copy_location(x, e)
                return (self.binop(q, env, path), self.binop(r, env, path))
            if fn.id == 'range':
                return ('range', [self.ev(a, env, path) for a in e.args])
            if fn.id in ('min', 'max') and e.args:
                vals = [self.to_aff(self.ev(a, env, path)) for a in e.args]
                if all(v.is_const() for v in vals):
                    f = min if fn.id == 'min' else max
                    return f(v.const for v in vals)
        if isinstance(fn, ast.Attribute):
            # util.bytes_to_hex(bytes([...]))
            r = self.model.resolve_expr(self.f.module, fn)
            if r and r[0] == 'func' and r[1].qual == 'pico8.util:bytes_to_hex':
                v = self.ev(e.args[0], env, path)
                if isinstance(v, ByteList):
                    digs = []
                    for b in v.items:
                        digs.append(BV([b.cell(i) for i in range(4, 8)]))
                        digs.append(BV([b.cell(i) for i in range(0, 4)]))
                    return HexText(digs)
                raise AnalysisError('bytes_to_hex of a non byte list')
            if fn.attr == 'fromhex' and e.args:
                v = self.ev(e.args[0], env, path)
                if isinstance(v, SymLine):
                    v = v.all_digits()
                if isinstance(v, HexText) and len(v.digits) % 2 == 0:
                    items = []
                    for i in range(0, len(v.digits), 2):
                        items.append((v.digits[i].shl(4) |
                                      v.digits[i + 1]))
                    return ByteList(items)
            if fn.attr == 'join' and isinstance(const_str(fn.value), bytes) \
                    and const_str(fn.value) == b'' and len(e.args) == 1:
                v = self.ev(e.args[0], env, path)
                if isinstance(v, (list, tuple)):
                    out = Text([])
                    for item in v:
                        out = out + _as_text(item)
                    return out
            if fn.attr == 'append' and isinstance(fn.value, ast.Name) and \
                    isinstance(env.get(fn.value.id), list) and \
                    len(e.args) == 1:
                env[fn.value.id] = env[fn.value.id] + [
                    self.ev(e.args[0], env, path)]
                return NONE
            if fn.attr in ('rstrip', 'strip') and not e.args:
                v = self.ev(fn.value, env, path)
                if isinstance(v, SymLine):
                    return v
            # self.method(...) -> inline
            if isinstance(fn.value, ast.Name) and fn.value.id in env and \
                    isinstance(env[fn.value.id], ObjRef):
                return self.inline(env[fn.value.id], fn.attr, e, env, path)
        c = self.callee_of(e, env)
        if c is not None:
            return self.inline_one(c[0], c[1], e, env, path)
        raise AnalysisError('call outside the model: ' +
                            ast.unparse(e)[:60])

    def callee_of(self, call, env):
        """-> (FuncInfo, receiver ObjRef or None) when the call can be
        inlined: a method of a modelled object or a module-level function"""
        fn = call.func
        if isinstance(fn, ast.Attribute) and isinstance(fn.value, ast.Name) \
                and isinstance(env.get(fn.value.id), ObjRef):
            name = fn.attr
            if name in self.hooks:
                return None
            obj = env[fn.value.id]
            m = self.model.lookup_method(obj.cls, name)
            if m is not None:
                return (m, obj)
        if isinstance(fn, ast.Name) and fn.id not in env and \
                fn.id not in self.hooks:
            r = self.model.resolve_name(self.f.module, fn.id)
            if r and r[0] == 'func':
                return (r[1], None)
        return None

    def inline_paths(self, m, obj, call, env, path):
        """run the callee on `path`; -> [(path_i, return value_i)] for the
        paths that do not raise"""
        if self.depth > 3:
            raise AnalysisError('inline depth')
        a = m.node.args
        names = [x.arg for x in a.args]
        new = {}
        if obj is not None:
            new[names[0]] = obj
            names = names[1:]
        defaults = dict(zip(names[len(names) - len(a.defaults):], a.defaults))
        for i, arg in enumerate(call.args):
            if i >= len(names):
                raise AnalysisError('too many arguments for ' + m.name)
            new[names[i]] = self.ev(arg, env, path)
        for k in call.keywords:
            new[k.arg] = self.ev(k.value, env, path)
        for n in names:
            if n not in new:
                if n in defaults:
                    new[n] = self.ev(defaults[n], {}, path)
                else:
                    raise AnalysisError('missing argument ' + n)
        sub = Evaluator(self.model, self.consts, m, self.ranges,
                        self.mem_width)
        sub.hooks = self.hooks
        sub.depth = self.depth + 1
        sub.accesses = getattr(self, 'accesses', [])
        sub.check_asserts = getattr(self, 'check_asserts', False)
        sub.assert_failures = getattr(self, 'assert_failures', [])
        sub.derived = getattr(self, 'derived', {})
        saved_flow = path.flow
        paths = sub.run_from(m.node.body, new, path)
        self.accesses = sub.accesses
        self.assert_failures = sub.assert_failures
        out = []
        for p in paths:
            if p.raised:
                continue
            ret = p.ret if p.ret is not None else NONE
            p.ret = None
            p.flow = saved_flow
            out.append((p, ret))
        return out

    def inline(self, obj, mname, call, env, path):
        m = self.model.lookup_method(obj.cls, mname)
        if m is None:
            raise AnalysisError('method {} not found'.format(mname))
        return self.inline_one(m, obj, call, env, path)

    def inline_one(self, m, obj, call, env, path):
        live = self.inline_paths(m, obj, call, env, path)
        self.cur = path
        if len(live) != 1:
            raise AnalysisError('inlined call {} has {} live paths'.format(
                m.name, len(live)))
        p, ret = live[0]
        if p is not path:
            path.stores = p.stores
            path.assume = p.assume
            path.ranges = p.ranges
            path.constraints = p.constraints
            path.yields = p.yields
        return ret

    # ---- statements -----------------------------------------------------------
    def run(self, env):
        return self.run_from(self.f.node.body, env, Path(self.init_ranges))

    def run_from(self, stmts, env, path):
        out = []
        for (p, en, done) in self.block(stmts, dict(env), path):
            out.append(p)
        return out

    def block(self, stmts, env, path):
        """-> list of (path, env, finished)"""
        states = [(path, env, False)]
        for st in stmts:
            nxt = []
            for (p, en, done) in states:
                if done:
                    nxt.append((p, en, done))
                    continue
                nxt.extend(self.stmt(st, en, p))
            states = nxt
            if len(states) > 512:
                raise AnalysisError('too many paths')
        return states

    def stmt(self, st, env, path):
        self.cur = path
        if isinstance(st, ast.Expr):
            if isinstance(st.value, ast.Constant):
                return [(path, env, False)]
            if isinstance(st.value, ast.Yield):
                path.yields.append(self.ev(st.value.value, env, path))
                return [(path, env, False)]
            v = self.ev(st.value, env, path)
            return [(path, env, False)]
        if isinstance(st, ast.Assert):
            self.assume_true(st.test, env, path)
            # 0 <= name <= 2**k - 1 on a bit-vector value: higher bits are 0
            t = st.test
            if isinstance(t, ast.Compare) and len(t.ops) == 2 and \
                    all(isinstance(o, ast.LtE) for o in t.ops) and \
                    isinstance(t.comparators[0], ast.Name) and \
                    isinstance(env.get(t.comparators[0].id), BV):
                try:
                    hi = self.to_aff(self.ev(t.comparators[1], env, path))
                    lo = self.to_aff(self.ev(t.left, env, path))
                except AnalysisError:
                    hi = lo = None
                if hi is not None and hi.is_const() and lo.is_const() and \
                        lo.const == 0 and (hi.const + 1) & hi.const == 0:
                    k = hi.const.bit_length()
                    nm = t.comparators[0].id
                    env[nm] = BV(env[nm].cells[:k] or [ZERO])
            return [(path, env, False)]
        if isinstance(st, (ast.Return, ast.Assign)) and \
                isinstance(st.value, ast.IfExp):
            # a conditional value forks the path like an if statement
            def mk(v):
                n = ast.Return(value=v) if isinstance(st, ast.Return) else \
                    ast.Assign(targets=st.targets, value=v)
                return ast.copy_location(n, st)
            iff = ast.If(test=st.value.test, body=[mk(st.value.body)],
                         orelse=[mk(st.value.orelse)])
            ast.copy_location(iff, st)
            return self.stmt(iff, env, path)
        if isinstance(st, ast.Return):
            path.ret = self.ev(st.value, env, path) if st.value is not None \
                else NONE
            return [(path, env, True)]
        if isinstance(st, ast.Raise):
            path.raised = True
            return [(path, env, True)]
        if isinstance(st, ast.Assign) and isinstance(st.value, ast.Call):
            c = self.callee_of(st.value, env)
            if c is not None:
                outs = []
                for (p2, ret) in self.inline_paths(c[0], c[1], st.value, env,
                                                   path):
                    e2 = {k: (list(v) if isinstance(v, list) else v)
                          for k, v in env.items()}
                    self.cur = p2
                    for t in st.targets:
                        self.assign(t, ret, e2, p2, st)
                    outs.append((p2, e2, False))
                if not outs:
                    path.raised = True
                    return [(path, env, True)]
                return outs
        if isinstance(st, ast.Assign):
            v = self.ev(st.value, env, path)
            for t in st.targets:
                self.assign(t, v, env, path, st)
            return [(path, env, False)]
        if isinstance(st, ast.For) and not st.orelse:
            # constant-trip loop: unroll
            seq = self.ev(st.iter, env, path)
            if isinstance(seq, tuple) and seq and seq[0] == 'range':
                args = []
                for a in seq[1]:
                    v = self.to_aff(a)
                    if not v.is_const():
                        raise AnalysisError('loop over a symbolic range: ' +
                                            ast.unparse(st.iter)[:50])
                    args.append(v.const)
                trips = list(range(*args))
            elif isinstance(seq, (list, tuple)):
                trips = list(seq)
            else:
                raise AnalysisError('statement outside the model: ' +
                                    ast.unparse(st)[:60])
            if len(trips) > 64:
                raise AnalysisError('loop too long to unroll: ' +
                                    ast.unparse(st.iter)[:50])
            self.unrolling = getattr(self, 'unrolling', 0) + 1
            try:
                states = [(path, env, False)]
                finished = []
                for k in trips:
                    nxt = []
                    for (p, en, done) in states:
                        en = dict(en)
                        self.cur = p
                        self.assign(st.target, k, en, p, st)
                        for (p2, e2, d2) in self.block(st.body, en, p):
                            if d2 and p2.flow == 'continue':
                                p2.flow = None
                                nxt.append((p2, e2, False))
                            elif d2 and p2.flow == 'break':
                                p2.flow = None
                                finished.append((p2, e2, False))
                            elif d2:
                                finished.append((p2, e2, True))
                            else:
                                nxt.append((p2, e2, False))
                    states = nxt
                    if len(states) + len(finished) > 512:
                        raise AnalysisError('too many paths')
                return states + finished
            finally:
                self.unrolling -= 1
        if isinstance(st, ast.AugAssign):
            cur = ast.BinOp(left=_load(st.target), op=st.op, right=st.value)
            ast.copy_location(cur, st)
            v = self.ev(cur, env, path)
            self.assign(st.target, v, env, path, st)
            return [(path, env, False)]
        if isinstance(st, ast.If) and isinstance(st.test, ast.BoolOp):
            vals = st.test.values
            first, rest = vals[0], vals[1:]
            rest_t = rest[0] if len(rest) == 1 else ast.BoolOp(
                op=st.test.op, values=rest)
            if isinstance(st.test.op, ast.Or):
                inner = ast.If(test=rest_t, body=st.body, orelse=st.orelse)
                outer = ast.If(test=first, body=st.body, orelse=[inner])
            else:
                inner = ast.If(test=rest_t, body=st.body, orelse=st.orelse)
                outer = ast.If(test=first, body=[inner], orelse=st.orelse)
            for n_ in (inner, outer):
                ast.copy_location(n_, st)
            return self.stmt(outer, env, path)
        if isinstance(st, ast.If) and isinstance(st.test, ast.UnaryOp) and \
                isinstance(st.test.op, ast.Not):
            sw = ast.If(test=st.test.operand, body=st.orelse or [ast.Pass()],
                        orelse=st.body)
            ast.copy_location(sw, st)
            return self.stmt(sw, env, path)
        if isinstance(st, ast.If):
            c = self.ev(st.test, env, path)
            if isinstance(c, BV):
                cc = c.as_const()
                if cc is not None:
                    c = bool(cc)
            if c is True or c is False:
                return self.block(st.body if c else st.orelse, env, path)
            # split
            out = []
            for val, body in ((True, st.body), (False, st.orelse)):
                p2 = path.clone()
                e2 = {k: (list(v) if isinstance(v, list) else v)
                      for k, v in env.items()}
                self.cur = p2
                self.refine(c, val, p2, st.test)
                for r in self.block(body, e2, p2):
                    out.append(r)
            return out
        if isinstance(st, ast.Pass):
            return [(path, env, False)]
        if isinstance(st, ast.Continue):
            if getattr(self, 'unrolling', 0):
                path.flow = 'continue'
                return [(path, env, True)]
            path.assume.append(('continue',))
            return [(path, env, True)]
        if isinstance(st, ast.Break):
            if getattr(self, 'unrolling', 0):
                path.flow = 'break'
                return [(path, env, True)]
            # body of a loop modelled by one symbolic iteration: a break is
            # the end of this and of every later iteration; the rule decides
            # whether the condition it sits under is monotone in the loop
            # variable
            path.assume.append(('break', getattr(path, 'last_cond', None)))
            return [(path, env, True)]
        raise AnalysisError('statement outside the model: ' +
                            ast.unparse(st)[:60])

    def refine(self, c, val, path, node):
        path.assume.append((ast.unparse(node)[:60], val))
        path.last_cond = (c, val)
        if isinstance(c, tuple) and c[0] == 'affcmp':
            _k, opt, d = c
            if len(d.coeffs) > 1:
                self.constrain(d, opt, val)
                return
            # d (op) 0 holds / does not hold; refine a single symbol range
            if len(d.coeffs) == 1:
                (s, co), = d.coeffs.items()
                if abs(co) == 1:
                    lo, hi = self.ranges.get(s, (None, None))
                    k = -d.const * co          # s*co + const (op) 0
                    # normalise to  s (op') k'  when co == 1
                    if co == 1:
                        bound = -d.const
                        ops = opt
                    else:
                        bound = d.const
                        ops = {ast.Lt: ast.Gt, ast.LtE: ast.GtE,
                               ast.Gt: ast.Lt, ast.GtE: ast.LtE,
                               ast.Eq: ast.Eq, ast.NotEq: ast.NotEq}[opt]
                    if not val:
                        ops = {ast.Lt: ast.GtE, ast.LtE: ast.Gt,
                               ast.Gt: ast.LtE, ast.GtE: ast.Lt,
                               ast.Eq: ast.NotEq, ast.NotEq: ast.Eq}[ops]
                    if ops is ast.Lt:
                        hi = bound - 1 if hi is None else min(hi, bound - 1)
                    elif ops is ast.LtE:
                        hi = bound if hi is None else min(hi, bound)
                    elif ops is ast.Gt:
                        lo = bound + 1 if lo is None else max(lo, bound + 1)
                    elif ops is ast.GtE:
                        lo = bound if lo is None else max(lo, bound)
                    elif ops is ast.Eq:
                        lo = hi = bound
                    self.ranges[s] = (lo, hi)

    def constrain(self, d, opt, val):
        """record  A (op) -const  for the multi-symbol affine form A"""
        A = Aff(d.coeffs, 0)
        bound = -d.const
        ops = opt
        if not val:
            ops = {ast.Lt: ast.GtE, ast.LtE: ast.Gt, ast.Gt: ast.LtE,
                   ast.GtE: ast.Lt, ast.Eq: ast.NotEq,
                   ast.NotEq: ast.Eq}[ops]
        lo = hi = None
        if ops is ast.Lt:
            hi = bound - 1
        elif ops is ast.LtE:
            hi = bound
        elif ops is ast.Gt:
            lo = bound + 1
        elif ops is ast.GtE:
            lo = bound
        elif ops is ast.Eq:
            lo = hi = bound
        cons = dict(self.constraints)
        old = cons.get(A.key(), (None, None))
        nl = lo if old[0] is None else (old[0] if lo is None
                                        else max(lo, old[0]))
        nh = hi if old[1] is None else (old[1] if hi is None
                                        else min(hi, old[1]))
        cons[A.key()] = (nl, nh)
        self.constraints = cons

    def bounds(self, aff):
        """interval of an affine form under symbol ranges and the recorded
        constraints on multi-symbol forms"""
        lo, hi = aff.bounds(self.ranges)
        for key, (clo, chi) in self.constraints.items():
            A = Aff(dict(key[0]), 0)
            ks = set()
            ok = True
            for s_, c_ in A.coeffs.items():
                v = aff.coeffs.get(s_, 0)
                if v == 0 or v % c_ != 0:
                    ok = False
                    break
                ks.add(v // c_)
            if not ok or len(ks) != 1:
                continue
            k = ks.pop()
            rest = aff - A.scale(k)
            rlo, rhi = self.bounds(rest) if rest.coeffs else (rest.const,
                                                              rest.const)
            a_lo, a_hi = A.bounds(self.ranges)
            alo = a_lo if clo is None else (clo if a_lo is None
                                            else max(clo, a_lo))
            ahi = a_hi if chi is None else (chi if a_hi is None
                                            else min(chi, a_hi))
            if k > 0:
                nlo = None if (alo is None or rlo is None) else k * alo + rlo
                nhi = None if (ahi is None or rhi is None) else k * ahi + rhi
            else:
                nlo = None if (ahi is None or rlo is None) else k * ahi + rlo
                nhi = None if (alo is None or rhi is None) else k * alo + rhi
            if nlo is not None and (lo is None or nlo > lo):
                lo = nlo
            if nhi is not None and (hi is None or nhi < hi):
                hi = nhi
        return lo, hi

    def assume_true(self, test, env, path):
        """asserts: refine ranges from 0 <= x <= k shapes; ignore the rest"""
        if isinstance(test, ast.Compare):
            items = [test.left] + list(test.comparators)
            for (a, op, b) in zip(items, test.ops, items[1:]):
                try:
                    va = self.ev(a, env, path)
                    vb = self.ev(b, env, path)
                    c = self.cmp1(op, va, vb, test)
                except AnalysisError:
                    continue
                if isinstance(c, tuple) and c[0] == 'affcmp':
                    self.refine(c, True, path, test)
                    path.assume.pop()
        elif isinstance(test, ast.BoolOp) and isinstance(test.op, ast.And):
            for v in test.values:
                self.assume_true(v, env, path)
        # `or` asserts (map rows) are handled by the rule's range table

    def assign(self, t, v, env, path, node):
        if isinstance(t, ast.Name):
            env[t.id] = v
            return
        if isinstance(t, (ast.Tuple, ast.List)):
            if not isinstance(v, (tuple, list)) or len(v) != len(t.elts):
                raise AnalysisError('tuple assignment shape')
            for x, y in zip(t.elts, v):
                self.assign(x, y, env, path, node)
            return
        if isinstance(t, ast.Subscript) and isinstance(t.value, ast.Attribute) \
                and t.value.attr == '_data':
            if isinstance(t.slice, ast.Slice):
                raise AnalysisError('slice store into a region array')
            idx = self.to_aff(self.ev(t.slice, env, path))
            arr = self.array_key(t.value)
            self.note_access(arr, idx, t, path, 'store')
            path.stores.append((arr, idx, self.to_bv(v), node))
            return
        if isinstance(t, ast.Subscript):
            base = self.ev(t.value, env, path)
            if isinstance(base, ArrRef):
                if isinstance(t.slice, ast.Slice):
                    raise AnalysisError('slice store into a region array')
                idx = self.to_aff(self.ev(t.slice, env, path))
                self.note_access(base.key, idx, t, path, 'store')
                path.stores.append((base.key, idx, self.to_bv(v), node))
                return
            if isinstance(base, SymArray):
                idx = self.to_aff(self.ev(t.slice, env, path))
                self.note_access(base.name, idx, t, path, 'store')
                path.stores.append((base.name, idx, self.to_bv(v), node))
                return
        raise AnalysisError('assignment target outside the model: ' +
                            ast.unparse(t)[:50])


class ObjRef:
    def __init__(self, cls):
        self.cls = cls


class ArrRef:
    """a local that aliases a region array (data = self._data)"""

    def __init__(self, key):
        self.key = key


class ByteList:
    def __init__(self, items):
        self.items = list(items)


class SymArray:
    """a named symbolic array of fixed-width cells"""

    def __init__(self, name, width=8, init_zero=False):
        self.name = name
        self.width = width
        self.init_zero = init_zero


class SymArrayView:
    pass


def _as_text(v):
    if isinstance(v, Text):
        return v
    if isinstance(v, SymLine):
        return Text([('hex', v.all_digits())])
    if isinstance(v, HexText):
        return Text([('hex', v)])
    if isinstance(v, bytes):
        return Text([('lit', v)])
    raise AnalysisError('text concatenation outside the model')


def _pycmp(op, a, b):
    return {ast.Lt: a < b, ast.LtE: a <= b, ast.Gt: a > b, ast.GtE: a >= b,
            ast.Eq: a == b, ast.NotEq: a != b}[type(op)]


def _load(t):
    import copy
    n = clone(t)
    for x in ast.walk(n):
        if hasattr(x, 'ctx'):
            x.ctx = ast.Load()
    return n
