"""Concrete-control abstract interpreter ("cx").

Evaluates functions of /repo from their `ast` with *concrete structure and
symbolic content*: lengths, loop counts, indices and control flow are ordinary
Python values, while the bytes that flow through a codec are bit vectors with
provenance (symx.BV: every bit is 0, 1 or a boolean function of a few named
source bits -- "bit k of memory byte 17", "hex digit 5 of line 3").  Because
the structure is concrete the interpreter does not care how a codec is written
(for / while / comprehension / generator expression / helper / translate
table ...): whatever the code does to the symbolic bytes is recorded in the
provenance of the result, and a rule compares that with a reference layout.
A test on a symbolic value forks the run (re-execution with a decision
prefix, no solver); anything outside the modelled subset raises CxError, which
rules report as UNDECIDED, never as a verdict.

Nothing of picotool is imported or executed: this is an interpreter over the
parsed source with its own (partial) model of the builtins it meets.
"""
import ast

from ..core import AnalysisError
from .. import consteval as CE
from .symx import BV, Cell, ZERO, ONE, TOP, _simplify

WS = (9, 10, 11, 12, 13, 32)
HEXDIGITS = '0123456789abcdef'


class CxError(AnalysisError):
    pass


class PyRaise(Exception):
    """an exception raised by the interpreted program"""

    def __init__(self, tname, args=(), cls=None):
        Exception.__init__(self, tname)
        self.tname = tname
        self.args_ = args
        self.cls = cls


class _Ret(Exception):
    def __init__(self, v):
        self.v = v


class _Brk(Exception):
    pass


class _Cont(Exception):
    pass


# ------------------------------------------------------------------ values

class Obj:
    def __init__(self, cls):
        self.cls = cls
        self.attrs = {}

    def __repr__(self):
        return '<{} object>'.format(self.cls.name)


class WideByteStore(CxError):
    """a symbolic value with live bits above bit 7 is stored as a byte: for
    the contents that set one of them Python raises ValueError"""

    def __init__(self, bv):
        super().__init__('a value wider than 8 bits is stored as a byte: '
                         '{}'.format(bv))
        self.bv = bv

    def sources(self):
        out = set()
        for c in self.bv.cells[8:]:
            for v in (c.vars if c is not None else ()):
                out.add(v[0][0] if isinstance(v[0], tuple) else v[0])
        return out


class CondDesc(tuple):
    """description of a symbolic decision that also carries the value that
    was tested (rules can reason under the path condition)"""

    def __new__(cls, desc, obj=None):
        t = super().__new__(cls, desc)
        t.obj = obj
        return t


class StubClass:
    """stand-in for a class the source model has no definition of (classes
    made with type(...) at import time): only identity and isinstance"""

    def __init__(self, name, bases=()):
        self.name = name
        self.qual = name
        self.bases = tuple(bases)
        self.methods = {}

    def mro(self):
        out = [self]
        for b in self.bases:
            for x in b.mro():
                if x not in out:
                    out.append(x)
        return out

    def __repr__(self):
        return '<stub class {}>'.format(self.name)


class ClassVal:
    def __init__(self, info):
        self.info = info

    def __eq__(self, o):
        return isinstance(o, ClassVal) and o.info is self.info

    def __ne__(self, o):
        return not self.__eq__(o)

    def __hash__(self):
        return hash(id(self.info))

    def __repr__(self):
        return '<class {}>'.format(self.info.qual)

    def __eq__(self, o):
        return isinstance(o, ClassVal) and o.info is self.info

    def __hash__(self):
        return hash(self.info.qual)


class FuncVal:
    def __init__(self, info, bound=None, closure=None):
        self.info = info
        self.bound = bound
        self.closure = closure


class LambdaVal:
    def __init__(self, node, frame):
        self.node = node
        self.frame = frame


class ModVal:
    def __init__(self, module):
        self.module = module


class Ext:
    """an external (stdlib / builtin) callable or module, by dotted name"""

    def __init__(self, name):
        self.name = name

    def __eq__(self, o):
        return isinstance(o, Ext) and o.name == self.name

    def __ne__(self, o):
        return not self.__eq__(o)

    def __hash__(self):
        return hash(('ext', self.name))

    def __repr__(self):
        return '<ext {}>'.format(self.name)


class SymSel:
    """table[<symbolic byte>] for a concrete table of non-numeric values"""
    __slots__ = ('table', 'index')

    def __init__(self, table, index):
        self.table = list(table)
        self.index = index

    def __eq__(self, o):
        return isinstance(o, SymSel) and o.index == self.index and \
            o.table == self.table

    def __hash__(self):
        return hash(repr(self.index))

    def __repr__(self):
        return 'Sel[{} entries]({})'.format(len(self.table), self.index)


class SymCp:
    """an unknown code point of the input text"""
    __slots__ = ('name',)

    def __init__(self, name):
        self.name = name

    def __eq__(self, o):
        return isinstance(o, SymCp) and o.name == self.name

    def __hash__(self):
        return hash(('cp', self.name))

    def __repr__(self):
        return 'Cp({})'.format(self.name)


class SymDictVal:
    """d[<symbolic key>] for a concrete dictionary with many distinct values
    (assumes the key is present; the KeyError path is not explored)"""
    __slots__ = ('d', 'key')

    def __init__(self, d, key):
        self.d = d
        self.key = tuple(key)

    def __eq__(self, o):
        return isinstance(o, SymDictVal) and o.d is self.d and \
            o.key == self.key

    def __hash__(self):
        return hash(self.key)

    def __repr__(self):
        return 'DictVal{}'.format(self.key)


class Opaque:
    """stand-in for an object of an external library: its methods are Python
    callables supplied by the rule (methods[name](cx, args, kwargs))"""

    def __init__(self, name, methods=None, attrs=None):
        self.name = name
        self.methods = methods or {}
        self.attrs = attrs or {}

    def __repr__(self):
        return '<opaque {}>'.format(self.name)


class BoundBuiltin:
    def __init__(self, recv, name):
        self.recv = recv
        self.name = name


class Seq:
    """bytes / bytearray / str whose elements may be symbolic"""
    __slots__ = ('kind', 'items')

    def __init__(self, kind, items):
        self.kind = kind
        self.items = list(items)

    def __repr__(self):
        return '{}{}'.format(self.kind, self.items[:6])


class HexCh:
    """the lower-case hex digit character of a 4-bit value"""
    __slots__ = ('bv',)

    def __init__(self, bv):
        self.bv = bv

    def __eq__(self, o):
        return isinstance(o, HexCh) and o.bv == self.bv

    def __hash__(self):
        return hash(repr(self.bv))

    def __repr__(self):
        return 'Hex({})'.format(self.bv)


class SymCh:
    """an unknown hex-digit character of the input (never whitespace)"""
    __slots__ = ('src',)

    def __init__(self, src):
        self.src = src

    def __eq__(self, o):
        return isinstance(o, SymCh) and o.src == self.src

    def __hash__(self):
        return hash(self.src)

    def __repr__(self):
        return 'Ch{}'.format(self.src)


def sym_line(name, ndigits, tail=b'\n'):
    """a .p8 data line of `ndigits` unknown hex digits"""
    return Seq('bytes', [SymCh((name, k)) for k in range(ndigits)] +
               list(tail))


def sym_bytes(name, n, kind='bytearray'):
    return Seq(kind, [BV.source(('mem', name, k), 8) for k in range(n)])


def nibble_of(ch):
    """4-bit value of a hex digit element"""
    if isinstance(ch, HexCh):
        return ch.bv
    if isinstance(ch, SymCh):
        return BV.source(('digit',) + tuple(ch.src), 4)
    if isinstance(ch, int):
        ch = chr(ch)
    if isinstance(ch, str) and len(ch) == 1 and ch in '0123456789abcdefABCDEF':
        return BV.const(int(ch, 16), 4)
    raise PyRaise('ValueError', ('non-hexadecimal digit',))


def is_sym(x):
    return isinstance(x, (BV, HexCh, SymCh, SymSel, SymCp, SymDictVal))


# ------------------------------------------------------------ bit helpers

def _bv(x, like=None):
    if isinstance(x, BV):
        return x
    if isinstance(x, bool):
        x = int(x)
    if isinstance(x, int):
        if x < 0:
            raise CxError('negative number in a bit operation other than &')
        return BV.const(x)
    raise CxError('bit operation on {}'.format(type(x).__name__))


def _norm(bv):
    c = bv.as_const()
    return c if c is not None else bv


def bit_binop(op, a, b):
    """op on ints where at least one side is a BV"""
    if isinstance(op, ast.BitAnd):
        if isinstance(a, int) and a < 0:
            a, b = b, a
        if isinstance(b, int) and b < 0:
            A = _bv(a)
            n = len(A.cells)
            return _norm(BV([A.cell(i) if (b >> i) & 1 else ZERO
                             for i in range(n)]).trimmed())
        return _norm(_bv(a) & _bv(b))
    if isinstance(op, ast.BitOr):
        return _norm(_bv(a) | _bv(b))
    if isinstance(op, ast.BitXor):
        return _norm(_bv(a) ^ _bv(b))
    if isinstance(op, ast.LShift):
        if isinstance(b, int) and b >= 0:
            return _norm(_bv(a).shl(b))
    if isinstance(op, ast.RShift):
        if isinstance(b, int) and b >= 0:
            return _norm(_bv(a).shr(b))
    if isinstance(op, ast.Add):
        try:
            return _norm(_bv(a).add(_bv(b)))
        except AnalysisError as e:
            raise CxError(str(e))
    if isinstance(op, ast.Mult):
        if isinstance(a, int):
            a, b = b, a
        if isinstance(b, int) and b > 0 and b & (b - 1) == 0:
            return _norm(_bv(a).shl(b.bit_length() - 1))
        if b == 0:
            return 0
    if isinstance(op, ast.FloorDiv):
        if isinstance(b, int) and b > 0 and b & (b - 1) == 0:
            return _norm(_bv(a).shr(b.bit_length() - 1))
    if isinstance(op, ast.Mod):
        if isinstance(b, int) and b > 0 and b & (b - 1) == 0:
            return _norm(_bv(a) & BV.const(b - 1))
    if isinstance(op, ast.Sub):
        # a - b where b's set bits are surely set in a is not derivable here
        pass
    raise CxError('arithmetic on a symbolic value: {} with {}'.format(
        type(op).__name__, (a, b)))


def bv_width(bv):
    return bv.width


_TABLE_CACHE = {}


def table_lookup(table, bv):
    """table[bv] for a concrete 256-entry table and a symbolic byte"""
    vs = []
    for c in bv.cells[:8]:
        if c is TOP:
            raise CxError('table lookup on an unknown bit')
        vs.extend(v for v in c.vars if v not in vs)
    if len(vs) > 8:
        raise CxError('table lookup on too many source bits')
    key = (tuple(table) if not isinstance(table, bytes) else table,
           tuple((tuple(vs.index(v) for v in c.vars), c.table)
                 for c in bv.cells[:8]))
    hit = _TABLE_CACHE.get(key)
    if hit is None:
        vals = []
        for i in range(1 << len(vs)):
            x = 0
            for k, c in enumerate(bv.cells[:8]):
                idx = 0
                for j, v in enumerate(c.vars):
                    idx |= ((i >> vs.index(v)) & 1) << j
                x |= ((c.table >> idx) & 1) << k
            t = table[x]
            if not isinstance(t, int):
                raise CxError('symbolic table entry')
            vals.append(t)
        width = max(max(vals).bit_length(), 1)
        hit = []
        ivs = tuple(range(len(vs)))
        for k in range(width):
            tb = 0
            for i, t in enumerate(vals):
                if (t >> k) & 1:
                    tb |= 1 << i
            c = _simplify(Cell(ivs, tb))
            hit.append(None if len(c.vars) > 4 else (c.vars, c.table))
        _TABLE_CACHE[key] = hit
    cells = [TOP if h is None else Cell(tuple(vs[i] for i in h[0]), h[1])
             for h in hit]
    return _norm(BV(cells))


# ---------------------------------------------------------------- frames

class Frame:
    def __init__(self, module, env, func=None, parent=None):
        self.module = module
        self.env = env
        self.func = func
        self.parent = parent       # enclosing frame (closures, comprehensions)
        self.yields = None
        self.globals_ = set()

    def lookup(self, name):
        f = self
        while f is not None:
            if name in f.env:
                return f.env[name]
            f = f.parent
        raise KeyError(name)

    def has(self, name):
        f = self
        while f is not None:
            if name in f.env:
                return True
            f = f.parent
        return False


def _has_yield(fnode):
    r = getattr(fnode, '_cx_gen', None)
    if r is None:
        r = fnode._cx_gen = _has_yield_scan(fnode)
    return r


def _has_yield_scan(fnode):
    stack = list(fnode.body)
    while stack:
        n = stack.pop()
        if isinstance(n, (ast.Yield, ast.YieldFrom)):
            return True
        if isinstance(n, (ast.FunctionDef, ast.Lambda, ast.ClassDef)):
            continue
        stack.extend(ast.iter_child_nodes(n))
    return False


class Cx:
    def __init__(self, model, consts, budget=3000000):
        self.model = model
        self.consts = consts
        self.budget = budget
        self.steps = 0
        self.decisions = []
        self.dpos = 0
        self.conds = []
        self.assumed = []
        self.depth = 0
        self.hooks = {}            # function qual -> python callable
        self.narrowed = []         # range assertions that dropped live bits
        self.ext_hooks = {}        # external dotted name -> python callable
        # constants of external modules (POSIX conventions, as on the
        # systems picotool's path handling is written for)
        self.ext_consts = {'os.path.sep': '/', 'os.sep': '/',
                           'os.path.pardir': '..', 'os.path.curdir': '.',
                           'os.pardir': '..', 'os.curdir': '.',
                           'os.linesep': '\n', 'os.path.altsep': None}
        self.module_vars = {}      # (module, name) -> value (mutable globals)
        self._disp = {}
        self._gcache = {}
        self._busy_consts = set()
        self.sym_memo = {}

    # ---- exploration of symbolic branches ---------------------------------
    def explore(self, fn, max_paths=64):
        """run fn() once per combination of symbolic decisions
        -> [(conds, ('ok', value) | ('raise', PyRaise))]"""
        out = []
        work = [[]]
        while work:
            prefix = work.pop()
            self.decisions = list(prefix)
            self.dpos = 0
            self.conds = []
            self.assumed = []
            self.narrowed = []
            self.steps = 0
            self.sym_memo = {}
            try:
                r = ('ok', fn())
            except PyRaise as e:
                r = ('raise', e)
            out.append((list(self.conds), r))
            for i in range(len(prefix), len(self.decisions)):
                work.append(self.decisions[:i] + [not self.decisions[i]])
            if len(out) + len(work) > max_paths:
                raise CxError('too many symbolic branches')
        return out

    def decide(self, desc):
        i = self.dpos
        self.dpos += 1
        if i >= len(self.decisions):
            self.decisions.append(True)
        v = self.decisions[i]
        self.conds.append((desc, v))
        return v

    # ---- truth and comparison ----------------------------------------------
    def truth(self, v, node=None):
        if isinstance(v, BV):
            c = v.as_const()
            if c is not None:
                return bool(c)
            return self.decide(CondDesc(('truth', repr(v)), v))
        if isinstance(v, Seq):
            return bool(v.items)
        if isinstance(v, (HexCh, SymCh)):
            return True
        if v is CE.UNKNOWN:
            raise CxError('test on an unknown constant')
        if isinstance(v, (Obj, ClassVal, FuncVal, ModVal, Ext, Opaque)):
            return True
        return bool(v)

    def compare(self, op, a, b):
        if isinstance(op, (ast.Is, ast.IsNot)):
            r = a is b or (a is None and b is None) or (
                isinstance(a, (bool, int, ClassVal)) and type(a) is type(b)
                and a == b)
            return r if isinstance(op, ast.Is) else not r
        if isinstance(op, (ast.In, ast.NotIn)):
            r = self.contains(b, a)
            return r if isinstance(op, ast.In) else not r
        if isinstance(a, Obj) or isinstance(b, Obj):
            # user-defined comparison methods
            dunder = {ast.Eq: '__eq__', ast.NotEq: '__ne__', ast.Lt: '__lt__',
                      ast.LtE: '__le__', ast.Gt: '__gt__', ast.GtE: '__ge__'}
            nm = dunder[type(op)]
            for (x, y, n2) in ((a, b, nm), (b, a, {
                    '__lt__': '__gt__', '__gt__': '__lt__',
                    '__le__': '__ge__', '__ge__': '__le__'}.get(nm, nm))):
                if isinstance(x, Obj) and not isinstance(x.cls, StubClass):
                    m = self.model.lookup_method(x.cls, n2)
                    if m is not None:
                        return self.truth(self.call_function(
                            m, [y], {}, bound=x))
                    if n2 == '__ne__':
                        m = self.model.lookup_method(x.cls, '__eq__')
                        if m is not None:
                            return not self.truth(self.call_function(
                                m, [y], {}, bound=x))
            if isinstance(op, ast.Eq):
                return a is b
            if isinstance(op, ast.NotEq):
                return a is not b
            raise CxError('ordering of objects without comparison methods')
        if isinstance(a, BV) or isinstance(b, BV):
            return self.cmp_sym(op, a, b)
        if isinstance(a, (SymCp, SymSel, SymDictVal)) or \
                isinstance(b, (SymCp, SymSel, SymDictVal)):
            if isinstance(op, (ast.Eq, ast.NotEq)) and type(a) is type(b) \
                    and a == b:
                return isinstance(op, ast.Eq)
            if isinstance(op, (ast.Eq, ast.NotEq)):
                cp, other = (a, b) if isinstance(a, SymCp) else (b, a)
                if isinstance(cp, SymCp) and isinstance(other, str) and \
                        len(other) == 1:
                    r = self.cp_equals(cp, other)
                    return r if isinstance(op, ast.Eq) else not r
                if isinstance(cp, SymCp) and isinstance(other, str):
                    return isinstance(op, ast.NotEq)
            raise CxError('comparison of an unknown character / table value')
        if isinstance(a, (HexCh, SymCh)) or isinstance(b, (HexCh, SymCh)):
            if isinstance(op, (ast.Eq, ast.NotEq)):
                if type(a) is type(b):
                    if a == b:
                        return isinstance(op, ast.Eq)
                    raise CxError('comparison of symbolic characters')
                other = b if is_sym(a) else a
                if isinstance(other, int):
                    other = chr(other)
                if isinstance(other, str) and other.lower() in HEXDIGITS and \
                        other != '':
                    raise CxError('comparison of a symbolic digit')
                return isinstance(op, ast.NotEq)
            raise CxError('ordering of symbolic characters')
        if isinstance(a, Seq) or isinstance(b, Seq):
            ia, ib = self.items(a), self.items(b)
            if isinstance(op, (ast.Eq, ast.NotEq)):
                if len(ia) != len(ib):
                    return isinstance(op, ast.NotEq)
                eq = True
                for x, y in zip(ia, ib):
                    if not self.compare(ast.Eq(), x, y):
                        eq = False
                        break
                return eq if isinstance(op, ast.Eq) else not eq
            raise CxError('ordering of symbolic sequences')
        try:
            if isinstance(op, ast.Eq):
                return a == b
            if isinstance(op, ast.NotEq):
                return a != b
            if isinstance(op, ast.Lt):
                return a < b
            if isinstance(op, ast.LtE):
                return a <= b
            if isinstance(op, ast.Gt):
                return a > b
            if isinstance(op, ast.GtE):
                return a >= b
        except TypeError:
            raise PyRaise('TypeError', ('unorderable',))
        raise CxError('comparison operator')

    def cmp_sym(self, op, a, b):
        if isinstance(a, BV) and isinstance(b, BV):
            if a == b and isinstance(op, (ast.Eq, ast.LtE, ast.GtE)):
                return True
            if a == b:
                return False
            return self.decide(('cmp', type(op).__name__, repr(a), repr(b)))
        if isinstance(b, BV):
            flip = {ast.Lt: ast.Gt, ast.LtE: ast.GtE, ast.Gt: ast.Lt,
                    ast.GtE: ast.LtE, ast.Eq: ast.Eq, ast.NotEq: ast.NotEq}
            return self.cmp_sym(flip[type(op)](), b, a)
        if not isinstance(b, int):
            if isinstance(op, ast.Eq):
                return False
            if isinstance(op, ast.NotEq):
                return True
            raise CxError('comparison of a symbolic byte with a non-number')
        # possible value range of a from its known bits
        lo = hi = 0
        for i, c in enumerate(a.cells):
            if c is TOP or not c.is_const():
                hi |= 1 << i
            elif c.const():
                lo |= 1 << i
                hi |= 1 << i
        may_eq = lo <= b <= hi and (b & ~hi) == 0 and (lo & ~b) == 0
        if isinstance(op, ast.Eq) and not may_eq:
            return False
        if isinstance(op, ast.NotEq) and not may_eq:
            return True
        if isinstance(op, ast.Lt):
            if hi < b:
                return True
            if lo >= b:
                return False
        if isinstance(op, ast.LtE):
            if hi <= b:
                return True
            if lo > b:
                return False
        if isinstance(op, ast.Gt):
            if lo > b:
                return True
            if hi <= b:
                return False
        if isinstance(op, ast.GtE):
            if lo >= b:
                return True
            if hi < b:
                return False
        cell = self._cmp_cell(op, a, b)
        if cell is not None:
            # the comparison is a function of a few source bits: decided as
            # a truth test on that bit (rules see the path condition, and the
            # branch can be if-converted)
            if cell.is_const():
                return bool(cell.const())
            t = BV([cell])
            return self.decide(CondDesc(
                ('cmp', type(op).__name__, repr(a), b), t))
        return self.decide(('cmp', type(op).__name__, repr(a), b))

    @staticmethod
    def _cmp_cell(op, a, b):
        """`a <op> b` (bit vector against a number) as one exact cell over
        a's source bits, or None (unknown cells, too many source bits)"""
        from . import symx as SX
        cells = list(a.cells)
        if any(c is TOP for c in cells):
            return None
        vs = sorted({v for c in cells for v in c.vars}, key=repr)
        if len(vs) > SX.MAXV:
            return None
        fn = {ast.Lt: lambda x: x < b, ast.LtE: lambda x: x <= b,
              ast.Gt: lambda x: x > b, ast.GtE: lambda x: x >= b,
              ast.Eq: lambda x: x == b, ast.NotEq: lambda x: x != b}.get(
                  type(op))
        if fn is None:
            return None
        table = 0
        for i in range(1 << len(vs)):
            env = {v: (i >> j) & 1 for j, v in enumerate(vs)}
            x = 0
            for k, c in enumerate(cells):
                x |= SX._eval(c, env) << k
            if fn(x):
                table |= 1 << i
        return SX._simplify(SX.Cell(tuple(vs), table))

    def contains(self, coll, x):
        if isinstance(coll, dict):
            if is_sym(x):
                raise CxError('symbolic dictionary key')
            return x in coll
        if isinstance(coll, range) and isinstance(x, BV) and \
                x.as_const() is None and coll.step == 1:
            # every value of the bit vector lies in the range / none does
            if all(c is not None for c in x.cells):
                hi = (1 << max(x.width, 1)) - 1
                if coll.start <= 0 and hi < coll.stop:
                    return True
                if coll.stop <= 0 or coll.start > hi:
                    return False
        its = self.items(coll)
        if isinstance(coll, (str, bytes)) and not is_sym(x) and \
                not isinstance(x, Seq):
            try:
                return x in coll
            except TypeError:
                raise PyRaise('TypeError', ('in <string> requires string',))
        ck = self.kind_of(coll)
        if ck in ('bytes', 'bytearray', 'str') and \
                self.kind_of(x) in ('bytes', 'bytearray', 'str'):
            return call_method(self, coll, 'find', [x], {}) != -1
        for y in its:
            if self.compare(ast.Eq(), x, y):
                return True
        return False

    # ---- sequences -----------------------------------------------------------
    def items(self, v):
        if isinstance(v, Seq):
            return list(v.items)
        if isinstance(v, (list, tuple)):
            return list(v)
        if isinstance(v, (bytes, bytearray)):
            return list(v)
        if isinstance(v, str):
            return list(v)
        if isinstance(v, range):
            return list(v)
        if isinstance(v, dict):
            return list(v.keys())
        if isinstance(v, (set, frozenset)):
            return sorted(v, key=repr)
        if v is CE.UNKNOWN:
            raise CxError('iteration over an unknown constant')
        if isinstance(v, Opaque):
            if '__iter__' in v.methods:
                return list(v.methods['__iter__'](self, [], {}))
            raise CxError('iteration over {}'.format(v))
        raise PyRaise('TypeError', ('not iterable: ' + type(v).__name__,))

    @staticmethod
    def mk(kind, items):
        items = list(items)
        if kind == 'bytes' and all(isinstance(x, int) and
                                   not isinstance(x, bool) for x in items):
            try:
                return bytes(items)
            except ValueError:
                raise PyRaise('ValueError', ('bytes must be in range(0, 256)',))
        if kind == 'str' and all(isinstance(x, str) for x in items):
            return ''.join(items)
        if kind == 'list':
            return items
        if kind == 'tuple':
            return tuple(items)
        return Seq(kind, items)

    @staticmethod
    def kind_of(v):
        if isinstance(v, Seq):
            return v.kind
        if isinstance(v, bytes):
            return 'bytes'
        if isinstance(v, bytearray):
            return 'bytearray'
        if isinstance(v, str):
            return 'str'
        if isinstance(v, list):
            return 'list'
        if isinstance(v, tuple):
            return 'tuple'
        return None

    def to_byte_items(self, v):
        """elements of `v` as byte values (ints / BV / digit characters)"""
        out = []
        for x in self.items(v):
            if isinstance(x, bool):
                x = int(x)
            if isinstance(x, int):
                if not 0 <= x <= 255:
                    raise PyRaise('ValueError', ('byte out of range',))
            elif isinstance(x, BV):
                if x.width > 8:
                    raise WideByteStore(x)
            elif isinstance(x, (HexCh, SymCh, SymDictVal)):
                pass
            elif isinstance(x, SymSel) and all(
                    isinstance(t, int) for t in x.table):
                pass
            elif isinstance(x, str) and len(x) == 1:
                x = ord(x)
            else:
                raise PyRaise('TypeError', ('cannot convert to bytes',))
            out.append(x)
        return out

    # ---- name resolution -----------------------------------------------------
    def conv(self, v):
        """consteval value -> cx value"""
        if isinstance(v, CE.ClassRef):
            if v.info is not None:
                return ClassVal(v.info)
            raise CxError('dynamic class ' + v.qual)
        if isinstance(v, CE.FuncRef):
            return FuncVal(self.model.func(v.qual))
        if isinstance(v, CE.ModuleRef):
            if v.internal and v.name in self.model.modules:
                return ModVal(self.model.modules[v.name])
            return Ext(v.name)
        if isinstance(v, CE.TList):
            return [self.conv(x) for x in v]
        if isinstance(v, list):
            return [self.conv(x) for x in v]
        if isinstance(v, CE.NTValue):
            return v
        if isinstance(v, tuple):
            return tuple(self.conv(x) for x in v)
        if isinstance(v, bytearray):
            return Seq('bytearray', list(v))
        return v

    def global_name(self, module, name):
        key = (module.name, name)
        if key in self.module_vars:
            return self.module_vars[key]
        if key in self._gcache:
            return self._gcache[key]
        v = self._global_name(module, name)
        if isinstance(v, (ClassVal, FuncVal, ModVal, Ext, int, str, bytes,
                          tuple, frozenset)) and not (
                isinstance(v, FuncVal) and v.bound is not None):
            self._gcache[key] = v
        return v

    def _global_name(self, module, name):
        key = (module.name, name)
        r = self.model.resolve_name(module, name)
        if r is not None:
            if r[0] == 'class':
                return ClassVal(r[1])
            if r[0] == 'func':
                return FuncVal(r[1])
            if r[0] == 'module':
                return ModVal(r[1])
            if r[0] == 'extmodule':
                return Ext(r[1])
            if r[0] == 'extobject':
                return Ext(r[1] + '.' + r[2])
            if r[0] == 'const':
                v = self.consts.module_const(r[1].name, r[2])
                if v is CE.UNKNOWN:
                    v = self._eval_module_assign(r[1], r[2])
                v = self.conv(v)
                if isinstance(v, (list, dict, Seq)):
                    self.module_vars[(r[1].name, r[2])] = v
                return v
        if name in BUILTIN_NAMES:
            return Ext(name)
        if name in EXC_NAMES:
            return Ext(name)
        raise PyRaise('NameError', (name,))

    def _eval_module_assign(self, module, name):
        """a module-level `name = <expr>` the constant evaluator gave up on
        (tables holding lambdas, ...): evaluate the expression here"""
        node = None
        for st in module.tree.body:
            if isinstance(st, ast.Assign) and len(st.targets) == 1 and \
                    isinstance(st.targets[0], ast.Name) and \
                    st.targets[0].id == name:
                node = st
        if node is None:
            raise CxError('module constant {}.{} is not evaluable'.format(
                module.name, name))
        key = (module.name, name)
        if key in self._busy_consts:
            raise CxError('cyclic module constant ' + name)
        self._busy_consts.add(key)
        try:
            return self.ev(node.value, Frame(module, {}))
        finally:
            self._busy_consts.discard(key)

    # ---- calls ---------------------------------------------------------------
    def call_function(self, f, args, kwargs=None, bound=None, closure=None):
        kwargs = dict(kwargs or {})
        if f.qual in self.hooks:
            return self.hooks[f.qual](self, args, kwargs, bound)
        self.depth += 1
        if self.depth > 60:
            raise CxError('call depth')
        try:
            a = f.node.args
            names = [x.arg for x in a.posonlyargs + a.args]
            env = {}
            pos = list(args)
            if bound is not None:
                pos = [bound] + pos
            if len(pos) > len(names) and a.vararg is None:
                raise PyRaise('TypeError', ('too many arguments',))
            for n, v in zip(names, pos):
                env[n] = v
            if a.vararg is not None:
                env[a.vararg.arg] = tuple(pos[len(names):])
            fr = Frame(f.module, env, f, parent=closure)
            defaults = a.defaults
            first_def = len(names) - len(defaults)
            for i, n in enumerate(names):
                if n in env:
                    if n in kwargs:
                        raise PyRaise('TypeError', ('duplicate argument',))
                    continue
                if n in kwargs:
                    env[n] = kwargs.pop(n)
                elif i >= first_def:
                    env[n] = self.ev(defaults[i - first_def], fr)
                else:
                    raise PyRaise('TypeError', ('missing argument ' + n,))
            for k, d in zip(a.kwonlyargs, a.kw_defaults):
                if k.arg in kwargs:
                    env[k.arg] = kwargs.pop(k.arg)
                elif d is not None:
                    env[k.arg] = self.ev(d, fr)
                else:
                    raise PyRaise('TypeError', ('missing argument',))
            if a.kwarg is not None:
                env[a.kwarg.arg] = kwargs
            elif kwargs:
                raise PyRaise('TypeError', ('unexpected keyword argument ' +
                                            sorted(kwargs)[0],))
            gen = _has_yield(f.node)
            if gen:
                fr.yields = []
            try:
                self.block(f.node.body, fr)
            except _Ret as r:
                if gen:
                    return fr.yields
                return r.v
            if gen:
                return fr.yields
            return None
        finally:
            self.depth -= 1

    def instantiate(self, cv, args, kwargs):
        info = cv.info
        o = Obj(info)
        init = self.model.lookup_method(info, '__init__')
        if init is not None:
            self.call_function(init, args, kwargs, bound=o)
        elif any(isinstance(b, str) for c in self.model.mro(info)
                 for b in c.bases):
            o.attrs['args'] = tuple(args)     # exception classes
        return o

    def is_exception_class(self, info):
        for c in self.model.mro(info):
            for b in c.bases:
                if isinstance(b, str) and (b.endswith('Error') or
                                           b.endswith('Exception')):
                    return True
        return False

    def call(self, fn, args, kwargs):
        self.tick()
        if isinstance(fn, FuncVal):
            return self.call_function(fn.info, args, kwargs, bound=fn.bound,
                                      closure=fn.closure)
        if isinstance(fn, ClassVal):
            return self.instantiate(fn, args, kwargs)
        if isinstance(fn, LambdaVal):
            a = fn.node.args
            env = {}
            for n, v in zip([x.arg for x in a.args], args):
                env[n] = v
            fr = Frame(fn.frame.module, env, fn.frame.func, parent=fn.frame)
            return self.ev(fn.node.body, fr)
        if isinstance(fn, BoundBuiltin):
            return call_method(self, fn.recv, fn.name, args, kwargs)
        if isinstance(fn, Ext):
            return call_ext(self, fn.name, args, kwargs)
        if isinstance(fn, CE.NTType):
            return fn(*args, **kwargs)
        if isinstance(fn, CE.ClassRef):
            return self.call(self.conv(fn), args, kwargs)
        raise CxError('call of {}'.format(type(fn).__name__))

    def tick(self):
        self.steps += 1
        if self.steps > self.budget:
            raise CxError('evaluation budget exhausted')

    # ---- attributes ------------------------------------------------------------
    def getattr(self, v, name):
        if isinstance(v, Obj):
            if name in v.attrs:
                return v.attrs[name]
            if name == '__class__':
                return v.cls if isinstance(v.cls, StubClass) \
                    else ClassVal(v.cls)
            if isinstance(v.cls, StubClass):
                raise PyRaise('AttributeError', (name,))
            m = self.model.lookup_method(v.cls, name)
            if m is not None:
                if m.is_classmethod:
                    return FuncVal(m, bound=ClassVal(v.cls))
                if 'staticmethod' in m.decorators:
                    return FuncVal(m)
                if m.is_property:
                    return self.call_function(m, [], {}, bound=v)
                return FuncVal(m, bound=v)
            return self.class_attr(v.cls, name)
        if isinstance(v, ClassVal):
            m = self.model.lookup_method(v.info, name)
            if m is not None:
                if m.is_classmethod:
                    return FuncVal(m, bound=v)
                return FuncVal(m)
            if name == '__name__':
                return v.info.name
            return self.class_attr(v.info, name)
        if isinstance(v, ModVal):
            return self.global_name(v.module, name)
        if isinstance(v, Ext):
            full = v.name + '.' + name
            if full in self.ext_consts:
                return self.ext_consts[full]
            return Ext(full)
        if isinstance(v, CE.NTValue):
            try:
                return self.conv(getattr(v, name))
            except AttributeError:
                raise PyRaise('AttributeError', (name,))
        if isinstance(v, CE.Instance):
            raise CxError('attribute of a module-level instance')
        if isinstance(v, SymSel):
            return SymSel([self.getattr(x, name) for x in v.table], v.index)
        if isinstance(v, Opaque):
            if name in v.attrs:
                return v.attrs[name]
            if name in v.methods:
                return BoundBuiltin(v, name)
            raise CxError('attribute {} of {}'.format(name, v))
        if isinstance(v, PyRaise) and name == 'args':
            return tuple(v.args_)
        if v is CE.UNKNOWN:
            raise CxError('attribute of an unknown constant')
        if isinstance(v, slice) and name in ('start', 'stop', 'step'):
            return getattr(v, name)
        return BoundBuiltin(v, name)

    def class_attr(self, info, name):
        try:
            v = self.consts.class_const(info, name)
        except AnalysisError:
            raise PyRaise('AttributeError', (name,))
        if v is CE.UNKNOWN:
            raise CxError('class constant {}.{} is not evaluable'.format(
                info.name, name))
        return self.conv(v)

    # ---- statements ------------------------------------------------------------
    def block(self, stmts, fr):
        for st in stmts:
            self.stmt(st, fr)

    def stmt(self, st, fr):
        self.tick()
        if isinstance(st, ast.Expr):
            self.ev(st.value, fr)
        elif isinstance(st, ast.Assign):
            v = self.ev(st.value, fr)
            for t in st.targets:
                self.assign(t, v, fr)
        elif isinstance(st, ast.AnnAssign):
            if st.value is not None:
                self.assign(st.target, self.ev(st.value, fr), fr)
        elif isinstance(st, ast.AugAssign):
            cur = self.ev(_as_load(st.target), fr)
            rhs = self.ev(st.value, fr)
            if isinstance(st.op, ast.Add) and isinstance(cur, list):
                cur.extend(self.items(rhs))
                return
            if isinstance(st.op, ast.Add) and isinstance(cur, Seq) and \
                    cur.kind == 'bytearray':
                cur.items.extend(self.to_byte_items(rhs))
                return
            self.assign(st.target, self.binop(st.op, cur, rhs), fr)
        elif isinstance(st, ast.If):
            t = self.ev(st.test, fr)
            if isinstance(t, BV) and t.as_const() is None and \
                    self._mergeable(st) and self._merge_if(st, t, fr):
                return
            if self.truth(t):
                self.block(st.body, fr)
            else:
                self.block(st.orelse, fr)
        elif isinstance(st, ast.For):
            seq = self.items(self.ev(st.iter, fr))
            broke = False
            for x in seq:
                self.tick()
                self.assign(st.target, x, fr)
                try:
                    self.block(st.body, fr)
                except _Brk:
                    broke = True
                    break
                except _Cont:
                    continue
            if not broke:
                self.block(st.orelse, fr)
        elif isinstance(st, ast.While):
            broke = False
            while self.truth(self.ev(st.test, fr)):
                self.tick()
                try:
                    self.block(st.body, fr)
                except _Brk:
                    broke = True
                    break
                except _Cont:
                    continue
            if not broke:
                self.block(st.orelse, fr)
        elif isinstance(st, ast.Return):
            raise _Ret(self.ev(st.value, fr) if st.value is not None
                       else None)
        elif isinstance(st, ast.Pass):
            pass
        elif isinstance(st, ast.Break):
            raise _Brk()
        elif isinstance(st, ast.Continue):
            raise _Cont()
        elif isinstance(st, ast.Assert):
            self.do_assert(st, fr)
        elif isinstance(st, ast.Raise):
            if st.exc is None:
                cur = getattr(fr, 'handling', None)
                if cur is None:
                    raise CxError('bare raise outside a handler')
                raise cur
            e = self.ev(st.exc, fr)
            raise self.to_raise(e)
        elif isinstance(st, ast.Try):
            self.do_try(st, fr)
        elif isinstance(st, ast.With):
            for it in st.items:
                v = self.ev(it.context_expr, fr)
                if it.optional_vars is not None:
                    self.assign(it.optional_vars, v, fr)
            self.block(st.body, fr)
        elif isinstance(st, ast.Delete):
            for t in st.targets:
                self.delete(t, fr)
        elif isinstance(st, ast.FunctionDef):
            fi = self.nested_func(fr, st)
            fr.env[st.name] = FuncVal(fi, closure=fr)
        elif isinstance(st, ast.Global):
            fr.globals_.update(st.names)
        elif isinstance(st, ast.Import):
            for a in st.names:
                top = a.name.split('.')[0]
                if top in self.model.modules or a.name in self.model.modules:
                    raise CxError('import of a package module inside a '
                                  'function')
                fr.env[a.asname or top] = Ext(a.name if a.asname else top)
        elif isinstance(st, ast.ImportFrom):
            if st.level or (st.module or '').split('.')[0] == 'pico8':
                raise CxError('import of a package module inside a function')
            for a in st.names:
                fr.env[a.asname or a.name] = Ext(st.module + '.' + a.name)
        elif isinstance(st, ast.ClassDef):
            from ..srcmodel import ClassInfo
            info = ClassInfo(fr.module, st)
            fr.env[st.name] = ClassVal(info)
        else:
            raise CxError('statement outside the model: ' +
                          type(st).__name__)

    def nested_func(self, fr, node):
        from ..srcmodel import FuncInfo
        return FuncInfo(fr.module, node, None, fr.func)

    def to_raise(self, e):
        if isinstance(e, PyRaise):
            return e
        if isinstance(e, Obj):
            return PyRaise(e.cls.name, e.attrs.get('args', ()), cls=e.cls)
        if isinstance(e, ClassVal):
            return PyRaise(e.info.name, (), cls=e.info)
        if isinstance(e, Ext):
            return PyRaise(e.name.split('.')[-1], ())
        raise CxError('raise of a non-exception')

    def do_assert(self, st, fr):
        """an assertion on symbolic content is an assumption about the input
        (documented argument range); `0 <= v <= 2**k-1` narrows v"""
        t = st.test
        if isinstance(t, ast.Compare) and len(t.ops) == 2 and \
                all(isinstance(o, (ast.LtE, ast.Lt)) for o in t.ops):
            lo = self.ev(t.left, fr)
            mid = self.ev(t.comparators[0], fr)
            hi = self.ev(t.comparators[1], fr)
            if isinstance(mid, BV) and isinstance(lo, int) and \
                    isinstance(hi, int):
                top = hi if isinstance(t.ops[1], ast.LtE) else hi - 1
                self.assumed.append((ast.unparse(t), repr(mid)))
                if all(c is not None for c in mid.cells) and \
                        top < (1 << max(mid.width, 1)) - 1 and not (
                            lo <= 0 and top >= 0 and (top + 1) & top == 0):
                    # the value can exceed the asserted bound (not a
                    # power-of-two range, handled below): whose bits decide
                    srcs = set()
                    for c in mid.cells:
                        for v in c.vars:
                            srcs.add(v[0][0] if isinstance(v[0], tuple)
                                     else v[0])
                    self.narrowed.append((ast.unparse(t), sorted(
                        map(str, srcs))))
                if lo <= 0 and top >= 0 and (top + 1) & top == 0 and \
                        isinstance(t.comparators[0], ast.Name):
                    k = top.bit_length()
                    dropped = [c for c in mid.cells[k:]
                               if c is None or not (c.is_const() and
                                                    c.const() == 0)]
                    if dropped:
                        # bits above the asserted range that are not known
                        # to be 0: which sources they come from decides
                        # whether this is an assumption about an argument or
                        # an assertion the code can fail by itself
                        srcs = set()
                        for c in dropped:
                            for v in (c.vars if c is not None else ()):
                                srcs.add(v[0][0] if isinstance(v[0], tuple)
                                         else v[0])
                        self.narrowed.append((ast.unparse(t), sorted(
                            map(str, srcs))))
                    fr.env[t.comparators[0].id] = _norm(
                        BV(mid.cells[:k] or [ZERO]))
                return
            if isinstance(mid, BV) or isinstance(lo, BV) or \
                    isinstance(hi, BV):
                self.assumed.append((ast.unparse(t), repr(mid)))
                return
            ok = self.compare(t.ops[0], lo, mid) and \
                self.compare(t.ops[1], mid, hi)
        else:
            dp = self.dpos
            v = self.ev(t, fr)
            if isinstance(v, BV) and v.as_const() is None:
                self.assumed.append((ast.unparse(t), repr(v)))
                return
            if self.dpos != dp:
                # the test forked on symbolic content: the assertion is an
                # assumption about the input, the failing branch is dropped
                self.assumed.append((ast.unparse(t), 'symbolic'))
                if not self.truth(v):
                    raise PyRaise('AssertionError', ('assumed away',))
                return
            ok = self.truth(v)
        if not ok:
            raise PyRaise('AssertionError', (ast.unparse(st.test)[:60],))

    def do_try(self, st, fr):
        try:
            try:
                self.block(st.body, fr)
            except PyRaise as e:
                for h in st.handlers:
                    if self.handler_matches(h, e, fr):
                        if h.name:
                            fr.env[h.name] = e
                        old = getattr(fr, 'handling', None)
                        fr.handling = e
                        try:
                            self.block(h.body, fr)
                        finally:
                            fr.handling = old
                        break
                else:
                    raise
            else:
                self.block(st.orelse, fr)
        finally:
            if st.finalbody:
                self.block(st.finalbody, fr)

    def handler_matches(self, h, e, fr):
        if h.type is None:
            return True
        types = h.type.elts if isinstance(h.type, ast.Tuple) else [h.type]
        for t in types:
            tv = self.ev(t, fr)
            if isinstance(tv, Ext):
                nm = tv.name.split('.')[-1]
                if nm in ('Exception', 'BaseException') or nm == e.tname:
                    return True
                if nm == 'LookupError' and e.tname in ('IndexError',
                                                       'KeyError'):
                    return True
                if nm == 'ArithmeticError' and e.tname == 'ZeroDivisionError':
                    return True
            elif isinstance(tv, ClassVal):
                if e.cls is not None and tv.info in self.model.mro(e.cls):
                    return True
        return False

    def delete(self, t, fr):
        if isinstance(t, ast.Name):
            fr.env.pop(t.id, None)
            return
        if isinstance(t, ast.Subscript):
            base = self.ev(t.value, fr)
            idx = self.ev_index(t.slice, fr)
            if isinstance(base, dict):
                base.pop(idx, None)
                return
            tgt = base.items if isinstance(base, Seq) else base
            if isinstance(tgt, list):
                del tgt[idx]
                return
        raise CxError('del target')

    def assign(self, t, v, fr):
        if isinstance(t, ast.Name):
            if t.id in fr.globals_:
                self.module_vars[(fr.module.name, t.id)] = v
            else:
                fr.env[t.id] = v
            return
        if isinstance(t, (ast.Tuple, ast.List)):
            its = self.items(v)
            star = [i for i, e in enumerate(t.elts)
                    if isinstance(e, ast.Starred)]
            if star:
                i = star[0]
                after = len(t.elts) - i - 1
                if len(its) < len(t.elts) - 1:
                    raise PyRaise('ValueError', ('not enough values',))
                for e, x in zip(t.elts[:i], its[:i]):
                    self.assign(e, x, fr)
                self.assign(t.elts[i].value, its[i:len(its) - after], fr)
                for e, x in zip(t.elts[i + 1:], its[len(its) - after:]):
                    self.assign(e, x, fr)
                return
            if len(its) != len(t.elts):
                raise PyRaise('ValueError', ('unpack: expected {} values, got '
                                             '{}'.format(len(t.elts),
                                                         len(its)),))
            for e, x in zip(t.elts, its):
                self.assign(e, x, fr)
            return
        if isinstance(t, ast.Attribute):
            o = self.ev(t.value, fr)
            if isinstance(o, Obj):
                m = self.model.lookup_method(o.cls, t.attr)
                if m is not None and m.is_property:
                    for c in self.model.mro(o.cls):
                        for fi in self.model.functions.values():
                            if fi.cls is c and fi.name == t.attr and \
                                    'setter' in fi.decorators:
                                self.call_function(fi, [v], {}, bound=o)
                                return
                o.attrs[t.attr] = v
                return
            raise CxError('attribute store on {}'.format(type(o).__name__))
        if isinstance(t, ast.Subscript):
            base = self.ev(t.value, fr)
            if isinstance(t.slice, ast.Slice):
                lo, hi, stp = self.ev_slice(t.slice, fr)
                tgt = base.items if isinstance(base, Seq) else base
                if not isinstance(tgt, list):
                    raise PyRaise('TypeError', ('slice store',))
                new = self.items(v)
                if isinstance(base, Seq):
                    new = self.to_byte_items(v)
                tgt[slice(lo, hi, stp)] = new
                return
            idx = self.ev(t.slice, fr)
            if isinstance(idx, slice):
                tgt = base.items if isinstance(base, Seq) else base
                if not isinstance(tgt, list):
                    raise PyRaise('TypeError', ('slice store',))
                new = self.to_byte_items(v) if isinstance(base, Seq) \
                    else self.items(v)
                tgt[idx] = new
                return
            if isinstance(base, dict):
                if is_sym(idx):
                    raise CxError('symbolic dictionary key')
                base[idx] = v
                return
            if is_sym(idx):
                raise CxError('store at a symbolic index')
            if isinstance(base, Seq):
                if base.kind != 'bytearray':
                    raise PyRaise('TypeError', ('item assignment',))
                v2 = self.to_byte_items([v])[0]
                try:
                    base.items[idx] = v2
                except IndexError:
                    raise PyRaise('IndexError', ('assignment index out of '
                                                 'range',))
                return
            if isinstance(base, list):
                try:
                    base[idx] = v
                except IndexError:
                    raise PyRaise('IndexError', ('assignment index out of '
                                                 'range',))
                return
            raise PyRaise('TypeError', ('item assignment on ' +
                                        type(base).__name__,))
        if isinstance(t, ast.Starred):
            raise CxError('starred target')
        raise CxError('assignment target')

    # ---- expressions -----------------------------------------------------------
    def ev_index(self, s, fr):
        if isinstance(s, ast.Slice):
            return slice(*self.ev_slice(s, fr))
        return self.ev(s, fr)

    def ev_slice(self, s, fr):
        out = []
        for p in (s.lower, s.upper, s.step):
            v = self.ev(p, fr) if p is not None else None
            if isinstance(v, BV):
                raise CxError('slice bound depends on symbolic content')
            if isinstance(v, bool):
                v = int(v)
            out.append(v)
        return out

    def ev(self, e, fr):
        self.steps += 1
        m = self._disp.get(type(e))
        if m is None:
            m = getattr(self, 'e_' + type(e).__name__, None)
            if m is None:
                raise CxError('expression outside the model: ' +
                              type(e).__name__)
            self._disp[type(e)] = m
        return m(e, fr)

    def e_Constant(self, e, fr):
        return e.value

    def e_Name(self, e, fr):
        if fr.has(e.id) and e.id not in fr.globals_:
            return fr.lookup(e.id)
        return self.global_name(fr.module, e.id)

    def e_Attribute(self, e, fr):
        return self.getattr(self.ev(e.value, fr), e.attr)

    def e_Tuple(self, e, fr):
        return tuple(self.elts(e.elts, fr))

    def e_List(self, e, fr):
        return self.elts(e.elts, fr)

    def e_Set(self, e, fr):
        return set(self.elts(e.elts, fr))

    def elts(self, elts, fr):
        out = []
        for x in elts:
            if isinstance(x, ast.Starred):
                out.extend(self.items(self.ev(x.value, fr)))
            else:
                out.append(self.ev(x, fr))
        return out

    def e_Dict(self, e, fr):
        d = {}
        for k, v in zip(e.keys, e.values):
            if k is None:
                d.update(self.ev(v, fr))
            else:
                d[self.ev(k, fr)] = self.ev(v, fr)
        return d

    def e_IfExp(self, e, fr):
        t = self.ev(e.test, fr)
        if isinstance(t, BV) and t.as_const() is None and \
                self._simple_value(e.body) and self._simple_value(e.orelse):
            # `a if <symbolic> else b` over plain numbers: a per-bit
            # if-then-else instead of two runs
            a = self.ev(e.body, fr)
            b = self.ev(e.orelse, fr)
            if isinstance(a, (int, BV)) and isinstance(b, (int, BV)) and \
                    not isinstance(a, bool) and not isinstance(b, bool) and \
                    (isinstance(a, BV) or a >= 0) and \
                    (isinstance(b, BV) or b >= 0):
                from .symx import c_ite
                cond = t.any_set()
                A, B = _bv(a), _bv(b)
                n = max(len(A.cells), len(B.cells))
                return _norm(BV([c_ite(cond, A.cell(k), B.cell(k))
                                 for k in range(n)]).trimmed())
            return a if self.truth(t) else b
        if self.truth(t):
            return self.ev(e.body, fr)
        return self.ev(e.orelse, fr)

    def _mergeable(self, st):
        """both branches only (re)bind locals / store into local sequences
        from call-free expressions: they can be run one after the other and
        the results joined bit by bit (if-conversion) instead of forking"""
        def simple_target(t):
            if isinstance(t, ast.Name):
                return True
            if isinstance(t, (ast.Tuple, ast.List)):
                return all(simple_target(x) for x in t.elts)
            if isinstance(t, ast.Subscript):
                return isinstance(t.value, ast.Name) and \
                    self._simple_value(t.slice)
            return False
        for b in list(st.body) + list(st.orelse):
            if isinstance(b, ast.Pass):
                continue
            if isinstance(b, ast.Assign):
                if not all(simple_target(t) for t in b.targets) or \
                        not self._simple_value(b.value):
                    return False
            elif isinstance(b, ast.AugAssign):
                if not simple_target(b.target) or \
                        not self._simple_value(b.value):
                    return False
            elif isinstance(b, ast.Assert):
                if not self._simple_value(b.test):
                    return False
            else:
                return False
        return True

    def _merge_if(self, st, t, fr):
        from .symx import c_ite
        env0 = dict(fr.env)
        tracked = {}
        for v in fr.env.values():
            if isinstance(v, Seq):
                tracked[id(v)] = (v, list(v.items))
            elif isinstance(v, list):
                tracked[id(v)] = (v, list(v))
        dstate = (len(self.decisions), self.dpos, len(self.conds),
                  len(self.assumed))

        def restore():
            fr.env.clear()
            fr.env.update(env0)
            for (obj, items) in tracked.values():
                if isinstance(obj, Seq):
                    obj.items[:] = items
                else:
                    obj[:] = items

        def contents():
            return {k: list(o.items if isinstance(o, Seq) else o)
                    for k, (o, _i) in tracked.items()}

        def give_up():
            restore()
            del self.decisions[dstate[0]:]
            self.dpos = dstate[1]
            del self.conds[dstate[2]:]
            del self.assumed[dstate[3]:]
            return False
        try:
            self.block(st.body, fr)
            env_a, seq_a = dict(fr.env), contents()
            restore()
            self.block(st.orelse, fr)
            env_b, seq_b = dict(fr.env), contents()
            restore()
        except (AnalysisError, PyRaise, _Brk, _Cont, _Ret):
            return give_up()
        if self.dpos != dstate[1]:
            return give_up()
        if set(env_a) != set(env_b):
            # a local bound in one branch only: harmless when nothing
            # outside the `if` reads it
            one_sided = set(env_a) ^ set(env_b)
            inside = {id(x) for x in ast.walk(st)}
            fnode = getattr(fr.func, 'node', None)
            if fnode is None or any(
                    isinstance(x, ast.Name) and x.id in one_sided and
                    isinstance(x.ctx, ast.Load) and id(x) not in inside
                    for x in ast.walk(fnode)):
                return give_up()
            for k in one_sided:
                env_a.pop(k, None)
                env_b.pop(k, None)
        cond = t.any_set()
        if cond is None:
            return give_up()

        def join(a, b):
            if a is b:
                return a
            if isinstance(a, (int, BV)) and isinstance(b, (int, BV)) and \
                    not isinstance(a, bool) and not isinstance(b, bool) and \
                    (isinstance(a, BV) or a >= 0) and \
                    (isinstance(b, BV) or b >= 0):
                if not isinstance(a, BV) and not isinstance(b, BV) and a == b:
                    return a
                A, B = _bv(a), _bv(b)
                n = max(len(A.cells), len(B.cells))
                cells = [c_ite(cond, A.cell(k), B.cell(k)) for k in range(n)]
                if any(c is None for c in cells):
                    raise CxError('join too wide')
                return _norm(BV(cells).trimmed())
            if type(a) is type(b) and isinstance(a, (bool, str, bytes,
                                                     type(None))) and a == b:
                return a
            raise CxError('join of unlike values')
        try:
            env_m = {k: join(env_a[k], env_b[k]) for k in env_a}
            seq_m = {}
            for k in tracked:
                if len(seq_a[k]) != len(seq_b[k]):
                    raise CxError('join of sequences of different length')
                seq_m[k] = [join(x, y) for x, y in zip(seq_a[k], seq_b[k])]
        except CxError:
            return give_up()
        fr.env.clear()
        fr.env.update(env_m)
        for k, (obj, _i) in tracked.items():
            if isinstance(obj, Seq):
                obj.items[:] = seq_m[k]
            else:
                obj[:] = seq_m[k]
        return True

    @staticmethod
    def _simple_value(e):
        """no calls, no side effects: safe to evaluate both branches"""
        for x in ast.walk(e):
            if isinstance(x, (ast.Yield, ast.YieldFrom, ast.NamedExpr,
                              ast.Await)):
                return False
            if isinstance(x, ast.Call) and not (
                    isinstance(x.func, ast.Name) and
                    x.func.id in ('range', 'len', 'min', 'max', 'abs',
                                  'bool') and not x.keywords):
                return False
        return True

    def e_BoolOp(self, e, fr):
        v = None
        for x in e.values:
            v = self.ev(x, fr)
            t = self.truth(v)
            if isinstance(e.op, ast.And) and not t:
                return v
            if isinstance(e.op, ast.Or) and t:
                return v
        return v

    def e_UnaryOp(self, e, fr):
        v = self.ev(e.operand, fr)
        if isinstance(e.op, ast.Not):
            return not self.truth(v)
        if isinstance(v, BV):
            if isinstance(e.op, ast.Invert):
                raise CxError('~ of a symbolic value outside a mask')
            raise CxError('unary operator on a symbolic value')
        if isinstance(e.op, ast.USub):
            return -v
        if isinstance(e.op, ast.UAdd):
            return +v
        if isinstance(e.op, ast.Invert):
            return ~v
        raise CxError('unary operator')

    def e_Compare(self, e, fr):
        left = self.ev(e.left, fr)
        for op, c in zip(e.ops, e.comparators):
            right = self.ev(c, fr)
            if not self.compare(op, left, right):
                return False
            left = right
        return True

    def e_BinOp(self, e, fr):
        # (x & ~mask): keep the inversion symbolic-friendly
        a = self.ev(e.left, fr)
        b = self.ev(e.right, fr)
        return self.binop(e.op, a, b)

    def binop(self, op, a, b):
        if isinstance(a, bool):
            a = int(a)
        if isinstance(b, bool):
            b = int(b)
        if isinstance(a, BV) or isinstance(b, BV):
            if isinstance(op, ast.Mod) and isinstance(a, (str, bytes)):
                return self.percent_format(a, b)
            if isinstance(a, (int, BV)) and isinstance(b, (int, BV)):
                return bit_binop(op, a, b)
            if isinstance(op, ast.Mult) and isinstance(a, (list, tuple, Seq,
                                                           bytes, str)):
                raise CxError('repetition by a symbolic count')
            raise CxError('operator on symbolic value and {}'.format(
                type(a if not isinstance(a, BV) else b).__name__))
        ka, kb = self.kind_of(a), self.kind_of(b)
        if isinstance(op, ast.Add) and ka and kb:
            if isinstance(a, Seq) or isinstance(b, Seq):
                if ka in ('bytes', 'bytearray') and kb in ('bytes',
                                                            'bytearray'):
                    return self.mk(ka, self.items(a) + self.items(b)) \
                        if ka == 'bytes' else Seq('bytearray',
                                                  self.items(a) +
                                                  self.items(b))
                if ka == 'str' and kb == 'str':
                    return self.mk('str', self.items(a) + self.items(b))
                raise PyRaise('TypeError', ('concatenation',))
            if ka == 'bytearray' or kb == 'bytearray':
                return Seq('bytearray', self.items(a) + self.items(b))
        if isinstance(op, ast.Mult) and (isinstance(a, Seq) or
                                         isinstance(b, Seq)):
            s, n = (a, b) if isinstance(a, Seq) else (b, a)
            if not isinstance(n, int):
                raise PyRaise('TypeError', ('repetition',))
            return self.mk(s.kind, s.items * n)
        if isinstance(op, ast.Mod) and isinstance(a, (str, bytes)):
            return self.percent_format(a, b)
        if isinstance(a, (HexCh, SymCh)) or isinstance(b, (HexCh, SymCh)):
            raise CxError('arithmetic on a symbolic character')
        for x in (a, b):
            if isinstance(x, (Obj, ClassVal, FuncVal, ModVal, Ext)) or \
                    x is CE.UNKNOWN:
                raise CxError('operator on {}'.format(type(x).__name__))
        try:
            return _PYOPS[type(op)](a, b)
        except ZeroDivisionError:
            raise PyRaise('ZeroDivisionError', ())
        except TypeError as ex:
            raise PyRaise('TypeError', (str(ex),))
        except KeyError:
            raise CxError('binary operator')

    def percent_format(self, fmt, arg):
        def concrete(v):
            if isinstance(v, (bool, int, float, str, bytes, type(None))):
                return True
            if isinstance(v, tuple):
                return all(concrete(x) for x in v)
            return False
        if concrete(arg):
            # Python's own operator: exact for str and for bytes templates
            try:
                return fmt % arg
            except (TypeError, ValueError) as ex:
                raise PyRaise(type(ex).__name__, (str(ex),))
        isb = isinstance(fmt, bytes)
        f = fmt.decode('latin-1') if isb else fmt
        args = list(arg) if isinstance(arg, tuple) else [arg]
        out = []
        i = 0
        while i < len(f):
            if f[i] != '%':
                out.append(f[i])
                i += 1
                continue
            j = i + 1
            while j < len(f) and f[j] in '0123456789#- +.':
                j += 1
            spec, conv = f[i + 1:j], f[j]
            i = j + 1
            if conv == '%':
                out.append('%')
                continue
            if not args:
                raise PyRaise('TypeError', ('not enough arguments',))
            a = args.pop(0)
            out.extend(self.format_value(a, spec + conv))
        r = self.mk('str', out)
        if isb:
            return call_method(self, r, 'encode', ['latin-1'], {})
        return r

    def format_value(self, v, spec):
        """list of characters"""
        if isinstance(v, bool):
            v = int(v)
        if isinstance(v, BV):
            if spec in ('02x', '02X') and v.width <= 8:
                return [HexCh(_bv(v).shr(4) & BV.const(15)), HexCh(
                    _bv(v) & BV.const(15))]
            if spec in ('x', '1x', '01x') and v.width <= 4:
                return [HexCh(v)]
            if spec in ('02x',) and v.width > 8:
                raise CxError('formatting a value wider than a byte')
            raise CxError('format spec {!r} on a symbolic value'.format(spec))
        if isinstance(v, (Seq, HexCh, SymCh)):
            if spec in ('', 's'):
                return self.items(v) if isinstance(v, Seq) else [v]
            raise CxError('format of a symbolic string')
        try:
            return list(format(v, spec))
        except (ValueError, TypeError) as ex:
            try:
                return list(('%' + spec) % v)
            except Exception:
                raise PyRaise('ValueError', (str(ex),))

    def e_Subscript(self, e, fr):
        base = self.ev(e.value, fr)
        if isinstance(e.slice, ast.Slice):
            lo, hi, stp = self.ev_slice(e.slice, fr)
            k = self.kind_of(base)
            if k is None:
                raise PyRaise('TypeError', ('not subscriptable',))
            if not isinstance(base, Seq):
                return base[slice(lo, hi, stp)]
            return self.mk(k, base.items[slice(lo, hi, stp)])
        idx = self.ev(e.slice, fr)
        return self.index(base, idx)

    def index(self, base, idx):
        if isinstance(idx, bool):
            idx = int(idx)
        if isinstance(idx, slice):
            for b in (idx.start, idx.stop, idx.step):
                if isinstance(b, BV):
                    raise CxError('slice bound depends on symbolic content')
            k = self.kind_of(base)
            if k is None:
                raise PyRaise('TypeError', ('not subscriptable',))
            if not isinstance(base, Seq):
                return base[idx]
            return self.mk(k, base.items[idx])
        if isinstance(idx, BV):
            if isinstance(base, (list, tuple, bytes, str)) or (
                    isinstance(base, Seq)):
                its = self.items(base)
                if all(isinstance(x, int) for x in its) and len(its) >= (
                        1 << idx.width):
                    return table_lookup(its, idx)
                if isinstance(base, (list, tuple)) and len(its) >= (
                        1 << idx.width) and not any(
                            is_sym(x) or isinstance(x, Seq) for x in its):
                    return SymSel(its, idx)
            if isinstance(base, dict):
                raise CxError('symbolic dictionary key')
            raise CxError('symbolic index')
        if isinstance(base, dict):
            k = self.sym_key(idx)
            if k is not None:
                return self.dict_lookup_sym(base, k)
            try:
                return base[idx]
            except KeyError:
                raise PyRaise('KeyError', (idx,))
            except TypeError:
                raise CxError('unhashable key')
        if isinstance(base, Seq):
            try:
                x = base.items[idx]
            except IndexError:
                raise PyRaise('IndexError', ('index out of range',))
            except TypeError:
                raise PyRaise('TypeError', ('indices must be integers',))
            if base.kind == 'str':
                return x if isinstance(x, str) else Seq('str', [x])
            return x
        if isinstance(base, (list, tuple, bytes, bytearray, str, range)):
            try:
                return base[idx]
            except IndexError:
                raise PyRaise('IndexError', ('index out of range',))
            except TypeError:
                raise PyRaise('TypeError', ('indices must be integers',))
        if base is CE.UNKNOWN:
            raise CxError('subscript of an unknown constant')
        raise PyRaise('TypeError', ('not subscriptable: ' +
                                    type(base).__name__,))

    def sum_of_comprehension(self, comp, fr, start=0):
        """sum(<elt> for ... if <cond>) where a filter depends on symbolic
        content: each element contributes `elt if cond else 0` bit-wise"""
        from .symx import c_and, c_ite
        acc = [start]

        def rec(i, f, cond):
            if i == len(comp.generators):
                v = self.ev(comp.elt, f)
                if cond is not None:
                    if not isinstance(v, (int, BV)) or isinstance(v, bool) \
                            or (isinstance(v, int) and v < 0):
                        raise CxError('conditional sum of a non-number')
                    V = _bv(v)
                    v = _norm(BV([c_ite(cond, V.cell(k), ZERO)
                                  for k in range(len(V.cells))]).trimmed())
                acc[0] = self.binop(ast.Add(), acc[0], v)
                return
            g = comp.generators[i]
            for x in self.items(self.ev(g.iter, f)):
                self.tick()
                self.assign(g.target, x, f)
                c2 = cond
                skip = False
                for c in g.ifs:
                    t = self.ev(c, f)
                    if isinstance(t, BV) and t.as_const() is None:
                        cell = t.any_set()
                        c2 = cell if c2 is None else c_and(c2, cell)
                    elif not self.truth(t):
                        skip = True
                        break
                if not skip:
                    rec(i + 1, f, c2)
        rec(0, Frame(fr.module, {}, fr.func, parent=fr), None)
        return acc[0]

    def cp_equals(self, cp, ch):
        """is the unknown code point `cp` the character `ch`?  decided once
        per path (a code point that was found equal to one character differs
        from every other)"""
        known = self.sym_memo.setdefault('cp', {})
        if cp.name in known and known[cp.name][0] == 'is':
            return known[cp.name][1] == ch
        neq = known.setdefault(cp.name, ('not', set()))
        if neq[0] == 'not' and ch in neq[1]:
            return False
        if self.decide(('code point', cp.name, 'is', ch)):
            known[cp.name] = ('is', ch)
            return True
        known[cp.name][1].add(ch)
        return False

    def cp_value(self, x):
        """the character an unknown code point was decided to be, else x"""
        if isinstance(x, SymCp):
            k = self.sym_memo.get('cp', {}).get(x.name)
            if k and k[0] == 'is':
                return k[1]
        return x

    @staticmethod
    def sym_key(idx):
        """tuple of items when idx is a text key made of unknown code points
        (a SymCp or a str Seq containing one), else None"""
        if isinstance(idx, SymCp):
            return (idx,)
        if isinstance(idx, Seq) and idx.kind == 'str' and any(
                isinstance(x, SymCp) for x in idx.items):
            return tuple(idx.items)
        return None

    def dict_lookup_sym(self, d, key):
        key = tuple(self.cp_value(x) for x in key)
        if all(isinstance(x, str) for x in key):
            k = ''.join(key)
            if k in d:
                return d[k]
            raise PyRaise('KeyError', (k,))
        mk = (id(d), key)
        if mk in self.sym_memo:
            r = self.sym_memo[mk]
            if isinstance(r, PyRaise):
                raise r
            return r
        try:
            r = self._dict_lookup_sym(d, key)
        except PyRaise as e:
            self.sym_memo[mk] = e
            raise
        self.sym_memo[mk] = r
        return r

    def _dict_lookup_sym(self, d, key):
        vals = []
        for v in d.values():
            if not any(v is x or (type(v) is type(x) and v == x)
                       for x in vals):
                vals.append(v)
        if len(vals) > 4:
            self.assumed.append(('key present', repr(key)))
            return SymDictVal(d, key)
        for v in vals:
            if self.decide(('dict value', id(d), repr(key), repr(v))):
                return v
        raise PyRaise('KeyError', (repr(key),))

    def e_Call(self, e, fr):
        if isinstance(e.func, ast.Name) and e.func.id == 'sum' and \
                not fr.has('sum') and len(e.args) in (1, 2) and \
                isinstance(e.args[0], (ast.GeneratorExp, ast.ListComp)) \
                and not e.keywords and any(
                    g.ifs for g in e.args[0].generators):
            start = self.ev(e.args[1], fr) if len(e.args) == 2 else 0
            return self.sum_of_comprehension(e.args[0], fr, start)
        fn = self.ev(e.func, fr)
        args = []
        for a in e.args:
            if isinstance(a, ast.Starred):
                args.extend(self.items(self.ev(a.value, fr)))
            else:
                args.append(self.ev(a, fr))
        kwargs = {}
        for k in e.keywords:
            if k.arg is None:
                kwargs.update(self.ev(k.value, fr))
            else:
                kwargs[k.arg] = self.ev(k.value, fr)
        if isinstance(fn, Ext) and fn.name == 'super':
            return self.do_super(fr)
        return self.call(fn, args, kwargs)

    def do_super(self, fr):
        f = fr
        while f is not None and (f.func is None or f.func.cls is None):
            f = f.parent
        if f is None:
            raise CxError('super() outside a method')
        selfv = f.env.get(f.func.params()[0])
        return _Super(f.func.cls, selfv)

    def e_Lambda(self, e, fr):
        return LambdaVal(e, fr)

    def e_Yield(self, e, fr):
        f = fr
        while f is not None and f.yields is None:
            f = f.parent
        if f is None:
            raise CxError('yield outside a generator')
        f.yields.append(self.ev(e.value, fr) if e.value is not None else None)
        return None

    def e_YieldFrom(self, e, fr):
        f = fr
        while f is not None and f.yields is None:
            f = f.parent
        if f is None:
            raise CxError('yield outside a generator')
        f.yields.extend(self.items(self.ev(e.value, fr)))
        return None

    def e_JoinedStr(self, e, fr):
        out = []
        for v in e.values:
            if isinstance(v, ast.Constant):
                out.extend(v.value)
            else:
                x = self.ev(v.value, fr)
                spec = ''
                if v.format_spec is not None:
                    spec = self.ev(v.format_spec, fr)
                if v.conversion == 114:
                    x = repr(x)
                out.extend(self.format_value(x, spec))
        return self.mk('str', out)

    def e_FormattedValue(self, e, fr):
        return self.ev(e.value, fr)

    def comp(self, gens, fr, emit):
        def rec(i, f):
            if i == len(gens):
                emit(f)
                return
            g = gens[i]
            for x in self.items(self.ev(g.iter, f)):
                self.tick()
                self.assign(g.target, x, f)
                if all(self.truth(self.ev(c, f)) for c in g.ifs):
                    rec(i + 1, f)
        inner = Frame(fr.module, {}, fr.func, parent=fr)
        rec(0, inner)

    def e_ListComp(self, e, fr):
        out = []
        self.comp(e.generators, fr, lambda f: out.append(self.ev(e.elt, f)))
        return out

    e_GeneratorExp = e_ListComp

    def e_SetComp(self, e, fr):
        out = []
        self.comp(e.generators, fr, lambda f: out.append(self.ev(e.elt, f)))
        return set(out)

    def e_DictComp(self, e, fr):
        out = {}

        def emit(f):
            out[self.ev(e.key, f)] = self.ev(e.value, f)
        self.comp(e.generators, fr, emit)
        return out

    def e_Starred(self, e, fr):
        raise CxError('starred expression')

    def e_NamedExpr(self, e, fr):
        v = self.ev(e.value, fr)
        self.assign(e.target, v, fr)
        return v


class _Super:
    def __init__(self, cls, selfv):
        self.cls = cls
        self.selfv = selfv


def _as_load(t):
    import copy
    n = copy.copy(t)
    n.ctx = ast.Load()
    return n


_PYOPS = {
    ast.Add: lambda a, b: a + b, ast.Sub: lambda a, b: a - b,
    ast.Mult: lambda a, b: a * b, ast.Div: lambda a, b: a / b,
    ast.FloorDiv: lambda a, b: a // b, ast.Mod: lambda a, b: a % b,
    ast.Pow: lambda a, b: a ** b, ast.LShift: lambda a, b: a << b,
    ast.RShift: lambda a, b: a >> b, ast.BitAnd: lambda a, b: a & b,
    ast.BitOr: lambda a, b: a | b, ast.BitXor: lambda a, b: a ^ b,
}

EXC_NAMES = {'Exception', 'BaseException', 'ValueError', 'TypeError',
             'IndexError', 'KeyError', 'AssertionError', 'NotImplementedError',
             'StopIteration', 'AttributeError', 'RuntimeError', 'OSError',
             'IOError', 'LookupError', 'ZeroDivisionError', 'OverflowError',
             'UnicodeDecodeError', 'UnicodeEncodeError', 'NameError',
             'ArithmeticError', 'FileNotFoundError'}

BUILTIN_NAMES = {'len', 'range', 'enumerate', 'zip', 'list', 'tuple', 'bytes',
                 'bytearray', 'str', 'int', 'min', 'max', 'divmod', 'abs',
                 'sum', 'sorted', 'reversed', 'isinstance', 'bool', 'ord',
                 'chr', 'hex', 'format', 'any', 'all', 'iter', 'next', 'map',
                 'filter', 'dict', 'set', 'frozenset', 'super', 'getattr',
                 'setattr', 'hasattr', 'type', 'repr', 'print', 'round',
                 'float', 'object', 'callable', 'id', 'bin', 'oct', 'pow',
                 'memoryview', 'slice', 'issubclass', 'open'}


# ------------------------------------------------------------- builtins

def _kind_items(cx, v):
    k = cx.kind_of(v)
    if k is None:
        raise PyRaise('TypeError', ('expected a sequence',))
    return k, cx.items(v)


def hex_to_bytes(cx, s):
    def ws(x):
        return (isinstance(x, str) and x in ' \t\n\r\x0b\x0c') or \
            (isinstance(x, int) and not isinstance(x, bool) and x in WS)
    its = cx.items(s)
    out = []
    i = 0
    while i < len(its):
        if ws(its[i]):
            i += 1
            continue
        if i + 1 >= len(its) or ws(its[i + 1]):
            raise PyRaise('ValueError', ('non-hexadecimal number found in '
                                         'fromhex() arg',))
        hi, lo = nibble_of(its[i]), nibble_of(its[i + 1])
        out.append(_norm(hi.shl(4) | lo))
        i += 2
    return out


def int_of(cx, s, base):
    if base != 16:
        if isinstance(s, Seq):
            raise CxError('int() of symbolic text in base {}'.format(base))
        try:
            return int(s, base)
        except (ValueError, TypeError) as ex:
            raise PyRaise(type(ex).__name__, (str(ex),))
    its = cx.items(s)
    while its and ((isinstance(its[-1], str) and its[-1].isspace()) or
                   (isinstance(its[-1], int) and its[-1] in WS)):
        its.pop()
    while its and ((isinstance(its[0], str) and its[0].isspace()) or
                   (isinstance(its[0], int) and its[0] in WS)):
        its.pop(0)
    if not its:
        raise PyRaise('ValueError', ('invalid literal for int()',))
    if all(isinstance(x, (int, str)) for x in its):
        try:
            txt = ''.join(x if isinstance(x, str) else chr(x) for x in its)
            return int(txt, 16)
        except ValueError as ex:
            raise PyRaise('ValueError', (str(ex),))
    v = BV.const(0)
    for x in its:
        v = v.shl(4) | nibble_of(x)
    return _norm(v)


def _concrete_text(cx, v):
    """a str/bytes value without symbolic elements, as a Python object"""
    if isinstance(v, (bytes, str)):
        return v
    if isinstance(v, bytearray):
        return bytes(v)
    if isinstance(v, Seq):
        if any(is_sym(x) for x in v.items):
            raise CxError('regular expression on symbolic content')
        if v.kind == 'str':
            return ''.join(v.items)
        return bytes(v.items)
    raise CxError('regular expression on {}'.format(type(v).__name__))


def _wrap_match(m):
    if m is None:
        return None
    return Opaque('re.Match', {
        'group': lambda c, a, k: m.group(*a),
        'groups': lambda c, a, k: m.groups(*a),
        'start': lambda c, a, k: m.start(*a),
        'end': lambda c, a, k: m.end(*a),
        'span': lambda c, a, k: m.span(*a),
        'groupdict': lambda c, a, k: m.groupdict(),
    }, attrs={'lastindex': m.lastindex, 'string': m.string})


def regex_call(cx, pattern, flags, name, args, kw):
    """the standard library's regular expressions on CONCRETE text: a
    primitive of the abstract machine, like bytes.fromhex or int()"""
    import re
    if isinstance(pattern, CE.Regex):
        pattern, flags = pattern.pattern, pattern.flags | (flags or 0)
    pattern = _concrete_text(cx, pattern)
    try:
        rx_ = re.compile(pattern, flags or 0)
    except re.error as ex:
        raise PyRaise('error', (str(ex),))
    try:
        if name in ('match', 'search', 'fullmatch'):
            text = _concrete_text(cx, args[0])
            return _wrap_match(getattr(rx_, name)(text, *args[1:]))
        if name in ('sub', 'subn'):
            repl, text = args[0], _concrete_text(cx, args[1])
            if isinstance(repl, (FuncVal, BoundBuiltin, LambdaVal)):
                fn = repl

                def repl(m, fn=fn):
                    return _concrete_text(cx, cx.call(fn, [_wrap_match(m)],
                                                      {}))
            else:
                repl = _concrete_text(cx, repl)
            return getattr(rx_, name)(repl, text, *args[2:], **kw)
        if name in ('split', 'findall'):
            return getattr(rx_, name)(_concrete_text(cx, args[0]), *args[1:])
        if name == 'pattern':
            return pattern
    except TypeError as ex:
        raise PyRaise('TypeError', (str(ex),))
    raise CxError('regular expression method {}'.format(name))


def call_ext(cx, name, args, kw):
    n = name
    if n in cx.ext_hooks:
        return cx.ext_hooks[n](cx, args, kw)
    if n.startswith('re.') and n[3:] in ('match', 'search', 'fullmatch',
                                         'sub', 'subn', 'split', 'findall'):
        fl = kw.pop('flags', 0) if isinstance(kw, dict) else 0
        return regex_call(cx, args[0], fl, n[3:], list(args[1:]), kw)
    if n == 're.compile':
        return CE.Regex(_concrete_text(cx, args[0]),
                        (args[1] if len(args) > 1 else kw.get('flags', 0)))
    if n == 're.escape':
        import re
        return re.escape(_concrete_text(cx, args[0]))
    if n in EXC_NAMES:
        return PyRaise(n, tuple(args))
    if n == 'len':
        v = args[0]
        if isinstance(v, Seq):
            return len(v.items)
        if isinstance(v, Obj):
            m = cx.model.lookup_method(v.cls, '__len__')
            if m is not None:
                return cx.call_function(m, [], {}, bound=v)
        try:
            return len(v)
        except TypeError:
            raise PyRaise('TypeError', ('object has no len()',))
    if n == 'range':
        for a in args:
            if isinstance(a, BV):
                raise CxError('range over a symbolic bound')
        try:
            return range(*args)
        except (TypeError, ValueError) as ex:
            raise PyRaise(type(ex).__name__, (str(ex),))
    if n == 'enumerate':
        start = args[1] if len(args) > 1 else kw.get('start', 0)
        return [(start + i, x) for i, x in enumerate(cx.items(args[0]))]
    if n == 'zip':
        return [tuple(t) for t in zip(*[cx.items(a) for a in args])]
    if n == 'list':
        return list(cx.items(args[0])) if args else []
    if n == 'tuple':
        return tuple(cx.items(args[0])) if args else ()
    if n in ('set', 'frozenset'):
        its = cx.items(args[0]) if args else []
        if any(is_sym(x) for x in its):
            raise CxError('set of symbolic values')
        return set(its)
    if n == 'dict':
        d = {}
        if args:
            a = args[0]
            if isinstance(a, dict):
                d.update(a)
            else:
                for kv in cx.items(a):
                    k, v = cx.items(kv)
                    d[k] = v
        d.update(kw)
        return d
    if n in ('bytes', 'bytearray'):
        if not args:
            return cx.mk(n, []) if n == 'bytes' else Seq('bytearray', [])
        a = args[0]
        if isinstance(a, bool):
            a = int(a)
        if isinstance(a, int):
            its = [0] * a
        elif isinstance(a, BV):
            raise CxError(n + '() of a symbolic length')
        elif cx.kind_of(a) == 'str':
            enc = args[1] if len(args) > 1 else kw.get('encoding')
            if enc is None:
                raise PyRaise('TypeError', ('string argument without an '
                                            'encoding',))
            return call_method(cx, a, 'encode', [enc], {}) if n == 'bytes' \
                else Seq('bytearray', cx.items(call_method(
                    cx, a, 'encode', [enc], {})))
        else:
            if len(args) > 1 or 'encoding' in kw:
                raise PyRaise('TypeError', ('encoding without a string '
                                            'argument',))
            its = cx.to_byte_items(a)
        return cx.mk('bytes', its) if n == 'bytes' else Seq('bytearray', its)
    if n == 'str':
        if not args:
            return ''
        a = args[0]
        enc = args[1] if len(args) > 1 else kw.get('encoding')
        if enc is not None:
            if cx.kind_of(a) not in ('bytes', 'bytearray'):
                raise PyRaise('TypeError', ('decoding str is not supported',))
            return call_method(cx, a, 'decode', [enc], {})
        if isinstance(a, Seq) and a.kind == 'str':
            return a
        if is_sym(a) or isinstance(a, Seq):
            raise CxError('str() of a symbolic value')
        if isinstance(a, (Obj, ClassVal, FuncVal)):
            raise CxError('str() of an object')
        return str(a)
    if n == 'int':
        if not args:
            return 0
        a = args[0]
        base = args[1] if len(args) > 1 else kw.get('base')
        if base is not None:
            return int_of(cx, a, base)
        if isinstance(a, BV):
            return a
        if isinstance(a, Seq):
            raise CxError('int() of symbolic text')
        try:
            return int(a)
        except (ValueError, TypeError) as ex:
            raise PyRaise(type(ex).__name__, (str(ex),))
    if n == 'float':
        if is_sym(args[0]):
            raise CxError('float() of a symbolic value')
        try:
            return float(args[0])
        except (ValueError, TypeError) as ex:
            raise PyRaise(type(ex).__name__, (str(ex),))
    if n == 'bool':
        return cx.truth(args[0]) if args else False
    if n in ('min', 'max'):
        its = cx.items(args[0]) if len(args) == 1 else list(args)
        if any(is_sym(x) for x in its):
            raise CxError(n + '() of symbolic values')
        if not its:
            if 'default' in kw:
                return kw['default']
            raise PyRaise('ValueError', ('empty sequence',))
        return min(its) if n == 'min' else max(its)
    if n == 'slice':
        for a in args:
            if isinstance(a, BV):
                raise CxError('slice bound depends on symbolic content')
        return slice(*args)
    if n == 'sum':
        its = cx.items(args[0])
        acc = args[1] if len(args) > 1 else 0
        for x in its:
            acc = cx.binop(ast.Add(), acc, x)
        return acc
    if n == 'abs':
        if is_sym(args[0]):
            raise CxError('abs() of a symbolic value')
        return abs(args[0])
    if n == 'divmod':
        a, b = args
        return (cx.binop(ast.FloorDiv(), a, b), cx.binop(ast.Mod(), a, b))
    if n == 'sorted':
        its = cx.items(args[0])
        if any(is_sym(x) for x in its) or kw.get('key') is not None:
            raise CxError('sorted() here')
        return sorted(its, reverse=bool(kw.get('reverse')))
    if n == 'reversed':
        return list(reversed(cx.items(args[0])))
    if n in ('any', 'all'):
        for x in cx.items(args[0]):
            t = cx.truth(x)
            if n == 'any' and t:
                return True
            if n == 'all' and not t:
                return False
        return n == 'all'
    if n == 'isinstance':
        return isinstance_(cx, args[0], args[1])
    if n == 'ord':
        a = args[0]
        if isinstance(a, Seq) and len(a.items) == 1:
            return a.items[0]
        if is_sym(a):
            return a
        try:
            return ord(a)
        except TypeError as ex:
            raise PyRaise('TypeError', (str(ex),))
    if n == 'chr':
        if is_sym(args[0]):
            raise CxError('chr() of a symbolic value')
        return chr(args[0])
    if n == 'hex':
        if is_sym(args[0]):
            raise CxError('hex() of a symbolic value')
        return hex(args[0])
    if n == 'bin':
        if is_sym(args[0]):
            raise CxError('bin() of a symbolic value')
        return bin(args[0])
    if n == 'format':
        return cx.mk('str', cx.format_value(args[0], args[1]
                                            if len(args) > 1 else ''))
    if n in ('iter',):
        return list(cx.items(args[0]))
    if n == 'next':
        it = args[0]
        if isinstance(it, list):
            if it:
                return it.pop(0)
            if len(args) > 1:
                return args[1]
            raise PyRaise('StopIteration', ())
        raise CxError('next() on a non-iterator')
    if n == 'map':
        seqs = [cx.items(a) for a in args[1:]]
        return [cx.call(args[0], list(t), {}) for t in zip(*seqs)]
    if n == 'filter':
        f = args[0]
        return [x for x in cx.items(args[1])
                if cx.truth(x if f is None else cx.call(f, [x], {}))]
    if n == 'getattr':
        try:
            v = cx.getattr(args[0], args[1])
            if isinstance(v, BoundBuiltin) and len(args) > 2 and \
                    isinstance(args[0], Obj):
                return args[2]
            return v
        except PyRaise as ex:
            if ex.tname == 'AttributeError' and len(args) > 2:
                return args[2]
            raise
    if n == 'hasattr':
        try:
            v = cx.getattr(args[0], args[1])
            return not (isinstance(v, BoundBuiltin) and
                        isinstance(args[0], Obj))
        except PyRaise:
            return False
    if n == 'setattr':
        if isinstance(args[0], Obj):
            args[0].attrs[args[1]] = args[2]
            return None
        raise CxError('setattr target')
    if n == 'type':
        v = args[0]
        if isinstance(v, Obj):
            return v.cls if isinstance(v.cls, StubClass) else ClassVal(v.cls)
        k = cx.kind_of(v)
        if k:
            return Ext(k)
        if isinstance(v, bool):
            return Ext('bool')
        if isinstance(v, (int, BV)):
            return Ext('int')
        if isinstance(v, float):
            return Ext('float')
        if v is None:
            return Ext('NoneType')
        if isinstance(v, dict):
            return Ext('dict')
        if isinstance(v, (set, frozenset)):
            return Ext(type(v).__name__)
        raise CxError('type() here')
    if n == 'repr':
        if is_sym(args[0]) or isinstance(args[0], Seq):
            raise CxError('repr of a symbolic value')
        return repr(args[0])
    if n == 'print':
        return None
    if n == 'round':
        return round(*args)
    if n == 'callable':
        return isinstance(args[0], (FuncVal, LambdaVal, ClassVal, Ext,
                                    BoundBuiltin))
    if n == 'pow':
        return pow(*args)
    if n in ('bytes.fromhex', 'bytearray.fromhex'):
        if cx.kind_of(args[0]) != 'str':
            raise PyRaise('TypeError', ('fromhex() argument must be str',))
        its = hex_to_bytes(cx, args[0])
        return cx.mk('bytes', its) if n.startswith('bytes') else \
            Seq('bytearray', its)
    if n == 'bytes.maketrans' or n == 'bytearray.maketrans':
        a, b = cx.items(args[0]), cx.items(args[1])
        t = list(range(256))
        for x, y in zip(a, b):
            t[x] = y
        return cx.mk('bytes', t)
    if n == 'int.from_bytes':
        its = cx.items(args[0])
        order = args[1] if len(args) > 1 else kw.get('byteorder', 'big')
        if order == 'big':
            its = list(reversed(its))
        v = BV.const(0)
        for i, x in enumerate(its):
            v = v | _bv(x).shl(8 * i)
        return _norm(v)
    if n == 'binascii.hexlify':
        out = []
        for x in cx.to_byte_items(args[0]):
            out.extend(cx.format_value(x, '02x'))
        return call_method(cx, cx.mk('str', out), 'encode', ['ascii'], {})
    if n == 'binascii.unhexlify':
        return cx.mk('bytes', hex_to_bytes(cx, args[0]))
    if n in ('str.join', 'bytes.join'):
        return call_method(cx, args[0], 'join', args[1:], kw)
    if n == 'object':
        raise CxError('object()')
    if n in ('util.debug', 'util.write', 'util.error'):
        return None
    if n == 'math.floor' or n == 'math.ceil' or n == 'math.trunc':
        import math
        if is_sym(args[0]):
            raise CxError(n + ' of a symbolic value')
        return getattr(math, n.split('.')[1])(args[0])
    if n == 'functools.reduce':
        its = cx.items(args[1])
        acc = args[2] if len(args) > 2 else its.pop(0)
        for x in its:
            acc = cx.call(args[0], [acc, x], {})
        return acc
    if n == 'operator.or_':
        return cx.binop(ast.BitOr(), args[0], args[1])
    if n == 'itertools.chain':
        out = []
        for a in args:
            out.extend(cx.items(a))
        return out
    if n == 'itertools.chain.from_iterable':
        out = []
        for a in cx.items(args[0]):
            out.extend(cx.items(a))
        return out
    if n == 'itertools.product':
        import itertools
        return [tuple(t) for t in itertools.product(
            *[cx.items(a) for a in args], repeat=kw.get('repeat', 1))]
    if n == 'itertools.islice':
        return cx.items(args[0])[slice(*args[1:])]
    if n == 'struct.pack' or n == 'struct.unpack':
        raise CxError(n)
    raise CxError('external call {}'.format(n))


def isinstance_(cx, v, t):
    if isinstance(t, tuple):
        return any(isinstance_(cx, v, x) for x in t)
    if isinstance(t, StubClass):
        return isinstance(v, Obj) and isinstance(v.cls, StubClass) and \
            t in v.cls.mro()
    if isinstance(t, ClassVal):
        if isinstance(v, Obj) and isinstance(v.cls, StubClass):
            return False
        return isinstance(v, Obj) and t.info in cx.model.mro(v.cls)
    if isinstance(t, Ext):
        k = cx.kind_of(v)
        nm = t.name
        if nm == 'type':
            return isinstance(v, (ClassVal, StubClass)) or (
                isinstance(v, Ext) and v.name in (
                    'int', 'str', 'bytes', 'bytearray', 'list', 'tuple',
                    'dict', 'set', 'bool', 'float', 'object', 'type'))
        if nm in ('bytes', 'bytearray', 'str', 'list', 'tuple'):
            return k == nm
        if nm == 'int':
            return isinstance(v, (int, BV)) and not isinstance(v, bool) or \
                isinstance(v, bool)
        if nm == 'bool':
            return isinstance(v, bool)
        if nm == 'dict':
            return isinstance(v, dict)
        if nm == 'float':
            return isinstance(v, float)
        if nm in ('set', 'frozenset'):
            return isinstance(v, (set, frozenset))
        if nm == 'object':
            return True
    raise CxError('isinstance() against {}'.format(t))


def _strip_pred(cx, recv, args):
    if args and args[0] is not None:
        chars = cx.items(args[0])

        def pred(x):
            if isinstance(x, (SymCp, SymSel, SymDictVal, BV)):
                raise CxError('strip() over unknown characters')
            if is_sym(x):
                hexish = [c for c in chars if (chr(c) if isinstance(c, int)
                                               else c).lower() in HEXDIGITS]
                if hexish:
                    raise CxError('strip() of hex digits over symbolic '
                                  'digits')
                return False
            return x in chars
        return pred

    def pred(x):
        if isinstance(x, (SymCp, SymSel, SymDictVal)):
            raise CxError('strip() over unknown characters')
        if isinstance(x, BV):
            raise CxError('strip() over symbolic bytes')
        if is_sym(x):
            return False        # hex digit characters are never blank
        if isinstance(x, int):
            return x in WS
        return isinstance(x, str) and x.isspace()
    return pred


def call_method(cx, recv, name, args, kw):
    if isinstance(recv, Opaque):
        if name not in recv.methods:
            raise CxError('method {} of {}'.format(name, recv))
        return recv.methods[name](cx, args, kw)
    if isinstance(recv, _Super):
        m = cx.model.lookup_method(recv.selfv.cls if isinstance(
            recv.selfv, Obj) else recv.cls, name, after=recv.cls)
        if m is None:
            if name == '__init__':
                if isinstance(recv.selfv, Obj):
                    recv.selfv.attrs['args'] = tuple(args)
                return None
            raise PyRaise('AttributeError', (name,))
        return cx.call_function(m, args, kw, bound=recv.selfv)
    if recv is CE.UNKNOWN:
        raise CxError('method of an unknown constant')
    if isinstance(recv, CE.Regex):
        return regex_call(cx, recv.pattern, recv.flags, name, args, kw)
    k = cx.kind_of(recv)
    if isinstance(recv, dict):
        return dict_method(cx, recv, name, args, kw)
    if isinstance(recv, (set, frozenset)):
        if name == 'add':
            recv.add(args[0])
            return None
        if name in ('union', 'intersection', 'difference', 'issubset',
                    'issuperset', 'copy', 'discard', 'remove', 'update'):
            return getattr(recv, name)(*args)
    if isinstance(recv, (int, BV)) and not isinstance(recv, bool):
        if name == 'to_bytes':
            n = args[0]
            order = args[1] if len(args) > 1 else kw.get('byteorder', 'big')
            b = _bv(recv)
            its = [_norm(b.shr(8 * i) & BV.const(255)) for i in range(n)]
            if order == 'big':
                its.reverse()
            return cx.mk('bytes', its)
        if name == 'bit_length' and isinstance(recv, int):
            return recv.bit_length()
    if k is None:
        raise PyRaise('AttributeError', ('{} has no attribute {}'.format(
            type(recv).__name__, name),))
    its = cx.items(recv)
    # ---- mutation (list / bytearray) ----------------------------------------
    tgt = recv.items if isinstance(recv, Seq) else recv
    mutable = k in ('list', 'bytearray')
    if name == 'append' and mutable:
        tgt.append(cx.to_byte_items([args[0]])[0] if k == 'bytearray'
                   else args[0])
        return None
    if name == 'extend' and mutable:
        tgt.extend(cx.to_byte_items(args[0]) if k == 'bytearray'
                   else cx.items(args[0]))
        return None
    if name == 'insert' and mutable:
        tgt.insert(args[0], args[1])
        return None
    if name == 'pop' and mutable:
        try:
            return tgt.pop(*args)
        except IndexError:
            raise PyRaise('IndexError', ('pop from empty list',))
    if name == 'clear' and mutable:
        del tgt[:]
        return None
    if name == 'reverse' and mutable:
        tgt.reverse()
        return None
    if name == 'copy':
        return Seq(k, its) if isinstance(recv, Seq) else recv[:]
    if name == 'sort' and k == 'list':
        if any(is_sym(x) for x in its) or kw:
            raise CxError('sort here')
        tgt.sort()
        return None
    # ---- queries ---------------------------------------------------------------
    if name == '__getitem__' and len(args) == 1:
        return cx.index(recv, args[0])
    if name == 'join':
        parts = cx.items(args[0])
        out = []
        for i, p in enumerate(parts):
            if i:
                out.extend(its)
            if isinstance(p, SymSel) and all(
                    isinstance(t, str) for t in p.table) and k == 'str':
                out.append(p)
                continue
            pk = cx.kind_of(p)
            if k == 'str' and pk != 'str':
                raise PyRaise('TypeError', ('sequence item: expected str',))
            if k in ('bytes', 'bytearray') and pk not in ('bytes',
                                                          'bytearray'):
                raise PyRaise('TypeError', ('sequence item: expected a '
                                            'bytes-like object',))
            out.extend(cx.items(p))
        return cx.mk('bytes' if k in ('bytes', 'bytearray') else 'str', out) \
            if k != 'bytearray' else Seq('bytearray', out)
    if name in ('rstrip', 'lstrip', 'strip'):
        pred = _strip_pred(cx, recv, args)
        out = list(its)
        if name in ('rstrip', 'strip'):
            while out and pred(out[-1]):
                out.pop()
        if name in ('lstrip', 'strip'):
            while out and pred(out[0]):
                out.pop(0)
        return cx.mk(k, out)
    if name in ('decode', 'encode'):
        enc = args[0] if args else kw.get('encoding', 'utf-8')
        if name == 'decode':
            if k not in ('bytes', 'bytearray'):
                raise PyRaise('AttributeError', ('decode',))
            if not isinstance(recv, Seq):
                try:
                    return bytes(recv).decode(enc)
                except UnicodeDecodeError as ex:
                    raise PyRaise('UnicodeDecodeError', (str(ex),))
            out = []
            for x in its:
                if isinstance(x, int):
                    if x > 127 and enc == 'ascii':
                        raise PyRaise('UnicodeDecodeError', ())
                    if x > 127 and enc not in ('latin-1', 'latin1',
                                               'iso-8859-1'):
                        raise CxError('decoding non-ASCII bytes next to '
                                      'symbolic content')
                    out.append(chr(x))
                elif isinstance(x, (HexCh, SymCh)):
                    out.append(x)
                else:
                    raise CxError('decoding a symbolic byte as text')
            return cx.mk('str', out)
        if k != 'str':
            raise PyRaise('AttributeError', ('encode',))
        if not isinstance(recv, Seq):
            try:
                return recv.encode(enc)
            except UnicodeEncodeError as ex:
                raise PyRaise('UnicodeEncodeError', (str(ex),))
        out = []
        for x in its:
            if isinstance(x, str):
                out.extend(x.encode(enc))
            else:
                out.append(x)
        return cx.mk('bytes', out)
    if name == 'hex' and k in ('bytes', 'bytearray'):
        out = []
        for x in cx.to_byte_items(recv):
            out.extend(cx.format_value(x, '02x'))
        return cx.mk('str', out)
    if name == 'translate' and k in ('bytes', 'bytearray'):
        table = cx.items(args[0])
        if len(table) != 256:
            raise PyRaise('ValueError', ('translation table must be 256 '
                                         'characters long',))
        out = []
        for x in its:
            if isinstance(x, int):
                out.append(table[x])
            elif isinstance(x, BV):
                out.append(table_lookup(table, x))
            else:
                raise CxError('translate of a symbolic character')
        return cx.mk(k, out)
    if name == 'format' and k == 'str':
        return str_format(cx, recv, args, kw)
    if name in ('find', 'index', 'rfind', 'count', 'startswith', 'endswith',
                'split', 'rsplit', 'splitlines', 'replace', 'partition',
                'rpartition', 'lower', 'upper', 'isdigit', 'isspace',
                'isalpha', 'isalnum', 'zfill', 'ljust', 'rjust', 'title',
                'islower', 'isupper', 'center', 'expandtabs', 'casefold',
                'ljust', 'rjust', 'zfill',
                'removeprefix', 'removesuffix'):
        if not isinstance(recv, Seq) and not any(
                isinstance(a, Seq) or is_sym(a) for a in args):
            try:
                r = getattr(recv, name)(*args, **kw)
            except (ValueError, TypeError, AttributeError) as ex:
                raise PyRaise(type(ex).__name__, (str(ex),))
            if isinstance(r, bytearray):
                return Seq('bytearray', list(r))
            return r
        if k in ('list', 'tuple'):
            if name == 'index':
                for i, x in enumerate(its):
                    if cx.compare(ast.Eq(), x, args[0]):
                        return i
                raise PyRaise('ValueError', ('not in list',))
            if name == 'count':
                return sum(1 for x in its
                           if cx.compare(ast.Eq(), x, args[0]))
        return seq_text_method(cx, recv, k, its, name, args, kw)
    if name == '__len__':
        return len(its)
    if name == 'tobytes':
        return cx.mk('bytes', its)
    raise CxError('method {}.{}'.format(k, name))


def seq_text_method(cx, recv, k, its, name, args, kw):
    """text queries on a sequence with symbolic elements: the needle must be
    concrete and is compared elementwise (symbolic digits never equal
    whitespace / separators)"""
    def needle(a):
        n = cx.items(a)
        if isinstance(a, int):
            n = [a]
        if any(is_sym(x) for x in n):
            raise CxError('search for a symbolic needle')
        return n

    def eq(x, y):
        if isinstance(x, BV):
            c = x.as_const()
            if c is None:
                raise CxError('text search over symbolic bytes')
            x = c
        if isinstance(x, (HexCh, SymCh)):
            ch = chr(y) if isinstance(y, int) else y
            if ch.lower() in HEXDIGITS:
                raise CxError('text search that depends on a symbolic digit')
            return False
        if isinstance(x, SymCp):
            if isinstance(y, str) and len(y) == 1:
                return cx.cp_equals(x, y)
            raise CxError('text search over unknown code points')
        if isinstance(x, (SymSel, SymDictVal)):
            raise CxError('text search over symbolic table values')
        return x == y

    def match_at(i, n):
        if i + len(n) > len(its):
            return False
        return all(eq(its[i + j], n[j]) for j in range(len(n)))

    if name in ('find', 'index', 'rfind', 'count'):
        n = needle(args[0])
        lo = args[1] if len(args) > 1 else 0
        hi = args[2] if len(args) > 2 else len(its)
        pos = [i for i in range(lo, min(hi, len(its)) - len(n) + 1)
               if match_at(i, n)]
        if name == 'count':
            return len(pos)
        if not pos:
            if name == 'index':
                raise PyRaise('ValueError', ('subsection not found',))
            return -1
        return pos[-1] if name == 'rfind' else pos[0]
    if name in ('startswith', 'endswith'):
        cands = args[0] if isinstance(args[0], tuple) else (args[0],)
        for c in cands:
            n = needle(c)
            if name == 'startswith' and match_at(0, n):
                return True
            if name == 'endswith' and len(n) <= len(its) and \
                    match_at(len(its) - len(n), n):
                return True
        return False
    if name in ('split', 'rsplit'):
        if not args or args[0] is None:
            parts, cur = [], []
            for x in its:
                ws = (not is_sym(x)) and ((isinstance(x, int) and x in WS) or
                                          (isinstance(x, str) and x.isspace()))
                if ws:
                    if cur:
                        parts.append(cur)
                    cur = []
                else:
                    cur.append(x)
            if cur:
                parts.append(cur)
            return [cx.mk(k if k != 'bytearray' else 'bytearray', p)
                    for p in parts]
        n = needle(args[0])
        maxsplit = args[1] if len(args) > 1 else kw.get('maxsplit', -1)
        if maxsplit != -1:
            raise CxError('split with maxsplit on symbolic text')
        parts, cur, i = [], [], 0
        while i < len(its):
            if match_at(i, n):
                parts.append(cur)
                cur = []
                i += len(n)
            else:
                cur.append(its[i])
                i += 1
        parts.append(cur)
        return [cx.mk(k, p) for p in parts]
    if name in ('partition',):
        n = needle(args[0])
        for i in range(len(its)):
            if match_at(i, n):
                return (cx.mk(k, its[:i]), cx.mk(k, n),
                        cx.mk(k, its[i + len(n):]))
        return (recv, cx.mk(k, []), cx.mk(k, []))
    if name == 'replace':
        a, b = needle(args[0]), cx.items(args[1])
        out, i = [], 0
        while i < len(its):
            if a and match_at(i, a):
                out.extend(b)
                i += len(a)
            else:
                out.append(its[i])
                i += 1
        return cx.mk(k, out)
    if name in ('lower',):
        out = []
        for x in its:
            if isinstance(x, (HexCh, SymCh)):
                out.append(x)       # HexCh is lower case; SymCh: see nibble_of
            elif isinstance(x, int):
                out.append(bytes([x]).lower()[0])
            else:
                out.append(x.lower())
        return cx.mk(k, out)
    if name in ('ljust', 'rjust', 'center', 'zfill'):
        width = args[0]
        if not isinstance(width, int) or isinstance(width, bool):
            raise PyRaise('TypeError', ('width must be an integer',))
        if name == 'zfill':
            fill = [ord('0') if k != 'str' else '0']
        else:
            fill = cx.items(args[1]) if len(args) > 1 else (
                [' '] if k == 'str' else [32])
            if len(fill) != 1:
                raise PyRaise('TypeError', ('fill must be one character',))
        pad = max(0, width - len(its))
        if name == 'ljust':
            out = list(its) + fill * pad
        elif name in ('rjust', 'zfill'):
            out = fill * pad + list(its)
        else:
            left = pad // 2 + (pad & width & 1)
            out = fill * left + list(its) + fill * (pad - left)
        return cx.mk(k, out)
    if name == 'splitlines':
        raise CxError('splitlines on symbolic text')
    raise CxError('text method {} on symbolic content'.format(name))


def str_format(cx, fmt, args, kw):
    if isinstance(fmt, Seq):
        raise CxError('format on a symbolic template')
    import string
    out = []
    auto = 0
    for lit, field, spec, conv in string.Formatter().parse(fmt):
        out.extend(lit)
        if field is None:
            continue
        if field == '':
            v = args[auto]
            auto += 1
        elif field.isdigit():
            v = args[int(field)]
        elif field in kw:
            v = kw[field]
        else:
            raise CxError('format field ' + field)
        out.extend(cx.format_value(v, spec or ''))
    return cx.mk('str', out)


def dict_method(cx, d, name, args, kw):
    if name == '__getitem__' and len(args) == 1:
        return cx.index(d, args[0])
    if args and cx.sym_key(args[0]) is not None and name == 'get':
        try:
            return cx.dict_lookup_sym(d, cx.sym_key(args[0]))
        except PyRaise as e:
            if e.tname == 'KeyError':
                return args[1] if len(args) > 1 else None
            raise
    if any(is_sym(a) for a in args[:1]):
        raise CxError('symbolic dictionary key')
    if name == 'get':
        return d.get(args[0], args[1] if len(args) > 1 else None)
    if name == 'items':
        return [(k, v) for k, v in d.items()]
    if name == 'keys':
        return list(d.keys())
    if name == 'values':
        return list(d.values())
    if name == 'pop':
        try:
            return d.pop(*args)
        except KeyError:
            raise PyRaise('KeyError', (args[0],))
    if name == 'setdefault':
        return d.setdefault(*args)
    if name == 'update':
        for a in args:
            d.update(a if isinstance(a, dict) else dict(cx.items(a)))
        d.update(kw)
        return None
    if name == 'copy':
        return dict(d)
    if name == 'clear':
        d.clear()
        return None
    raise CxError('dict method ' + name)
