"""Substitution evaluator: runs a statement list symbolically, keeping every
variable as an EXPRESSION over the values at entry (an `ast` expression with
locals, named constants and small pure helpers substituted away), forking on
tests it cannot decide.  The result is a list of paths, each with its
conditions, its events (calls, yields, stores, attribute updates) and its
final environment.

Rules compare the canonical text / structure of those expressions instead of
the source text, so hoisting a value into a local, naming a literal, extracting
a pure helper, merging two statements or re-ordering independent ones does not
change what they see.  Nothing of /repo runs: expressions are rewritten, never
evaluated on data (constant sub-expressions are folded by consteval).
"""
import ast

from ..astutil import clone
import copy

from ..consteval import UNKNOWN, Regex
from ..core import AnalysisError
from ..srcmodel import FuncInfo


class _CondList(list):
    """list of (test, bool) that also remembers, per condition, how many
    events the path had when the condition was evaluated"""

    def __init__(self, *a):
        super().__init__(*a)
        self.at = []
        self.owner = None

    def append(self, item):
        super().append(item)
        self.at.append(len(self.owner.events) if self.owner is not None
                       else 0)


class Path:
    def __init__(self):
        self.env = {}
        self.events = []      # (kind, ...) in order
        self.conds = _CondList()   # (test expr, bool); .at[i] = number of
        #                           events already on the path when made
        self.end = 'fall'     # fall | return | continue | break | raise
        self.ret = None
        self.conds.owner = self

    def clone(self):
        p = Path()
        p.env = dict(self.env)
        p.events = list(self.events)
        p.conds = _CondList(self.conds)
        p.conds.at = list(self.conds.at)
        p.conds.owner = p
        p.end = self.end
        p.ret = self.ret
        p.displays = set(getattr(self, 'displays', ()))
        return p

    def cond_text(self):
        return ' and '.join(('' if v else 'not ') + '(' + ast.unparse(t) + ')'
                            for (t, v) in self.conds)


def u(e):
    return ast.unparse(e) if e is not None else 'None'


def const_node(v):
    """literal AST for a folded constant, or None"""
    if isinstance(v, (bytes, str, int, bool, float)) or v is None:
        return ast.Constant(value=v)
    if isinstance(v, tuple):
        elts = [const_node(x) for x in v]
        if all(e is not None for e in elts):
            return ast.Tuple(elts=elts, ctx=ast.Load())
    if isinstance(v, Regex):
        return ast.Call(
            func=ast.Attribute(value=ast.Name(id='re', ctx=ast.Load()),
                               attr='compile', ctx=ast.Load()),
            args=[ast.Constant(value=v.pattern)], keywords=[])
    return None


class SymBody:
    def __init__(self, ctx, f, max_paths=400, inline_depth=3, no_inline=()):
        self.no_inline = set(no_inline)
        self.ctx = ctx
        self.model = ctx.model
        self.f = f
        self.max_paths = max_paths
        self.inline_depth = inline_depth
        self._fresh = 0

    # ---- expressions --------------------------------------------------------
    def S(self, e, env, f=None, depth=0):
        """substituted + folded copy of expression e"""
        f = f or self.f
        outer = self

        class T(ast.NodeTransformer):
            def visit_Name(self, n):
                if not isinstance(n.ctx, ast.Load):
                    return n
                if n.id in env:
                    return clone(env[n.id])
                r = outer.model.resolve_name(f.module, n.id)
                if r and r[0] == 'const':
                    v = outer.ctx.consts.module_const(r[1].name, r[2])
                    c = const_node(v) if v is not UNKNOWN else None
                    if c is not None:
                        return c
                return n

            def visit_Attribute(self, n):
                key = ast.unparse(n)
                if key in env and isinstance(n.ctx, ast.Load):
                    return clone(env[key])
                n = self.generic_visit(n)
                if isinstance(n.value, ast.Name) and \
                        n.value.id in ('self', 'cls') and f.cls is not None:
                    try:
                        v = outer.ctx.consts.class_const(f.cls, n.attr)
                    except Exception:
                        v = UNKNOWN
                    c = const_node(v) if v is not UNKNOWN and \
                        not callable(v) else None
                    if c is not None and not isinstance(v, (dict, list)):
                        return c
                else:
                    try:
                        v = outer.ctx.consts.eval_expr(f.module, n, {})
                    except Exception:
                        v = UNKNOWN
                    c = const_node(v) if v is not UNKNOWN else None
                    if c is not None:
                        return c
                return n

            def visit_Call(self, n):
                n = self.generic_visit(n)
                if isinstance(n.func, ast.Name) and n.func.id == 'getattr' \
                        and len(n.args) == 2 and not n.keywords and \
                        isinstance(n.args[1], ast.Constant) and \
                        isinstance(n.args[1].value, str) and \
                        n.args[1].value.isidentifier():
                    return ast.copy_location(ast.Attribute(
                        value=n.args[0], attr=n.args[1].value,
                        ctx=ast.Load()), n)
                if depth < outer.inline_depth:
                    r = outer.inline_expr(n, f, depth)
                    if r is not None:
                        return r
                return outer.fold(n, f)

            def visit_BinOp(self, n):
                return outer.simplify_sum(
                    outer.fold(self.generic_visit(n), f))

            def visit_Subscript(self, n):
                n = self.generic_visit(n)
                # divmod(a, b)[0] -> a // b ; [1] -> a % b
                if isinstance(n.value, ast.Call) and \
                        isinstance(n.value.func, ast.Name) and \
                        n.value.func.id == 'divmod' and \
                        len(n.value.args) == 2 and \
                        isinstance(n.slice, ast.Constant) and \
                        n.slice.value in (0, 1):
                    return ast.copy_location(ast.BinOp(
                        left=n.value.args[0],
                        op=ast.FloorDiv() if n.slice.value == 0 else ast.Mod(),
                        right=n.value.args[1]), n)
                # (a, b)[k] -> element
                if isinstance(n.value, ast.Tuple) and \
                        isinstance(n.slice, ast.Constant) and \
                        isinstance(n.slice.value, int) and \
                        -len(n.value.elts) <= n.slice.value < \
                        len(n.value.elts):
                    return n.value.elts[n.slice.value]
                return outer.fold(n, f)

            def visit_Compare(self, n):
                return outer.fold(self.generic_visit(n), f)

            def visit_UnaryOp(self, n):
                return outer.fold(self.generic_visit(n), f)
        return T().visit(clone(e))

    def simplify_sum(self, n):
        """X + 1 + 1 -> X + 2 ; X + 0 -> X   (integer constants of a +/-
        chain are collected at the end)"""
        if not (isinstance(n, ast.BinOp) and
                isinstance(n.op, (ast.Add, ast.Sub))):
            return n
        terms = []

        def flat(x, sign):
            if isinstance(x, ast.BinOp) and isinstance(x.op, ast.Add):
                flat(x.left, sign)
                flat(x.right, sign)
            elif isinstance(x, ast.BinOp) and isinstance(x.op, ast.Sub):
                flat(x.left, sign)
                flat(x.right, -sign)
            else:
                terms.append((sign, x))
        flat(n, 1)
        ints = [(sg, t) for (sg, t) in terms
                if isinstance(t, ast.Constant) and isinstance(t.value, int)
                and not isinstance(t.value, bool)]
        rest = [(sg, t) for (sg, t) in terms if (sg, t) not in ints]
        if len(ints) < 2 and not (ints and ints[0][1].value == 0):
            return n
        if any(isinstance(t, ast.Constant) for (_s, t) in rest):
            return n                      # bytes / str concatenation
        c = sum(sg * t.value for (sg, t) in ints)
        if not rest:
            return ast.copy_location(ast.Constant(value=c), n)
        out = None
        for (sg, t) in rest:
            if out is None:
                out = t if sg > 0 else ast.UnaryOp(op=ast.USub(), operand=t)
            else:
                out = ast.BinOp(left=out, op=ast.Add() if sg > 0
                                else ast.Sub(), right=t)
        if c != 0:
            out = ast.BinOp(left=out, op=ast.Add() if c > 0 else ast.Sub(),
                            right=ast.Constant(value=abs(c)))
        return ast.copy_location(out, n)

    def fold(self, n, f):
        """constant-fold a node whose operands are all literals"""
        for x in ast.walk(n):
            if isinstance(x, (ast.Name, ast.Attribute, ast.Yield,
                              ast.YieldFrom, ast.Await, ast.Starred)):
                if isinstance(x, ast.Attribute) and \
                        isinstance(x.value, ast.Constant):
                    continue
                if isinstance(x, ast.Name) and x.id in (
                        'len', 'bytes', 'int', 'str', 'min', 'max', 'ord',
                        'chr', 'tuple', 'bool', 'abs'):
                    continue
                return n
        try:
            v = self.ctx.consts.eval_expr(f.module, n, {})
        except Exception:
            return n
        if v is UNKNOWN:
            return n
        c = const_node(v)
        return ast.copy_location(c, n) if c is not None else n

    def callee(self, call, f):
        kind, targets = self.model.resolve_call(f, call)
        if kind in ('exact', 'method') and len(targets) == 1 and \
                isinstance(targets[0], FuncInfo):
            return targets[0]
        return None

    def inline_expr(self, call, f, depth):
        """call of a small pure package helper -> its return expression with
        the arguments substituted (None when the callee is not of that form)"""
        t = self.callee(call, f)
        if t is None or t is self.f or t.name in self.no_inline:
            return None
        if any(isinstance(x, (ast.Yield, ast.YieldFrom))
               for x in ast.walk(t.node)):
            return None
        env = self.bind_args(t, call)
        if env is None:
            return None
        try:
            sub = SymBody(self.ctx, t, max_paths=16,
                          inline_depth=self.inline_depth - depth - 1,
                          no_inline=self.no_inline)
            paths = sub.run(t.node.body, env)
        except AnalysisError:
            return None
        if not paths or any(p.events for p in paths):
            return None                    # has effects: not a pure helper
        if any(p.end not in ('return', 'fall') for p in paths):
            return None
        # decision tree over the path conditions (the order of the forks)
        def val_of(p):
            return p.ret if p.end == 'return' and p.ret is not None \
                else ast.Constant(value=None)

        def tree(ps, k):
            if len(ps) == 1 or all(len(p.conds) <= k for p in ps):
                return val_of(ps[0])
            t0 = ps[0].conds[k][0] if len(ps[0].conds) > k else None
            if t0 is None:
                return val_of(ps[0])
            key = ast.unparse(t0)
            yes = [p for p in ps if len(p.conds) > k and
                   ast.unparse(p.conds[k][0]) == key and p.conds[k][1]]
            no = [p for p in ps if len(p.conds) > k and
                  ast.unparse(p.conds[k][0]) == key and not p.conds[k][1]]
            if len(yes) + len(no) != len(ps) or not yes or not no:
                return None
            a, b = tree(yes, k + 1), tree(no, k + 1)
            if a is None or b is None:
                return None
            return ast.IfExp(test=t0, body=a, orelse=b)
        return tree(paths, 0)

    def bind_args(self, t, call):
        a = t.node.args
        names = [x.arg for x in a.args]
        static = any(ast.unparse(d) == 'staticmethod'
                     for d in t.node.decorator_list)
        env = {}
        if t.cls is not None and not static:
            recv = call.func.value if isinstance(call.func, ast.Attribute) \
                else None
            if recv is None:
                return None
            # cls.m(...) on the class itself passes no instance
            if isinstance(recv, ast.Name) and recv.id not in ('self', 'cls'):
                r = self.model.resolve_name(t.module, recv.id)
                if r and r[0] == 'class':
                    return None
            env[names[0]] = recv
            names = names[1:]
        defaults = dict(zip(names[len(names) - len(a.defaults):], a.defaults))
        if any(isinstance(x, ast.Starred) for x in call.args) or \
                a.vararg or a.kwarg:
            return None
        if len(call.args) > len(names):
            return None
        for i, arg in enumerate(call.args):
            env[names[i]] = arg
        for k in call.keywords:
            if k.arg is None or k.arg not in names:
                return None
            env[k.arg] = k.value
        for n in names:
            if n not in env:
                if n not in defaults:
                    return None
                env[n] = defaults[n]
        return env

    _NORETURN = {}

    def never_returns(self, call):
        """the call resolves to a package function none of whose paths ends
        normally (an error helper that always raises)"""
        t = self.callee(call, self.f)
        if t is None:
            return False
        if t.qual not in SymBody._NORETURN:
            from ..cfg import cfg_of
            try:
                cfg = cfg_of(t)
                SymBody._NORETURN[t.qual] = cfg.exit not in cfg.reachable()
            except Exception:
                SymBody._NORETURN[t.qual] = False
        return SymBody._NORETURN[t.qual]

    def fresh(self, base):
        self._fresh += 1
        return ast.Name(id='{}${}'.format(base, self._fresh), ctx=ast.Load())

    # ---- statements -----------------------------------------------------------
    def run(self, stmts, env=None):
        p = Path()
        p.env = dict(env or {})
        p.displays = {k for k, v in p.env.items()
                      if self._mutable_display(v)}
        return self.block(stmts, [p])

    def block(self, stmts, paths):
        for st in stmts:
            nxt = []
            for p in paths:
                if p.end != 'fall':
                    nxt.append(p)
                else:
                    nxt.extend(self.stmt(st, p))
            paths = nxt
            if len(paths) > self.max_paths:
                raise AnalysisError('too many paths in ' + self.f.qual)
        return paths

    @staticmethod
    def _mutable_display(v):
        if isinstance(v, (ast.List, ast.Dict, ast.Set, ast.ListComp,
                          ast.DictComp, ast.SetComp)):
            return True
        return isinstance(v, ast.Call) and isinstance(v.func, ast.Name) and \
            v.func.id in ('list', 'dict', 'set', 'bytearray', 'deque')

    def assign(self, t, v, p, node):
        if isinstance(t, ast.Name):
            if self._mutable_display(v):
                # a fresh mutable object: reads see the display only until
                # something may have mutated it (see _kill_mutated)
                p.env[t.id] = v
                p.displays = getattr(p, 'displays', set()) | {t.id}
                p.events.append(('bind', t.id, v, node))
            else:
                p.env[t.id] = v
                if t.id in getattr(p, 'displays', ()):
                    p.displays = p.displays - {t.id}
        elif isinstance(t, (ast.Tuple, ast.List)):
            if isinstance(v, (ast.Tuple, ast.List)) and \
                    len(v.elts) == len(t.elts):
                for x, y in zip(t.elts, v.elts):
                    self.assign(x, y, p, node)
            elif isinstance(v, ast.IfExp) and self._tuple_arity(v) == \
                    len(t.elts):
                for k, x in enumerate(t.elts):
                    self.assign(x, self._project(v, k), p, node)
            else:
                for k, x in enumerate(t.elts):
                    sub = ast.Subscript(value=clone(v),
                                        slice=ast.Constant(value=k),
                                        ctx=ast.Load())
                    self.assign(x, self.S(sub, {}), p, node)
        elif isinstance(t, ast.Attribute):
            key = ast.unparse(t)
            p.env[key] = v
            p.events.append(('set', key, v, node))
        elif isinstance(t, ast.Subscript):
            p.events.append(('store', self.S(t.value, p.env),
                             self.S(t.slice, p.env) if not isinstance(
                                 t.slice, ast.Slice) else
                             self._slice(t.slice, p.env), v, node))
        else:
            raise AnalysisError('assignment target ' + u(t)[:40])

    def _fork_value(self, p, v, depth):
        if not isinstance(v, ast.IfExp) or depth > 6:
            return [(p, v)]
        out = []
        for (q, val) in self.branch(v.test, p):
            out.extend(self._fork_value(q, v.body if val else v.orelse,
                                        depth + 1))
        return out

    def _slice(self, sl, env):
        return ast.Slice(
            lower=self.S(sl.lower, env) if sl.lower is not None else None,
            upper=self.S(sl.upper, env) if sl.upper is not None else None,
            step=self.S(sl.step, env) if sl.step is not None else None)

    def _tuple_arity(self, e):
        if isinstance(e, ast.Tuple):
            return len(e.elts)
        if isinstance(e, ast.IfExp):
            a, b = self._tuple_arity(e.body), self._tuple_arity(e.orelse)
            return a if a == b else None
        return None

    def _project(self, e, k):
        if isinstance(e, ast.Tuple):
            return e.elts[k]
        return ast.IfExp(test=e.test, body=self._project(e.body, k),
                         orelse=self._project(e.orelse, k))

    def truth(self, t):
        """True / False when the substituted test is decided, else None"""
        if isinstance(t, ast.Constant):
            return bool(t.value)
        if isinstance(t, ast.UnaryOp) and isinstance(t.op, ast.Not):
            r = self.truth(t.operand)
            return None if r is None else not r
        if isinstance(t, ast.Compare) and len(t.ops) == 1 and \
                isinstance(t.ops[0], (ast.Is, ast.IsNot)) and \
                isinstance(t.comparators[0], ast.Constant) and \
                t.comparators[0].value is None:
            if isinstance(t.left, ast.Constant):
                r = t.left.value is None
                return r if isinstance(t.ops[0], ast.Is) else not r
        return None

    def branch(self, t, p, depth=0):
        """decide a (substituted) test on path p: -> [(path, bool)], forking
        on the ATOMIC conditions in short-circuit order, so every recorded
        condition is a single comparison / call / name"""
        r = self.truth(t)
        if r is not None:
            return [(p, r)]
        if depth > 8:
            q1, q2 = p, p.clone()
            q1.conds.append((t, True))
            q2.conds.append((t, False))
            return [(q1, True), (q2, False)]
        if isinstance(t, ast.UnaryOp) and isinstance(t.op, ast.Not):
            return [(q, not v) for (q, v) in
                    self.branch(t.operand, p, depth + 1)]
        if isinstance(t, ast.BoolOp):
            is_or = isinstance(t.op, ast.Or)
            pending = [p]
            out = []
            for k, v in enumerate(t.values):
                nxt = []
                for q in pending:
                    for (q2, val) in self.branch(v, q, depth + 1):
                        if val == is_or:
                            out.append((q2, is_or))      # short-circuit
                        elif k == len(t.values) - 1:
                            out.append((q2, not is_or))
                        else:
                            nxt.append(q2)
                pending = nxt
                if not pending:
                    break
            return out
        if isinstance(t, ast.IfExp):
            out = []
            for (q, val) in self.branch(t.test, p, depth + 1):
                out.extend(self.branch(t.body if val else t.orelse, q,
                                       depth + 1))
            return out
        # the same test evaluated again with nothing having happened in
        # between has the same outcome
        key = ast.unparse(t)
        for i in range(len(p.conds) - 1, -1, -1):
            (t0, v0) = p.conds[i]
            if p.conds.at[i] != len(p.events):
                break
            if ast.unparse(t0) == key:
                return [(p, v0)]
        q1, q2 = p, p.clone()
        q1.conds.append((t, True))
        q2.conds.append((t, False))
        return [(q1, True), (q2, False)]

    _MUTATORS = {'append', 'extend', 'insert', 'pop', 'remove', 'clear',
                 'sort', 'reverse', 'update', 'add', 'discard', 'setdefault',
                 'popitem', 'write', 'appendleft', 'popleft', '__setitem__'}

    def _kill_mutated(self, st, p):
        """locals bound to a list / dict / set display stop being known by
        value once the statement may mutate them: a mutating method call on
        them, a subscript store, or their being handed to any call"""
        disp = getattr(p, 'displays', None)
        if not disp:
            return
        kill = set()
        for n in ast.walk(st):
            if isinstance(n, ast.Call):
                f = n.func
                if isinstance(f, ast.Attribute) and \
                        isinstance(f.value, ast.Name) and \
                        f.value.id in disp and f.attr in self._MUTATORS:
                    kill.add(f.value.id)
                for a in list(n.args) + [k.value for k in n.keywords]:
                    if isinstance(a, ast.Name) and a.id in disp and not (
                            isinstance(f, ast.Name) and f.id in (
                                'len', 'bytes', 'tuple', 'list', 'sorted',
                                'reversed', 'enumerate', 'sum', 'min',
                                'max', 'any', 'all', 'isinstance')) and not (
                            isinstance(f, ast.Attribute) and
                            f.attr == 'join'):
                        kill.add(a.id)
            elif isinstance(n, (ast.Subscript, ast.Attribute)) and \
                    isinstance(n.ctx, (ast.Store, ast.Del)) and \
                    isinstance(n.value, ast.Name) and n.value.id in disp:
                kill.add(n.value.id)
            elif isinstance(n, (ast.For, ast.While)):
                for m in ast.walk(n):
                    if isinstance(m, ast.Name) and m.id in disp:
                        kill.add(m.id)
        for k in kill:
            p.env.pop(k, None)
        p.displays = disp - kill

    def stmt(self, st, p):
        self._kill_mutated(st, p)
        env = p.env
        if isinstance(st, ast.Expr):
            v = st.value
            if isinstance(v, ast.Constant):
                return [p]
            if isinstance(v, ast.Yield):
                p.events.append(('yield', self.S(v.value, env)
                                 if v.value is not None else None, st))
                return [p]
            if isinstance(v, ast.YieldFrom):
                p.events.append(('yield_from', self.S(v.value, env), st))
                return [p]
            p.events.append(('call', self.S(v, env), st))
            if isinstance(v, ast.Call) and self.never_returns(v):
                p.end = 'raise'
            return [p]
        if isinstance(st, ast.Assign):
            v = self.S(st.value, env)
            if isinstance(st.value, (ast.Yield, ast.YieldFrom)):
                raise AnalysisError('yield expression value used')
            # a conditional value (typically an inlined helper with several
            # returns) forks the path instead of being carried as IfExp
            outs = []
            for (q, val) in self._fork_value(p, v, 0):
                for t in st.targets:
                    self.assign(t, val, q, st)
                outs.append(q)
            return outs
        if isinstance(st, ast.AnnAssign):
            if st.value is not None:
                self.assign(st.target, self.S(st.value, env), p, st)
            return [p]
        if isinstance(st, ast.AugAssign):
            cur = clone(st.target)
            for x in ast.walk(cur):
                if hasattr(x, 'ctx'):
                    x.ctx = ast.Load()
            v = self.S(ast.BinOp(left=cur, op=st.op, right=st.value), env)
            self.assign(st.target, v, p, st)
            return [p]
        if isinstance(st, ast.If):
            t = self.S(st.test, env)
            out = []
            for (q, val) in self.branch(t, p):
                out.extend(self.block(st.body if val else st.orelse, [q]))
            return out
        if isinstance(st, ast.Return):
            p.end = 'return'
            p.ret = self.S(st.value, env) if st.value is not None else None
            return [p]
        if isinstance(st, ast.Continue):
            p.end = 'continue'
            return [p]
        if isinstance(st, ast.Break):
            p.end = 'break'
            return [p]
        if isinstance(st, ast.Raise):
            p.end = 'raise'
            p.events.append(('raise', self.S(st.exc, env)
                             if st.exc is not None else None, st))
            return [p]
        if isinstance(st, ast.Pass):
            return [p]
        if isinstance(st, ast.Assert):
            p.events.append(('assert', self.S(st.test, env), st))
            return [p]
        if isinstance(st, ast.For) and not st.orelse and \
                isinstance(st.iter, (ast.Tuple, ast.List)) and \
                len(st.iter.elts) == 1 and isinstance(st.target, ast.Name):
            # one-trip loop (the normaliser's `for _once in (None,)` around a
            # body that used `continue`, or a loop over a 1-tuple): a block
            env[st.target.id] = self.S(st.iter.elts[0], env)
            out = []
            for q in self.block(st.body, [p]):
                if q.end in ('continue', 'break'):
                    q.end = 'fall'
                out.append(q)
            return out
        if isinstance(st, (ast.For, ast.While)):
            p.events.append(('loop', st, dict(env)))
            # havoc what the loop assigns
            for x in ast.walk(st):
                if isinstance(x, ast.Name) and isinstance(x.ctx, ast.Store):
                    env[x.id] = self.fresh(x.id)
                elif isinstance(x, ast.Attribute) and \
                        isinstance(x.ctx, ast.Store):
                    env[ast.unparse(x)] = self.fresh(x.attr)
            return [p]
        if isinstance(st, ast.With):
            for it in st.items:
                p.events.append(('with', self.S(it.context_expr, env), st))
                if it.optional_vars is not None:
                    for x in ast.walk(it.optional_vars):
                        if isinstance(x, ast.Name):
                            env[x.id] = self.fresh(x.id)
            return self.block(st.body, [p])
        if isinstance(st, ast.Try):
            out = self.block(st.body, [p.clone()])
            for h in st.handlers:
                q = p.clone()
                q.conds.append((ast.Name(
                    id='raised:' + (u(h.type) if h.type else 'any'),
                    ctx=ast.Load()), True))
                if h.name:
                    q.env[h.name] = self.fresh(h.name)
                out.extend(self.block(h.body, [q]))
            if st.orelse:
                out = [x for x in out if x.end != 'fall' or x.conds and
                       u(x.conds[-1][0]).startswith('raised:')] + \
                    self.block(st.orelse, [x for x in out if x.end == 'fall'
                                           and not (x.conds and u(
                                               x.conds[-1][0]).startswith(
                                                   'raised:'))])
            if st.finalbody:
                res = []
                for x in out:
                    end, ret = x.end, x.ret
                    x.end = 'fall'
                    for y in self.block(st.finalbody, [x]):
                        if y.end == 'fall':
                            y.end, y.ret = end, ret
                        res.append(y)
                out = res
            return out
        if isinstance(st, (ast.FunctionDef, ast.ClassDef, ast.Import,
                           ast.ImportFrom, ast.Global, ast.Nonlocal)):
            return [p]
        if isinstance(st, ast.Delete):
            p.events.append(('del', [self.S(t, env) for t in st.targets], st))
            return [p]
        raise AnalysisError('statement outside the substitution model: ' +
                            u(st)[:60])


def list_contents(sym, path, name, upto=None):
    """element expressions of the list local `name` as built on a path: its
    display / comprehension over a literal sequence, then append / extend
    calls, in order (None when it cannot be reconstructed)"""
    from ..astutil import clone
    items = None
    for k, e in enumerate(path.events):
        if upto is not None and k >= upto:
            break
        if e[0] == 'bind' and e[1] == name:
            v = e[2]
            if isinstance(v, ast.List):
                items = list(v.elts)
            elif isinstance(v, ast.ListComp) and len(v.generators) == 1 and \
                    not v.generators[0].ifs and \
                    isinstance(v.generators[0].iter, (ast.Tuple, ast.List)) \
                    and isinstance(v.generators[0].target, ast.Name):
                tgt = v.generators[0].target.id
                items = [sym.S(v.elt, {tgt: x})
                         for x in v.generators[0].iter.elts]
            else:
                return None
        elif e[0] == 'call' and items is not None and \
                isinstance(e[1], ast.Call) and \
                isinstance(e[1].func, ast.Attribute) and \
                isinstance(e[1].func.value, ast.Name) and \
                e[1].func.value.id == name:
            if e[1].func.attr == 'append' and len(e[1].args) == 1:
                items.append(e[1].args[0])
            elif e[1].func.attr == 'extend' and len(e[1].args) == 1 and \
                    isinstance(e[1].args[0], (ast.List, ast.Tuple)):
                items.extend(e[1].args[0].elts)
            else:
                return None
    return items
