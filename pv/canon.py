"""N7: baseline-guided canonicalisation of conditions.

`canon(e)` maps a condition to a normal form that is invariant under the
exact rewrites a maintainer applies without changing behaviour:

  * operand order of one comparison        a < b      ==  b > a
                                           a == b     ==  b == a
  * negation pushed inwards                not (a == b)   ==  a != b
                                           not (A or B)   ==  not A and not B
                                           not not A      ==  A     (tests)
                                           not any(P ..)  ==  all(not P ..)
  * chained comparison                     a <= i < b  ==  a <= i and i < b
  * nested and/or of the same kind flattened (short-circuit order kept:
    conjuncts are NEVER reordered)
  * a conditional expression with a constant branch, as a test
                                           True if A else B  ==  A or B

The pinned tree's own spelling of every condition is frozen in
pv/refs/baseline_exprs.json (tools/gen_baseline_exprs.py), keyed by function
and by the hash of the normal form.  `n7_restore(f)` replaces a condition of
the analysed function whose normal form the pinned function also has, but
spelled differently, by the pinned spelling; an `if`/conditional expression
whose *negated* test is the pinned one gets its branches swapped.  Nothing
else is touched, so a condition that means something different keeps its
text and reaches the rules as written.

Soundness notes: the comparison flips assume total orders (ints, bytes,
str -- the only operand types of picotool's comparisons; no floats/NaN, no
sets), and an operand swap is done only when at most one operand contains a
call (evaluation order of effects)."""
import ast
import hashlib
import json
import os

from .astutil import clone

PATH = os.path.join(os.path.dirname(os.path.abspath(__file__)), 'refs',
                    'baseline_exprs.json')

_FLIP = {ast.Eq: ast.NotEq, ast.NotEq: ast.Eq, ast.Lt: ast.GtE,
         ast.GtE: ast.Lt, ast.Gt: ast.LtE, ast.LtE: ast.Gt,
         ast.Is: ast.IsNot, ast.IsNot: ast.Is, ast.In: ast.NotIn,
         ast.NotIn: ast.In}
_MIRROR = {ast.Gt: ast.Lt, ast.GtE: ast.LtE}
_SYMMETRIC = (ast.Eq, ast.NotEq, ast.Is, ast.IsNot)
_COND = (ast.Compare, ast.BoolOp)


def _has_call(e):
    return any(isinstance(x, (ast.Call, ast.Yield, ast.YieldFrom, ast.Await,
                              ast.NamedExpr)) for x in ast.walk(e))


def _pure_atom(e):
    if isinstance(e, (ast.Name, ast.Constant)):
        return True
    if isinstance(e, ast.Attribute):
        return _pure_atom(e.value)
    if isinstance(e, ast.UnaryOp):
        return _pure_atom(e.operand)
    if isinstance(e, ast.BinOp):
        return _pure_atom(e.left) and _pure_atom(e.right)
    if isinstance(e, ast.Subscript):
        return _pure_atom(e.value) and _pure_atom(e.slice)
    return False


def _d(e):
    return ast.dump(e)


def _is_quant(e):
    return isinstance(e, ast.Call) and isinstance(e.func, ast.Name) and \
        e.func.id in ('any', 'all') and len(e.args) == 1 and \
        not e.keywords and isinstance(e.args[0], ast.GeneratorExp)


def _cmp1(left, op, right):
    """one comparison in canonical orientation"""
    t = type(op)
    swap_ok = not (_has_call(left) and _has_call(right))
    if t in _MIRROR and swap_ok:
        left, right, t = right, left, _MIRROR[t]
    elif t in _SYMMETRIC and swap_ok and _d(right) < _d(left):
        left, right = right, left
    return ast.Compare(left=left, ops=[t()], comparators=[right])


def _generic(e):
    """canonicalise the children of a non-condition node (value context)"""
    if not isinstance(e, ast.AST):
        return e
    kw = {}
    for name, val in ast.iter_fields(e):
        if isinstance(val, list):
            kw[name] = [canon(v, False) if isinstance(v, ast.expr)
                        else _generic(v) for v in val]
        elif isinstance(val, ast.expr):
            kw[name] = canon(val, False)
        elif isinstance(val, ast.AST):
            kw[name] = _generic(val)
        else:
            kw[name] = val
    return type(e)(**kw)


def _flat(op, values):
    out = []
    for v in values:
        if isinstance(v, ast.BoolOp) and isinstance(v.op, type(op)):
            out.extend(v.values)
        else:
            out.append(v)
    return ast.BoolOp(op=op, values=out)


def canon(e, boolctx=False):
    """-> a fresh canonical AST of expression e"""
    if isinstance(e, ast.UnaryOp) and isinstance(e.op, ast.Not):
        inner = canon(e.operand, True)
        return _neg(inner, boolctx)
    if boolctx and isinstance(e, ast.Compare) and len(e.ops) == 1:
        # len(X) > 0 / len(X) != 0 / 0 < len(X)  ==  X   (as a test);
        # len(X) == 0 / 0 == len(X)              ==  not X
        a, op, b = e.left, e.ops[0], e.comparators[0]

        def is_len(x):
            return isinstance(x, ast.Call) and isinstance(
                x.func, ast.Name) and x.func.id == 'len' and \
                len(x.args) == 1 and not x.keywords

        def is_zero(x):
            return isinstance(x, ast.Constant) and x.value == 0 and \
                not isinstance(x.value, bool)
        if is_len(b) and is_zero(a):
            a, b = b, a
            op = {ast.Lt: ast.Gt, ast.LtE: ast.GtE, ast.Gt: ast.Lt,
                  ast.GtE: ast.LtE}.get(type(op), type(op))()
        if is_len(a) and is_zero(b):
            if isinstance(op, (ast.Gt, ast.NotEq)):
                return canon(a.args[0], True)
            if isinstance(op, (ast.Eq, ast.LtE)):
                return _neg(canon(a.args[0], True), True)
    if isinstance(e, ast.Compare):
        operands = [canon(x, False) for x in [e.left] + list(e.comparators)]
        if len(e.ops) == 1:
            return _cmp1(operands[0], e.ops[0], operands[1])
        if all(_pure_atom(x) for x in operands[1:-1]):
            parts = [_cmp1(operands[i], e.ops[i], operands[i + 1])
                     for i in range(len(e.ops))]
            return _flat(ast.And(), parts)
        return ast.Compare(left=operands[0], ops=[type(o)() for o in e.ops],
                           comparators=operands[1:])
    if isinstance(e, ast.BoolOp):
        return _flat(type(e.op)(), [canon(v, boolctx) for v in e.values])
    if _is_quant(e):
        g = e.args[0]
        gen = ast.GeneratorExp(
            elt=canon(g.elt, True),
            generators=[ast.comprehension(
                target=_generic(c.target), iter=canon(c.iter, False),
                ifs=[canon(i, True) for i in c.ifs], is_async=c.is_async)
                for c in g.generators])
        return ast.Call(func=ast.Name(id=e.func.id, ctx=ast.Load()),
                        args=[gen], keywords=[])
    if boolctx and isinstance(e, ast.IfExp):
        # as a test:  True if A else B  ==  A or B ;  B if A else False  ==
        # A and B ;  False if A else B  ==  not A and B ;  B if A else True
        # ==  not A or B   (what an inlined early-return helper leaves)
        def cst(x, v):
            return isinstance(x, ast.Constant) and x.value is v
        if cst(e.body, True):
            return _flat(ast.Or(), [canon(e.test, True),
                                    canon(e.orelse, True)])
        if cst(e.orelse, False):
            return _flat(ast.And(), [canon(e.test, True),
                                     canon(e.body, True)])
        if cst(e.body, False):
            return _flat(ast.And(), [_neg(canon(e.test, True), True),
                                     canon(e.orelse, True)])
        if cst(e.orelse, True):
            return _flat(ast.Or(), [_neg(canon(e.test, True), True),
                                    canon(e.body, True)])
    if isinstance(e, ast.IfExp):
        return ast.IfExp(test=canon(e.test, True),
                         body=canon(e.body, boolctx),
                         orelse=canon(e.orelse, boolctx))
    return _generic(e)


def _neg(c, boolctx):
    """negation of an already-canonical condition"""
    if isinstance(c, ast.Compare) and len(c.ops) == 1:
        return _cmp1(c.left, _FLIP[type(c.ops[0])](), c.comparators[0])
    if isinstance(c, ast.BoolOp):
        op = ast.Or() if isinstance(c.op, ast.And) else ast.And()
        return _flat(op, [_neg(v, True) for v in c.values])
    if isinstance(c, ast.UnaryOp) and isinstance(c.op, ast.Not) and boolctx:
        return c.operand
    if _is_quant(c):
        g = c.args[0]
        other = 'all' if c.func.id == 'any' else 'any'
        return ast.Call(func=ast.Name(id=other, ctx=ast.Load()), args=[
            ast.GeneratorExp(elt=_neg(g.elt, True),
                             generators=g.generators)], keywords=[])
    return ast.UnaryOp(op=ast.Not(), operand=c)


def _push_not(c):
    """`not c` with the negation pushed one level in, keeping the operand
    spelling (no reorientation); None when c is not a comparison / and / or"""
    if isinstance(c, ast.Compare) and len(c.ops) == 1:
        return ast.Compare(left=c.left, ops=[_FLIP[type(c.ops[0])]()],
                           comparators=c.comparators)
    if isinstance(c, ast.BoolOp):
        op = ast.Or() if isinstance(c.op, ast.And) else ast.And()
        vals = []
        for v in c.values:
            p = _push_not(v)
            if p is None:
                if isinstance(v, ast.UnaryOp) and isinstance(v.op, ast.Not):
                    p = v.operand
                else:
                    p = ast.UnaryOp(op=ast.Not(), operand=v)
            vals.append(p)
        return ast.BoolOp(op=op, values=vals)
    return None


def key(e, boolctx):
    return hashlib.sha1(_d(canon(e, boolctx)).encode(
        'utf-8', 'replace')).hexdigest()[:14]


def neg_key(e):
    return hashlib.sha1(_d(_neg(canon(e, True), True)).encode(
        'utf-8', 'replace')).hexdigest()[:14]


def _is_cond(e):
    return isinstance(e, _COND) or _is_quant(e) or (
        isinstance(e, ast.UnaryOp) and isinstance(e.op, ast.Not))


def conditions(fnode):
    """maximal condition expressions of a function's own body:
    -> [(expr, boolctx, owner, field, index)]"""
    out = []

    def rec(node, boolctx_fields):
        for name, val in ast.iter_fields(node):
            items = val if isinstance(val, list) else [val]
            for i, v in enumerate(items):
                if isinstance(v, (ast.FunctionDef, ast.AsyncFunctionDef,
                                  ast.ClassDef, ast.Lambda)):
                    continue
                if not isinstance(v, ast.AST):
                    continue
                bctx = name in boolctx_fields
                if isinstance(v, ast.expr) and (_is_cond(v) or bctx):
                    out.append((v, bctx, node, name,
                                i if isinstance(val, list) else None))
                    continue
                rec(v, _bool_fields(v))
    rec(fnode, ())
    return out


def _bool_fields(node):
    if isinstance(node, (ast.If, ast.While, ast.IfExp, ast.Assert)):
        return ('test',)
    if isinstance(node, ast.comprehension):
        return ('ifs',)
    return ()


def _parts(e):
    """sub-conditions to fall back on when the whole does not match"""
    if isinstance(e, ast.BoolOp):
        return [(v, e, 'values', i) for i, v in enumerate(e.values)]
    if isinstance(e, ast.UnaryOp):
        return [(e.operand, e, 'operand', None)]
    if isinstance(e, ast.Compare):
        out = [(e.left, e, 'left', None)]
        out += [(c, e, 'comparators', i) for i, c in
                enumerate(e.comparators)]
        return out
    if _is_quant(e):
        g = e.args[0]
        out = [(g.elt, g, 'elt', None)]
        for c in g.generators:
            out += [(x, c, 'ifs', i) for i, x in enumerate(c.ifs)]
        return out
    return []


def table_of(fnode):
    """{key: source} over the conditions of a pinned function (and their
    sub-conditions)"""
    tab = {}

    def add(e, bctx):
        tab.setdefault(('b' if bctx else 'v') + key(e, bctx), ast.unparse(e))
        for (s, _o, fld, _i) in _parts(e):
            if _is_cond(s):
                add(s, bctx if isinstance(e, ast.BoolOp) else
                    (fld in ('operand', 'elt', 'ifs')))
    for (e, bctx, _o, _f, _i) in conditions(fnode):
        add(e, bctx)
    return tab


_TABLE = {}


def load():
    if 'd' not in _TABLE:
        try:
            with open(PATH) as fh:
                _TABLE['d'] = json.load(fh)
        except OSError:
            _TABLE['d'] = {}
    return _TABLE['d']


def _set(owner, fld, idx, new):
    if idx is None:
        setattr(owner, fld, new)
    else:
        getattr(owner, fld)[idx] = new


def _orientation(tab):
    """which side of a comparison each operand text takes in the pinned
    function: {dump(operand): {'L', 'R'}}, and whether a literal ever stands
    on the left"""
    sides = {}
    const_left = False
    for src in tab.values():
        try:
            e = ast.parse(src, mode='eval').body
        except SyntaxError:
            continue
        for x in ast.walk(e):
            if isinstance(x, ast.Compare) and len(x.ops) == 1 and \
                    type(x.ops[0]) not in (ast.In, ast.NotIn):
                sides.setdefault(_d(x.left), set()).add('L')
                sides.setdefault(_d(x.comparators[0]), set()).add('R')
                if isinstance(x.left, ast.Constant) and not isinstance(
                        x.comparators[0], ast.Constant):
                    const_left = True
    return sides, const_left


_SWAP = {ast.Lt: ast.Gt, ast.Gt: ast.Lt, ast.LtE: ast.GtE, ast.GtE: ast.LtE,
         ast.Eq: ast.Eq, ast.NotEq: ast.NotEq, ast.Is: ast.Is,
         ast.IsNot: ast.IsNot}


def _orient(e, sides, const_left):
    """an unmatched comparison: put its operands on the sides the pinned
    function uses for them (so that a changed bound or operator is read by
    the rules in the spelling they know); -> True when swapped"""
    if not (isinstance(e, ast.Compare) and len(e.ops) == 1 and
            type(e.ops[0]) in _SWAP):
        return False
    left, right = e.left, e.comparators[0]
    if _has_call(left) and _has_call(right):
        return False
    sl, sr = sides.get(_d(left), set()), sides.get(_d(right), set())
    want = False
    if (sl == {'R'} and 'R' not in sr) or (sr == {'L'} and 'L' not in sl):
        want = True
    if isinstance(left, ast.Constant) and not isinstance(
            right, ast.Constant) and not const_left and 'L' not in sl:
        want = True
    if not want:
        return False
    e.left, e.comparators = right, [left]
    e.ops = [_SWAP[type(e.ops[0])]()]
    return True


def n7_restore(fnode, tab):
    """rewrite the conditions of fnode to the pinned spelling where the normal
    forms agree; -> number of rewrites"""
    n = [0]
    sides, const_left = _orientation(tab)

    def parse(src, like):
        e = ast.parse(src, mode='eval').body
        for x in ast.walk(e):
            ast.copy_location(x, like)
        return e

    def visit(e, bctx, owner, fld, idx):
        k = ('b' if bctx else 'v') + key(e, bctx)
        src = tab.get(k)
        if src is not None:
            if src != ast.unparse(e):
                _set(owner, fld, idx, parse(src, e))
                n[0] += 1
            return
        if bctx and fld == 'test' and idx is None and (
                (isinstance(owner, ast.If) and owner.orelse) or
                isinstance(owner, ast.IfExp)):
            src = tab.get('b' + neg_key(e))
            if src is not None:
                owner.test = parse(src, e)
                owner.body, owner.orelse = owner.orelse, owner.body
                n[0] += 1
                return
        # no pinned condition means the same: normalise the spelling only
        if isinstance(e, ast.UnaryOp) and isinstance(e.op, ast.Not) and \
                isinstance(e.operand, (ast.BoolOp, ast.Compare)) and (
                    bctx or isinstance(e.operand, ast.Compare)) and not (
                    isinstance(e.operand, ast.Compare) and
                    len(e.operand.ops) != 1):
            pushed = _push_not(e.operand)
            if pushed is not None:
                for x in ast.walk(pushed):
                    ast.copy_location(x, e)
                _set(owner, fld, idx, pushed)
                n[0] += 1
                visit(pushed, bctx, owner, fld, idx)
                return
        if _orient(e, sides, const_left):
            n[0] += 1
        for (s, o, f2, i2) in _parts(e):
            if _is_cond(s):
                visit(s, bctx if isinstance(e, ast.BoolOp) else
                      (f2 in ('operand', 'elt', 'ifs')), o, f2, i2)
            else:
                for (c, cb, co, cf, ci) in conditions(s):
                    visit(c, cb, co, cf, ci)
    for (e, bctx, owner, fld, idx) in conditions(fnode):
        visit(e, bctx, owner, fld, idx)
    return n[0]


def generate(root='/repo'):
    """{relpath: {qualname: {key: source}}} of a tree"""
    out = {}
    pkg = os.path.join(root, 'pico8')
    for dp, _dn, fns in os.walk(pkg):
        for fn in sorted(fns):
            if not fn.endswith('.py'):
                continue
            p = os.path.join(dp, fn)
            rel = os.path.relpath(p, root)
            with open(p, encoding='utf-8') as fh:
                tree = ast.parse(fh.read())
            mod = {}

            def walk(body, prefix):
                for nd in body:
                    if isinstance(nd, (ast.FunctionDef,
                                       ast.AsyncFunctionDef)):
                        t = table_of(nd)
                        if t:
                            mod[prefix + nd.name] = t
                        walk(nd.body, prefix + nd.name + '.')
                    elif isinstance(nd, ast.ClassDef):
                        walk(nd.body, prefix + nd.name + '.')
            walk(tree.body, '')
            if mod:
                out[rel] = mod
    return out
