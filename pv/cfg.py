"""E3 -- intraprocedural statement CFG with exception edges, dominance and
path queries.  Hand built over the statement kinds the repository uses.

Nodes are atomic evaluation steps: a simple statement, the test of an
`if`/`while`, the iterator step of a `for`, the item list of a `with`, the
dispatch point of a `try`'s handlers.  `finally` bodies are duplicated per way
of entering them (normal, exception, return, break, continue), so no path
confuses an exceptional entry with a normal exit.
"""
import ast

from .core import AnalysisError
from .srcmodel import walk_own


class Node:
    __slots__ = ('id', 'kind', 'ast', 'stmt', 'succ', 'pred', 'copy')

    def __init__(self, id, kind, astnode=None, stmt=None, copy=''):
        self.id = id
        self.kind = kind
        self.ast = astnode
        self.stmt = stmt if stmt is not None else astnode
        self.succ = []
        self.pred = []
        self.copy = copy

    @property
    def lineno(self):
        return getattr(self.ast, 'lineno', 0) or 0

    def __repr__(self):
        return '<{}#{} L{}{}>'.format(self.kind, self.id, self.lineno,
                                      self.copy)


class _Ctx:
    __slots__ = ('exc', 'ret', 'brk', 'cont', 'copy')

    def __init__(self, exc, ret, brk, cont, copy=''):
        self.exc, self.ret, self.brk, self.cont = exc, ret, brk, cont
        self.copy = copy

    def replace(self, **kw):
        c = _Ctx(self.exc, self.ret, self.brk, self.cont, self.copy)
        for k, v in kw.items():
            setattr(c, k, v)
        return c


_CATCH_ALL = {'Exception', 'BaseException'}


def _may_raise(node):
    for n in walk_own(node):
        if isinstance(n, (ast.Call, ast.Subscript, ast.BinOp, ast.Attribute,
                          ast.Await, ast.Yield, ast.YieldFrom, ast.Starred,
                          ast.Compare, ast.UnaryOp)):
            return True
    return False


class CFG:
    def __init__(self, fnode):
        self.fnode = fnode
        self.nodes = []
        self.entry = self._new('entry')
        self.exit = self._new('exit')
        self.raise_exit = self._new('raise_exit')
        exc, ret = [], []
        ctx = _Ctx(exc, ret, None, None)
        out = self._seq(fnode.body, [(self.entry, 'next')], ctx)
        self._connect(out, self.exit)
        self._connect(ret, self.exit)
        self._connect(exc, self.raise_exit)
        self._index = None
        self._dom = None

    # ---- construction ----------------------------------------------------
    def _new(self, kind, astnode=None, stmt=None, copy=''):
        n = Node(len(self.nodes), kind, astnode, stmt, copy)
        self.nodes.append(n)
        return n

    def _connect(self, preds, node):
        for (p, label) in preds:
            p.succ.append((node, label))
            node.pred.append((p, label))

    def _seq(self, stmts, preds, ctx):
        for s in stmts:
            preds = self._stmt(s, preds, ctx)
        return preds

    def _simple(self, s, preds, ctx, kind='stmt', astnode=None):
        n = self._new(kind, astnode if astnode is not None else s, s,
                      ctx.copy)
        self._connect(preds, n)
        return n

    def _stmt(self, s, preds, ctx):
        if isinstance(s, ast.If):
            t = self._simple(s, preds, ctx, 'test', s.test)
            if _may_raise(s.test):
                ctx.exc.append((t, 'exc'))
            tv = _const_truth(s.test)
            tp = [] if tv is False else [(t, 'true')]
            fp = [] if tv is True else [(t, 'false')]
            out = self._seq(s.body, tp, ctx)
            out2 = self._seq(s.orelse, fp, ctx)
            return out + out2
        if isinstance(s, ast.While):
            t = self._simple(s, preds, ctx, 'test', s.test)
            if _may_raise(s.test):
                ctx.exc.append((t, 'exc'))
            tv = _const_truth(s.test)
            brk, cont = [], []
            c2 = ctx.replace(brk=brk, cont=cont)
            out = self._seq(s.body, [] if tv is False else [(t, 'true')], c2)
            self._connect(out + cont, t)
            fp = [] if tv is True else [(t, 'false')]
            out2 = self._seq(s.orelse, fp, ctx)
            return out2 + brk
        if isinstance(s, (ast.For, ast.AsyncFor)):
            it = self._simple(s, preds, ctx, 'iter', s)
            ctx.exc.append((it, 'exc'))
            brk, cont = [], []
            c2 = ctx.replace(brk=brk, cont=cont)
            out = self._seq(s.body, [(it, 'loop')], c2)
            self._connect(out + cont, it)
            out2 = self._seq(s.orelse, [(it, 'exhausted')], ctx)
            return out2 + brk
        if isinstance(s, (ast.With, ast.AsyncWith)):
            w = self._simple(s, preds, ctx, 'with', s)
            ctx.exc.append((w, 'exc'))
            return self._seq(s.body, [(w, 'next')], ctx)
        if isinstance(s, ast.Try):
            return self._try(s, preds, ctx)
        if isinstance(s, ast.Return):
            n = self._simple(s, preds, ctx)
            if s.value is not None and _may_raise(s.value):
                ctx.exc.append((n, 'exc'))
            ctx.ret.append((n, 'return'))
            return []
        if isinstance(s, ast.Raise):
            n = self._simple(s, preds, ctx)
            ctx.exc.append((n, 'exc'))
            return []
        if isinstance(s, ast.Break):
            n = self._simple(s, preds, ctx)
            if ctx.brk is None:
                raise AnalysisError('break outside loop')
            ctx.brk.append((n, 'break'))
            return []
        if isinstance(s, ast.Continue):
            n = self._simple(s, preds, ctx)
            if ctx.cont is None:
                raise AnalysisError('continue outside loop')
            ctx.cont.append((n, 'continue'))
            return []
        if isinstance(s, ast.Assert):
            n = self._simple(s, preds, ctx)
            ctx.exc.append((n, 'exc'))
            if _const_truth(s.test) is False:
                return []
            return [(n, 'next')]
        if isinstance(s, (ast.FunctionDef, ast.AsyncFunctionDef, ast.ClassDef,
                          ast.Pass, ast.Global, ast.Nonlocal, ast.Import,
                          ast.ImportFrom)):
            n = self._simple(s, preds, ctx)
            return [(n, 'next')]
        if isinstance(s, (ast.Assign, ast.AugAssign, ast.AnnAssign, ast.Expr,
                          ast.Delete)):
            n = self._simple(s, preds, ctx)
            if _may_raise(s):
                ctx.exc.append((n, 'exc'))
            return [(n, 'next')]
        raise AnalysisError('CFG: unsupported statement {} at line {}'.format(
            type(s).__name__, getattr(s, 'lineno', 0)))

    def _try(self, s, preds, ctx):
        has_fin = bool(s.finalbody)
        if has_fin:
            f_exc, f_ret = [], []
            f_brk = [] if ctx.brk is not None else None
            f_cont = [] if ctx.cont is not None else None
            inner = ctx.replace(exc=f_exc, ret=f_ret, brk=f_brk, cont=f_cont)
        else:
            inner = ctx
        if s.handlers:
            b_exc = []
            body_ctx = inner.replace(exc=b_exc)
        else:
            body_ctx = inner
        out = self._seq(s.body, preds, body_ctx)
        outs = []
        if s.handlers:
            d = self._new('except', s, s, ctx.copy)
            self._connect(b_exc, d)
            catch_all = False
            for h in s.handlers:
                hn = self._new('handler', h, s, ctx.copy)
                self._connect([(d, 'caught')], hn)
                outs += self._seq(h.body, [(hn, 'next')], inner)
                if h.type is None:
                    catch_all = True
                else:
                    names = [h.type] if not isinstance(h.type, ast.Tuple) \
                        else h.type.elts
                    for t in names:
                        if isinstance(t, ast.Name) and t.id in _CATCH_ALL:
                            catch_all = True
            if not catch_all:
                inner.exc.append((d, 'exc'))
        out = self._seq(s.orelse, out, inner)
        outs += out
        if not has_fin:
            return outs
        # duplicate the finally body per entry kind
        res = []

        def fin(entry_preds, tag):
            c = ctx.replace(copy=ctx.copy + '/fin-' + tag)
            return self._seq(s.finalbody, entry_preds, c)
        if outs:
            res = fin(outs, 'normal')
        if f_exc:
            o = fin(f_exc, 'exc')
            ctx.exc.extend((n, 'exc') for (n, _l) in o)
        if f_ret:
            o = fin(f_ret, 'return')
            ctx.ret.extend((n, 'return') for (n, _l) in o)
        if f_brk:
            o = fin(f_brk, 'break')
            ctx.brk.extend((n, 'break') for (n, _l) in o)
        if f_cont:
            o = fin(f_cont, 'continue')
            ctx.cont.extend((n, 'continue') for (n, _l) in o)
        return res

    # ---- queries -----------------------------------------------------------
    def index(self):
        """id(ast sub node) -> [cfg nodes] for every expression evaluated in
        the node (compound statements contribute only their header part)."""
        if self._index is None:
            idx = {}
            for n in self.nodes:
                if n.ast is None:
                    continue
                if n.kind == 'iter':
                    parts = [n.ast.target, n.ast.iter]
                elif n.kind == 'with':
                    parts = [i for i in n.ast.items]
                elif n.kind in ('except',):
                    parts = []
                elif n.kind == 'handler':
                    parts = [n.ast.type] if n.ast.type is not None else []
                else:
                    parts = [n.ast]
                idx.setdefault(id(n.ast), []).append(n)
                for p in parts:
                    for sub in walk_own(p):
                        idx.setdefault(id(sub), []).append(n)
            self._index = idx
        return self._index

    def nodes_of(self, astnode):
        return list(self.index().get(id(astnode), []))

    def reachable_from(self, start, avoid=(), skip_labels=(),
                       skip_edges=()):
        avoid = set(avoid)
        seen = set()
        stack = list(start) if isinstance(start, (list, set, tuple)) \
            else [start]
        while stack:
            n = stack.pop()
            if n in seen or n in avoid:
                continue
            seen.add(n)
            for (m, label) in n.succ:
                if label in skip_labels or (n, label) in skip_edges:
                    continue
                stack.append(m)
        return seen

    def edge_dominates(self, test, label, node):
        """Every path entry -> node takes the edge (test, label)."""
        if node not in self.reachable():
            return True
        return node not in self.reachable_from(
            self.entry, skip_edges={(test, label)})

    def reachable(self):
        return self.reachable_from(self.entry)

    def dominators(self):
        if self._dom is not None:
            return self._dom
        reach = self.reachable()
        order = [n for n in self.nodes if n in reach]
        dom = {n: set(order) for n in order}
        dom[self.entry] = {self.entry}
        changed = True
        while changed:
            changed = False
            for n in order:
                if n is self.entry:
                    continue
                ps = [p for (p, _l) in n.pred if p in reach]
                if not ps:
                    continue
                new = set.intersection(*(dom[p] for p in ps)) | {n}
                if new != dom[n]:
                    dom[n] = new
                    changed = True
        self._dom = dom
        return dom

    def dominates(self, a, b):
        """Every path entry -> b passes through a."""
        dom = self.dominators()
        return b in dom and a in dom[b]

    def any_dominates(self, a_nodes, b):
        """b is unreachable from entry once all a_nodes are removed."""
        if b in a_nodes:
            return True
        return b not in self.reachable_from(self.entry, avoid=a_nodes)

    def path_exists(self, src, dst, avoid=(), skip_labels=()):
        r = self.reachable_from([m for (m, l) in src.succ
                                 if l not in skip_labels],
                                avoid=avoid, skip_labels=skip_labels)
        return dst in r

    def find_path(self, src, dst, avoid=(), skip_labels=()):
        """Shortest path (list of nodes) for reports, or None."""
        avoid = set(avoid)
        prev = {src: None}
        queue = [src]
        while queue:
            n = queue.pop(0)
            for (m, label) in n.succ:
                if label in skip_labels or m in prev or m in avoid:
                    continue
                prev[m] = n
                if m is dst:
                    path = [m]
                    while prev[path[-1]] is not None:
                        path.append(prev[path[-1]])
                    return list(reversed(path))
                queue.append(m)
        return None

    def succ_by_label(self, node, label):
        return [m for (m, l) in node.succ if l == label]

    def fmt_path(self, path, module=None):
        return ' -> '.join('L{}'.format(n.lineno) if n.lineno else n.kind
                           for n in path)


def _const_truth(test):
    if isinstance(test, ast.Constant):
        return bool(test.value)
    return None


_cache = {}


def cfg_of(finfo):
    key = id(finfo.node)
    if key not in _cache:
        _cache[key] = CFG(finfo.node)
    return _cache[key]
