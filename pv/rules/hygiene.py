"""Name binding in the anchored functions (every check runs it on its own
functions, rule id R-<property>-names).

A name that a function reads but that is bound nowhere -- not a parameter,
never assigned / imported / looped over in the function or an enclosing one,
not a module-level name, not a builtin -- raises NameError the first time
that statement runs: the operation the property is about fails on every input
that reaches it.  (Deleting or renaming the only assignment of a local is the
usual way to get there while every test still passes, because the tests do
not reach the statement.)  Likewise a constant subscript of a constant
(`b' '[1]`) that is out of range.  Both are definite: no path or value
reasoning is involved, so the rule cannot fire on code that works."""
import ast
import builtins

from ..refs.anchors import TARGETS

_BUILTINS = set(dir(builtins))


def _bound_in(fnode):
    out = set()
    a = fnode.args
    for x in a.args + a.kwonlyargs + a.posonlyargs:
        out.add(x.arg)
    if a.vararg:
        out.add(a.vararg.arg)
    if a.kwarg:
        out.add(a.kwarg.arg)
    for n in ast.walk(fnode):
        if isinstance(n, ast.Name) and isinstance(n.ctx, (ast.Store,
                                                          ast.Del)):
            out.add(n.id)
        elif isinstance(n, (ast.Import, ast.ImportFrom)):
            for al in n.names:
                out.add((al.asname or al.name).split('.')[0])
        elif isinstance(n, ast.ExceptHandler) and n.name:
            out.add(n.name)
        elif isinstance(n, (ast.FunctionDef, ast.AsyncFunctionDef,
                            ast.ClassDef)) and n is not fnode:
            out.add(n.name)
        elif isinstance(n, (ast.Global, ast.Nonlocal)):
            out.update(n.names)
        elif isinstance(n, ast.arg):
            out.add(n.arg)
        elif isinstance(n, ast.MatchAs) and n.name:
            out.add(n.name)
    return out


def _module_names(tree):
    out = set()
    for n in tree.body:
        for x in ast.walk(n) if not isinstance(
                n, (ast.FunctionDef, ast.AsyncFunctionDef, ast.ClassDef)) \
                else [n]:
            if isinstance(x, ast.Name) and isinstance(x.ctx, ast.Store):
                out.add(x.id)
            elif isinstance(x, (ast.Import, ast.ImportFrom)):
                for al in x.names:
                    out.add((al.asname or al.name).split('.')[0])
            elif isinstance(x, (ast.FunctionDef, ast.AsyncFunctionDef,
                                ast.ClassDef)):
                out.add(x.name)
    # names created through globals()[...] (parser node classes)
    src = ast.unparse(tree)
    if 'globals()[' in src:
        out.add('*dynamic*')
    return out


def rule_names(ctx, res, prop):
    rule = 'R-{}-names'.format(prop)
    model = ctx.model
    n_funcs = 0
    for path, quals in TARGETS.get(prop, {}).items():
        modname = path[:-3].replace('/', '.')
        try:
            m = model.module(modname) if hasattr(model, 'module') \
                else model.modules[modname]
        except Exception:
            continue
        mod_names = _module_names(m.tree)
        dynamic = '*dynamic*' in mod_names
        for f in model.functions.values():
            if f.module is not m or f.qualname not in quals:
                continue
            n_funcs += 1
            bound = _bound_in(f.node)
            outer = f
            while getattr(outer, 'outer', None) is not None:
                outer = outer.outer
                bound |= _bound_in(outer.node)
            # class-level names are not visible in methods: ignore them
            problems = []
            for n in ast.walk(f.node):
                if isinstance(n, ast.Name) and isinstance(n.ctx, ast.Load):
                    if n.id in bound or n.id in mod_names or \
                            n.id in _BUILTINS:
                        continue
                    if dynamic and n.id[:1].isupper():
                        continue
                    problems.append('`{}` (line {}) is read but bound '
                                    'nowhere: NameError when that statement '
                                    'runs'.format(n.id, n.lineno))
                elif isinstance(n, ast.Subscript) and isinstance(
                        n.value, ast.Constant) and isinstance(
                        n.value.value, (bytes, str)) and isinstance(
                        n.slice, ast.Constant) and isinstance(
                        n.slice.value, int):
                    k, ln = n.slice.value, len(n.value.value)
                    if not -ln <= k < ln:
                        problems.append(
                            '`{}` (line {}): index {} of a {}-element '
                            'constant: IndexError when that statement '
                            'runs'.format(ast.unparse(n), n.lineno, k, ln))
            res.check(not problems, rule, f.qual,
                      'every name the function reads is bound somewhere; '
                      'constant subscripts are in range', '',
                      '; '.join(sorted(set(problems))[:3]), f.loc,
                      semantic=True)
    return n_funcs
