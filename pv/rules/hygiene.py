"""Name binding in the anchored functions (every check runs it on its own
functions, rule id R-<property>-names).

A name that a function reads but that is bound nowhere -- not a parameter,
never assigned / imported / looped over in the function or an enclosing one,
not a module-level name, not a builtin -- raises NameError the first time
that statement runs: the operation the property is about fails on every input
that reaches it.  (Deleting or renaming the only assignment of a local is the
usual way to get there while every test still passes, because the tests do
not reach the statement.)  Likewise a constant subscript of a constant
(`b' '[1]`) that is out of range.  Both are definite: no path or value
reasoning is involved, so the rule cannot fire on code that works."""
import ast
import builtins

from ..refs.anchors import TARGETS

_BUILTINS = set(dir(builtins))


def _bound_in(fnode):
    out = set()
    a = fnode.args
    for x in a.args + a.kwonlyargs + a.posonlyargs:
        out.add(x.arg)
    if a.vararg:
        out.add(a.vararg.arg)
    if a.kwarg:
        out.add(a.kwarg.arg)
    for n in ast.walk(fnode):
        if isinstance(n, ast.Name) and isinstance(n.ctx, (ast.Store,
                                                          ast.Del)):
            out.add(n.id)
        elif isinstance(n, (ast.Import, ast.ImportFrom)):
            for al in n.names:
                out.add((al.asname or al.name).split('.')[0])
        elif isinstance(n, ast.ExceptHandler) and n.name:
            out.add(n.name)
        elif isinstance(n, (ast.FunctionDef, ast.AsyncFunctionDef,
                            ast.ClassDef)) and n is not fnode:
            out.add(n.name)
        elif isinstance(n, (ast.Global, ast.Nonlocal)):
            out.update(n.names)
        elif isinstance(n, ast.arg):
            out.add(n.arg)
        elif isinstance(n, ast.MatchAs) and n.name:
            out.add(n.name)
    return out


def _module_names(tree):
    out = set()
    for n in tree.body:
        for x in ast.walk(n) if not isinstance(
                n, (ast.FunctionDef, ast.AsyncFunctionDef, ast.ClassDef)) \
                else [n]:
            if isinstance(x, ast.Name) and isinstance(x.ctx, ast.Store):
                out.add(x.id)
            elif isinstance(x, (ast.Import, ast.ImportFrom)):
                for al in x.names:
                    out.add((al.asname or al.name).split('.')[0])
            elif isinstance(x, (ast.FunctionDef, ast.AsyncFunctionDef,
                                ast.ClassDef)):
                out.add(x.name)
    # names created through globals()[...] (parser node classes)
    src = ast.unparse(tree)
    if 'globals()[' in src:
        out.add('*dynamic*')
    return out


def _loop_only_bindings(fnode):
    """a local whose every binding sits in the body of a loop (or is the loop
    variable) and that is read behind that loop, outside it: when the loop
    runs zero times the read raises UnboundLocalError (the text it iterates
    over is empty: an empty program, a cart without that section)"""
    out = []
    params = _bound_in(ast.parse('def f(): pass').body[0])
    a = fnode.args
    params = {x.arg for x in a.args + a.kwonlyargs + a.posonlyargs}
    if a.vararg:
        params.add(a.vararg.arg)
    if a.kwarg:
        params.add(a.kwarg.arg)
    loops = [n for n in ast.walk(fnode) if isinstance(n, (ast.For,
                                                           ast.While))]
    if not loops:
        return out
    inside = {}
    for lp in loops:
        ids = set()
        for part in lp.body + lp.orelse + ([lp.target] if isinstance(
                lp, ast.For) else []):
            for x in ast.walk(part):
                ids.add(id(x))
        inside[id(lp)] = ids
    stores, loads = {}, {}
    for n in ast.walk(fnode):
        if isinstance(n, ast.Name):
            (stores if isinstance(n.ctx, (ast.Store, ast.Del))
             else loads).setdefault(n.id, []).append(n)
        elif isinstance(n, (ast.Global, ast.Nonlocal)):
            for nm in n.names:
                params.add(nm)
        elif isinstance(n, (ast.Import, ast.ImportFrom)):
            for al in n.names:
                params.add((al.asname or al.name).split('.')[0])
        elif isinstance(n, ast.ExceptHandler) and n.name:
            params.add(n.name)
        elif isinstance(n, (ast.ListComp, ast.SetComp, ast.DictComp,
                            ast.GeneratorExp)):
            for g in n.generators:
                for x in ast.walk(g.target):
                    if isinstance(x, ast.Name):
                        params.add(x.id)     # comprehension scope: skip
    for name, sts in stores.items():
        if name in params or name not in loads:
            continue
        # one loop that contains every binding
        holder = [lp for lp in loops
                  if all(id(s_) in inside[id(lp)] for s_ in sts)]
        if not holder:
            continue
        outer = max(holder, key=lambda lp: len(inside[id(lp)]))
        if isinstance(outer, ast.While) and isinstance(
                outer.test, ast.Constant) and outer.test.value:
            continue                # `while True`: the body runs
        if isinstance(outer, ast.For) and isinstance(
                outer.iter, (ast.Tuple, ast.List)) and outer.iter.elts:
            continue                # a literal, non-empty sequence
        for ld in loads[name]:
            if id(ld) in inside[id(outer)]:
                continue
            if getattr(ld, 'lineno', 0) <= getattr(outer, 'end_lineno', 0):
                continue
            # the test of a `while` that contains the binding is evaluated
            # before the body: also a read before any binding
            out.append('`{}` (line {}) is bound only inside the loop at '
                       'line {} and read behind it: UnboundLocalError when '
                       'the loop runs zero times'.format(
                           name, ld.lineno, outer.lineno))
            break
    return out


def rule_names(ctx, res, prop):
    rule = 'R-{}-names'.format(prop)
    model = ctx.model
    n_funcs = 0
    for path, quals in TARGETS.get(prop, {}).items():
        modname = path[:-3].replace('/', '.')
        try:
            m = model.module(modname) if hasattr(model, 'module') \
                else model.modules[modname]
        except Exception:
            continue
        mod_names = _module_names(m.tree)
        dynamic = '*dynamic*' in mod_names
        for f in model.functions.values():
            if f.module is not m or f.qualname not in quals:
                continue
            n_funcs += 1
            bound = _bound_in(f.node)
            outer = f
            while getattr(outer, 'outer', None) is not None:
                outer = outer.outer
                bound |= _bound_in(outer.node)
            # class-level names are not visible in methods: ignore them
            problems = []
            for n in ast.walk(f.node):
                if isinstance(n, ast.Name) and isinstance(n.ctx, ast.Load):
                    if n.id in bound or n.id in mod_names or \
                            n.id in _BUILTINS:
                        continue
                    if dynamic and n.id[:1].isupper():
                        continue
                    problems.append('`{}` (line {}) is read but bound '
                                    'nowhere: NameError when that statement '
                                    'runs'.format(n.id, n.lineno))
                elif isinstance(n, ast.Subscript) and isinstance(
                        n.value, ast.Constant) and isinstance(
                        n.value.value, (bytes, str)) and isinstance(
                        n.slice, ast.Constant) and isinstance(
                        n.slice.value, int):
                    k, ln = n.slice.value, len(n.value.value)
                    if not -ln <= k < ln:
                        problems.append(
                            '`{}` (line {}): index {} of a {}-element '
                            'constant: IndexError when that statement '
                            'runs'.format(ast.unparse(n), n.lineno, k, ln))
            maybe = _loop_only_bindings(f.node)
            if maybe:
                # path-insensitive (a guard may make the loop run): a
                # shape-level finding, subject to the trust gate
                res.violation(rule, f.qual,
                              'no local is bound only inside a loop and '
                              'read behind it', '; '.join(maybe[:2]), f.loc)
            res.check(not problems, rule, f.qual,
                      'every name the function reads is bound somewhere; '
                      'constant subscripts are in range', '',
                      '; '.join(sorted(set(problems))[:3]), f.loc,
                      semantic=True)
    return n_funcs
