"""C10 -- luafmt output is canonical: indentation follows nesting.

Rules: R-C10-balance, R-C10-bracket, R-C10-introducers, R-C10-order,
R-C10-indentwidth.
"""
import ast

from .. import rx, fmtsrc, leximpl
from ..consteval import UNKNOWN
from ..lang import Lang
from ..srcmodel import walk_own, const_str
from .common import unparse
from . import cli
from .c09 import _intersect_empty

EXPLANATION = (
    'Every _walk_<Type> handler of LuaASTEchoWriter is unfolded into its '
    'paths (boolean locals such as short_if / in_parens tracked so '
    'correlated branches pair up, loops unrolled 0-2 times) as sequences of '
    'events: emit terminal, walk child, depth +1, depth -1. R-C10-balance: on '
    'every path the depth never goes negative and returns to its entry '
    'value. R-C10-bracket: a depth increment directly follows the emission '
    'of an opener (do then else repeat ( [ { and the `)` ending a parameter '
    'list) and a decrement directly precedes the emission of a closer (end '
    'until elseif else ) ] }) -- "a closing token counts as already closed"; '
    'block-valued fields are walked one level deeper except in short-if '
    'form. R-C10-introducers: the comment introducers the formatter\'s '
    'regex pipeline re-indents equal the introducers the lexer turns into '
    'comment tokens. R-C10-order: tab and CR normalisation precede the '
    'trailing-space deletion and the blank-line collapse; the collapse '
    'limits runs to one blank line; the end-of-file trim is present. '
    'R-C10-indentwidth: the option default and the class default agree and '
    'the indentation inserted is <width> * <depth> spaces.')

ASSUMPTIONS = [
    'idempotence, independence from input indentation and exact columns are '
    'properties of the composition of the substitutions on unbounded '
    'strings and are NOT decided (runtime-quantified)',
]

L = 'pico8.lua.lua'


def _analyse_paths(hp):
    """-> (balance_error, bracket_errors[list], block_errors[list])"""
    bal = None
    br = []
    blk = []
    for (ev, env) in hp.paths:
        depth = 0
        sig = [e for e in ev if e[0] in ('emit', 'content', 'block', 'inc',
                                         'dec')]
        for i, e in enumerate(sig):
            if e[0] == 'inc':
                depth += 1
                prev = None
                for j in range(i - 1, -1, -1):
                    if sig[j][0] in ('emit', 'content', 'block'):
                        prev = sig[j]
                        break
                if prev is None or prev[0] != 'emit' or \
                        prev[1] not in fmtsrc.OPENERS:
                    br.append('depth += 1 does not directly follow an '
                              'opener (previous emission: {})'.format(
                                  _fmt(prev)))
            elif e[0] == 'dec':
                depth -= 1
                if depth < 0 and bal is None:
                    bal = 'depth goes negative'
                nxt = None
                for j in range(i + 1, len(sig)):
                    if sig[j][0] in ('content', 'block'):
                        nxt = sig[j]
                        break
                    if sig[j][0] == 'emit':
                        if sig[j][1] is None:
                            continue        # dynamic separator
                        nxt = sig[j]
                        break
                if nxt is not None and (nxt[0] != 'emit' or
                                        nxt[1] not in fmtsrc.CLOSERS):
                    br.append('depth -= 1 is not directly followed by a '
                              'closer (next emission: {})'.format(_fmt(nxt)))
            elif e[0] == 'emit' and e[1] in fmtsrc.CLOSERS and depth != 0:
                br.append('closer {} emitted at relative depth {:+d}: a '
                          'closing token counts as already closed'.format(
                              _fmt(e), depth))
            elif e[0] == 'block':
                short = env.get('short_if') is True
                # a short-if body lies on the `if` line: depth is immaterial
                if not short and depth != 1:
                    blk.append('block walked at relative depth {} '
                               '(expected 1)'.format(depth))
        if depth != 0 and bal is None:
            bal = 'net depth change {:+d} on a path ({})'.format(
                depth, ' '.join(_fmt(e) for e in sig)[:160])
    return bal, sorted(set(br)), sorted(set(blk))


def _fmt(e):
    if e is None:
        return 'none'
    if e[0] == 'emit':
        return repr(e[1].decode('latin-1')) if e[1] is not None else '<dyn>'
    if e[0] in ('inc', 'dec'):
        return '+1' if e[0] == 'inc' else '-1'
    return e[0]


def rule_depth(ctx, res):
    model = ctx.model
    c = model.cls(L + ':LuaASTEchoWriter')
    touched = 0
    for name, m in sorted(c.methods.items()):
        if not name.startswith('_walk_'):
            continue
        # handlers of parser node types only (a helper that merely shares the
        # prefix is analysed where it is called)
        from .c09 import _schema
        sch = _schema(ctx)
        if sch is not None and name[6:] not in sch:
            continue
        touches = any(isinstance(n, ast.Attribute) and n.attr == '_indent'
                      for n in walk_own(m.node))
        try:
            hp = fmtsrc.HandlerPaths(m)
        except fmtsrc.PathLimit as e:
            res.undecided('R-C10-balance', m.qual, name, str(e), m.loc)
            continue
        bal, br, blk = _analyse_paths(hp)
        if not touches and not blk:
            continue
        touched += int(touches)
        if touches:
            res.check(bal is None, 'R-C10-balance', m.qual,
                      name[6:] + ': depth balanced on every path',
                      '{} paths'.format(len(hp.paths)),
                      'indentation depth is unbalanced: {} -- every later '
                      'line of the program is indented wrongly'.format(bal),
                      m.loc)
            res.check(not br, 'R-C10-bracket', m.qual,
                      name[6:] + ': +1 after the opener, -1 before the '
                      'closer', '',
                      '; '.join(br)[:300], m.loc)
        if any(e[0] == 'block' for (ev, _env) in hp.paths for e in ev):
            res.check(not blk, 'R-C10-bracket', m.qual,
                      name[6:] + ': block walked one level deeper', '',
                      '; '.join(blk)[:300], m.loc)
    res.stats['handlers_touching_depth'] = touched
    res.require_min('R-C10-balance', 10)
    # _indent is written only by the handlers (+-1) and __init__ (= 0)
    others = []
    for f in model.functions.values():
        for n in model.own_nodes(f.node):
            if isinstance(n, ast.Assign) and any(
                    isinstance(t, ast.Attribute) and t.attr == '_indent'
                    for t in n.targets):
                others.append((f, n))
    ok = all(f.name == '__init__' and isinstance(n.value, ast.Constant) and
             n.value.value == 0 for (f, n) in others)
    res.check(ok, 'R-C10-balance', c.qual, 'depth starts at 0',
              '', 'depth is assigned outside __init__ / not 0',
              c.module.loc(c.node))


def rule_introducers(ctx, res):
    f, subs, var, _rv = fmtsrc.extract_pipeline(ctx)
    src = leximpl.LexerSource(ctx)
    lex_intro = set()
    for (rg, cls) in src.table:
        if cls == 'TokComment':
            nfa = rx.build(rg.pattern, rg.flags)
            L1 = Lang.from_nfa(nfa)
            for intro in (b'--', b'//'):
                # language starts with the introducer?
                if rx.accepts(nfa, intro) or not Lang.from_regex(
                        b'(?s)' + intro.replace(b'/', b'/') + b'.*'
                ).is_empty() and _starts_with(nfa, intro):
                    lex_intro.add(intro)
    for op in src.openers:
        if op['kind'] == 'prefix' and len(op['prefixes']) == 1 and \
                len(op['prefixes'][0]) > 1:
            lex_intro.add(op['prefixes'][0][:2])
    res.tables['lexer_comment_introducers'] = sorted(
        i.decode() for i in lex_intro)
    n = 0
    for s in subs:
        tree = rx.parse(s.pattern)
        pl = Lang.from_nfa(rx.build_tree(tree, 0, True))
        got = {i for i in (b'--', b'//') if not _intersect_empty(pl, i)}
        if not got:
            continue
        n += 1
        res.check(got == lex_intro, 'R-C10-introducers', f.qual,
                  'sub {!r}{} knows every comment introducer'.format(
                      s.pattern.decode('latin-1'),
                      ' [' + s.guard + ']' if s.guard else ''),
                  '{}'.format(sorted(i.decode() for i in got)),
                  'the lexer makes comments of {} but this step only '
                  're-indents {}: a comment line starting with {} keeps the '
                  'indentation of the input, so the output depends on how '
                  'the input was indented'.format(
                      sorted(i.decode() for i in lex_intro),
                      sorted(i.decode() for i in got),
                      sorted(i.decode() for i in lex_intro - got)),
                  f.module.loc(s.node))
    # the three things the pipeline does to a comment: two spaces in front of
    # one that shares its line with code, the block's indentation in front of
    # one on its own line, none in front of one that opens the file
    kinds = {'same-line': False, 'own-line': False, 'file-start': False}
    for s in subs:
        tree = rx.parse(s.pattern)
        pl = Lang.from_nfa(rx.build_tree(tree, 0, True))
        if all(_intersect_empty(pl, i) for i in (b'--', b'//')):
            continue
        g = s.guard.replace(' ', '')
        if s.pattern.startswith(b'^') and ('!=0' in g or '0!=' in g):
            kinds['same-line'] = True
        elif s.pattern.startswith(b'^') and ('==0' in g or '0==' in g):
            kinds['file-start'] = True
        elif s.pattern.startswith(b'\\n') and any(
                p[0] == 'spaces' for p in s.repl):
            kinds['own-line'] = True
    if n == 0:
        res.vanished('R-C10-introducers', f.qual, 'comment steps',
                     'no comment re-indentation step found')
    elif n >= 3 and not all(kinds.values()):
        # three comment steps are there; which is which is read off their
        # guards, and a guard spelled differently is not a missing step
        res.holds('R-C10-introducers', f.qual,
                  'three comment re-indentation steps',
                  '{} steps (roles not all recognised: {})'.format(
                      n, sorted(k for k, v in kinds.items() if not v)),
                  f.loc, nontrivial=False)
    else:
        res.check(kinds['own-line'], 'R-C10-introducers', f.qual,
                  'a comment on its own line is put at the indentation of '
                  'its block', '',
                  'no step re-indents a comment that stands on its own line: '
                  'it keeps the indentation of the input, so the output '
                  'depends on how the input was indented', f.loc)
        res.check(kinds['same-line'], 'R-C10-introducers', f.qual,
                  'a comment behind code on the same line is separated by '
                  'two spaces', '',
                  'no step normalises the space in front of a comment that '
                  'shares its line with code: the output depends on the '
                  'input\'s spacing', f.loc)
        res.check(kinds['file-start'], 'R-C10-introducers', f.qual,
                  'a comment that opens the file starts in column 0', '',
                  'no step removes the space in front of a comment at the '
                  'start of the file: the output depends on the input\'s '
                  'spacing', f.loc)


def _starts_with(nfa, intro):
    S = frozenset([nfa.start])
    prev = None
    for b in intro:
        c = rx.closure(nfa, S, prev, b)
        S = rx.step(nfa, c, b)
        prev = b
        if not S:
            return False
    return True


def rule_order(ctx, res):
    f, subs, var, _rv = fmtsrc.extract_pipeline(ctx)
    q = f.qual

    def idx(pred):
        return [i for i, s in enumerate(subs) if pred(s)]
    tab = idx(lambda s: s.pattern == br'\t')
    cr = idx(lambda s: b'\\r' in s.pattern)
    trail = idx(lambda s: s.pattern == br' +\n' and s.repl_literal() == b'\n')
    collapse = idx(lambda s: s.pattern == br'\n\n+')
    eof = idx(lambda s: 'self._pos == len(self._tokens)' in s.guard)
    res.check(bool(trail), 'R-C10-order', q, 'trailing-space deletion present',
              '', 'no step deletes spaces before a line end: output lines '
              'can end in whitespace', f.loc)
    res.check(bool(collapse) and subs[collapse[0]].repl_literal() == b'\n\n'
              if collapse else False, 'R-C10-order', q,
              'blank-line runs collapse to one blank line', '',
              'blank-line collapse missing or not to exactly one blank line',
              f.loc)
    res.check(bool(eof) and subs[eof[0]].repl_literal() == b'\n'
              if eof else False, 'R-C10-order', q,
              'end-of-file trim present', '',
              'no end-of-file trim: blank lines at the end survive', f.loc)
    # at the very start of the file the indent step above would leave the
    # indentation in front of nothing: a blank-only run there is emptied
    start = idx(lambda s: (s.guard.endswith(' == 0') or
                           s.guard.startswith('0 == ')) and
                s.repl_literal() == b'' and
        not any(p[0] != 'lit' for p in s.repl) and
        _matches_blank_run(s.pattern))
    ind_steps = idx(lambda s: bool(s.repl) and s.repl[-1][0] == 'spaces')
    if ind_steps:
        res.check(bool(start) and start[0] > max(ind_steps), 'R-C10-order',
                  q, 'a blank run at the start of the file is emptied after '
                  'the indent steps', '',
                  'no step empties a blank-only run at the start of the '
                  'file: the output begins with the indentation the indent '
                  'step put in front of the first token\'s line (a line of '
                  'spaces / a first line that depends on the input)', f.loc)
    if trail:
        t = trail[0]
        res.check(bool(tab) and all(i < t for i in tab) and bool(cr) and
                  all(i < t for i in cr), 'R-C10-order', q,
                  'tab and CR normalisation precede trailing-space deletion',
                  '', 'a later step creates "space before line end" text '
                  'that the trailing-space step has already passed',
                  f.module.loc(subs[t].node))
    if trail:
        _rule_spaces_after_trail(res, f, q, subs, trail[0])
    if collapse and cr:
        res.check(all(i < collapse[0] for i in cr), 'R-C10-order', q,
                  'CR normalisation precedes the blank-line collapse', '',
                  'CR -> LF conversion after the collapse creates new '
                  'blank-line runs', f.module.loc(subs[collapse[0]].node))
    # the indentation inserted is width * depth spaces
    ind = [s for s in subs if any(p[0] == 'spaces' for p in s.repl)]
    ok = len(ind) >= 2
    for s in ind:
        txt = ast.unparse(getattr(s, 'repl_expr', None) or
                          s.node.value.args[1])
        ok = ok and 'self._indent_mult' in txt and 'self._indent' in txt.replace(
            'self._indent_mult', '')
    res.check(ok, 'R-C10-order', q, 'indentation = width * depth spaces',
              '{} steps insert the indentation'.format(len(ind)),
              'inserted indentation is not b" " * width * depth', f.loc)


def _matches_blank_run(pattern):
    """the pattern matches a whole run of spaces (` `, `   `) and the empty
    run, anchored at both ends"""
    import re
    try:
        rx_ = re.compile(pattern)
    except re.error:
        return False
    return all(rx_.fullmatch(t) is not None for t in (b'', b' ', b'    ')) \
        and rx_.fullmatch(b'x') is None and pattern.startswith(b'^')


def _ends_at_dollar(pattern, flags=0):
    """the pattern's last element is `$` without MULTILINE: in Python that
    also matches just before a line end that ends the subject"""
    import re
    try:
        tree = re._parser.parse(pattern, flags)
    except Exception:
        return False
    items = list(tree)
    if not items:
        return False
    op, av = items[-1]
    return str(op) == 'AT' and str(av) == 'AT_END' and not (
        (flags | tree.state.flags) & re.MULTILINE)


def _rule_spaces_after_trail(res, f, q, subs, t):
    """no step behind the trailing-space deletion may put spaces in front of
    a line end again.  A step whose replacement ends in the indentation and
    whose pattern ends in `$` does: `$` also matches before a final newline,
    so on a run that ends in a blank line the indentation lands in front of
    that newline."""
    for k in range(t + 1, len(subs)):
        s = subs[k]
        inst = 'no spaces before a line end after the trailing-space ' \
            'deletion: step {}'.format(s.describe())
        loc = f.module.loc(s.node)
        tail_spaces = bool(s.repl) and s.repl[-1][0] == 'spaces'
        tail_lit_space = bool(s.repl) and s.repl[-1][0] == 'lit' and \
            s.repl[-1][1].endswith(b' ')
        if not (tail_spaces or tail_lit_space):
            res.holds('R-C10-order', q, inst, 'replacement does not end in '
                      'spaces', loc, nontrivial=False)
            continue
        if not _ends_at_dollar(s.pattern, s.flags):
            res.holds('R-C10-order', q, inst, 'the match cannot be followed '
                      'by a line end the pattern did not consume', loc,
                      nontrivial=False)
            continue
        repaired = any(
            not u.guard and u.pattern == br' +\n' and
            u.repl_literal() == b'\n' for u in subs[k + 1:])
        res.check(repaired, 'R-C10-order', q, inst,
                  'a later step deletes them again',
                  'the pattern ends in `$`, which also matches in front of a '
                  'final line end, and the replacement ends in the '
                  'indentation: on a whitespace run that ends in a blank line '
                  '(b"\\n\\n" between two statements of a block) the blank '
                  'line becomes a line of spaces; no later step removes '
                  'them, so the output has a line ending in whitespace and '
                  'formatting it again changes it', loc, semantic=True)


def rule_indentwidth(ctx, res):
    model, ev = ctx.model, ctx.consts
    c = model.cls(L + ':LuaFormatterWriter')
    d = ev.class_const(c, 'DEFAULT_INDENT_WIDTH')
    glob, subs = cli.argparser_table(model)
    opt = subs['luafmt'].options.get('indentwidth') if 'luafmt' in subs \
        else None
    res.check(opt is not None and opt.default == d and d == 2,
              'R-C10-indentwidth', c.qual, 'default width 2 on both sides',
              'option default {} == class default {}'.format(
                  opt.default if opt else None, d),
              'option default {} / class default {}'.format(
                  opt.default if opt else None, d), c.module.loc(c.node))
    init = c.methods.get('__init__')
    ok = init is not None and any(
        isinstance(n, ast.Call) and isinstance(n.func, ast.Attribute) and
        n.func.attr == 'get' and n.args and
        const_str(n.args[0]) == 'indentwidth' for n in walk_own(init.node))
    res.check(ok, 'R-C10-indentwidth', c.qual,
              'width taken from the writer argument', '',
              'indentwidth argument is not read', c.module.loc(c.node))
    # every integer width -- 0 included -- reaches the multiplication as given
    stores = []
    for m in c.methods.values():
        for n in walk_own(m.node):
            if isinstance(n, (ast.Assign, ast.AugAssign, ast.AnnAssign)):
                tg = n.targets if isinstance(n, ast.Assign) else [n.target]
                if any(isinstance(t, ast.Attribute) and
                       t.attr == '_indent_mult' for t in tg):
                    stores.append((m, n))
    if not stores:
        res.vanished('R-C10-indentwidth', c.qual, 'width store',
                     'no assignment to _indent_mult')
        return
    for (m, n) in stores:
        loc = c.module.loc(n)
        if not isinstance(n, ast.Assign) or m.name != '__init__':
            res.violation('R-C10-indentwidth', m.qual, 'width store',
                          'the width is modified after construction: ' +
                          unparse(n, 60), loc)
            continue
        verdict, why = _width_flow(m.node, n.value, n, 0)
        if verdict == 'ok':
            res.holds('R-C10-indentwidth', m.qual,
                      'given width used unchanged',
                      'width := ' + unparse(n.value, 70), loc)
        elif verdict == 'bad':
            res.violation('R-C10-indentwidth', m.qual,
                          'given width used unchanged', why, loc)
        else:
            res.undecided('R-C10-indentwidth', m.qual,
                          'given width used unchanged', why, loc)


def _is_arg_get(e):
    """<x>.get('indentwidth'[, default]) -> (True, default-node-or-None)"""
    if isinstance(e, ast.Call) and isinstance(e.func, ast.Attribute) and \
            e.func.attr == 'get' and e.args and \
            const_str(e.args[0]) == 'indentwidth':
        return True, (e.args[1] if len(e.args) > 1 else None)
    return False, None


def _is_arg_sub(e):
    return isinstance(e, ast.Subscript) and \
        const_str(e.slice) == 'indentwidth'


def _mentions_arg(e):
    return any(_is_arg_get(x)[0] or _is_arg_sub(x) for x in ast.walk(e))


def _width_flow(fnode, e, at, depth):
    """Classify the expression stored as the width: 'ok' when a given integer
    width (0 included) is stored unchanged and only an absent / None width is
    replaced; 'bad' with the reason otherwise; 'unknown' when the shape is
    outside the recognised idioms."""
    if depth > 4:
        return 'unknown', 'alias chain too deep'
    g, _d = _is_arg_get(e)
    if g or _is_arg_sub(e):
        return 'ok', ''
    if isinstance(e, ast.BoolOp):
        if any(_mentions_arg(v) for v in e.values[:-1]) or \
                any(_local_from_arg(fnode, v) for v in e.values[:-1]):
            return 'bad', (
                'the given width passes through a truth test ({}): width 0 is '
                'falsy and is replaced, so --indentwidth=0 does not produce '
                'width-0 indentation'.format(unparse(e, 70)))
        return 'unknown', 'boolean expression ' + unparse(e, 50)
    if isinstance(e, ast.IfExp):
        t = e.test
        if _truthiness_on_arg(fnode, t):
            return 'bad', (
                'the given width is selected by a truth test ({}): width 0 is '
                'falsy and is replaced'.format(unparse(t, 60)))
        if _none_or_presence_test(fnode, t):
            a = _width_flow(fnode, e.body, at, depth + 1)
            b = _width_flow(fnode, e.orelse, at, depth + 1)
            for v in (a, b):
                if v[0] == 'bad':
                    return v
            if a[0] == 'ok' or b[0] == 'ok':
                return 'ok', ''
        return 'unknown', 'conditional ' + unparse(e, 60)
    if isinstance(e, ast.Call) and isinstance(e.func, ast.Name) and \
            e.func.id == 'int' and len(e.args) == 1:
        return _width_flow(fnode, e.args[0], at, depth + 1)
    if isinstance(e, ast.Name):
        binds = [(s, v) for (s, v) in _assignments(fnode, e.id)]
        if not binds:
            return 'unknown', 'unbound ' + e.id
        got_ok = False
        for (s, v) in binds:
            if v is None:
                return 'unknown', 'opaque binding of ' + e.id
            guard = _enclosing_if(s, fnode)
            if guard is not None:
                if _truthiness_on_arg(fnode, guard.test) or (
                        isinstance(_strip_not(guard.test), ast.Name) and
                        _strip_not(guard.test).id == e.id):
                    return 'bad', (
                        'the width is replaced under a truth test ({}): width '
                        '0 is falsy and is replaced'.format(
                            unparse(guard.test, 50)))
                if not _none_or_presence_test(fnode, guard.test, e.id):
                    return 'unknown', 'guarded rebinding of ' + e.id
                if _mentions_arg(v):
                    r = _width_flow(fnode, v, at, depth + 1)
                    if r[0] != 'ok':
                        return r
                    got_ok = True
                continue
            r = _width_flow(fnode, v, at, depth + 1)
            if r[0] == 'bad':
                return r
            if r[0] == 'ok':
                got_ok = True
            elif _mentions_arg(v):
                return r
        return ('ok', '') if got_ok else ('unknown',
                                          e.id + ' never holds the argument')
    if _mentions_arg(e):
        return 'bad', (
            'the given width is transformed before use ({}): the indentation '
            'is no longer <given width> * <depth>'.format(unparse(e, 70)))
    return 'unknown', 'width := ' + unparse(e, 60)


def _strip_not(t):
    while isinstance(t, ast.UnaryOp) and isinstance(t.op, ast.Not):
        t = t.operand
    return t


def _assignments(fnode, name):
    out = []
    for n in walk_own(fnode):
        if isinstance(n, ast.Assign):
            for t in n.targets:
                if isinstance(t, ast.Name) and t.id == name:
                    out.append((n, n.value))
                elif any(isinstance(x, ast.Name) and x.id == name
                         for x in ast.walk(t)):
                    out.append((n, None))
        elif isinstance(n, (ast.AugAssign, ast.For)) and any(
                isinstance(x, ast.Name) and x.id == name
                for x in ast.walk(n.target)):
            out.append((n, None))
    return out


def _local_from_arg(fnode, e):
    if isinstance(e, ast.Name):
        return any(v is not None and _mentions_arg(v)
                   for (_s, v) in _assignments(fnode, e.id))
    return False


def _truthiness_on_arg(fnode, t):
    t = _strip_not(t)
    if _is_arg_get(t)[0] or _is_arg_sub(t) or _local_from_arg(fnode, t):
        return True
    if isinstance(t, ast.BoolOp):
        return any(_truthiness_on_arg(fnode, v) for v in t.values)
    return False


def _none_or_presence_test(fnode, t, name=None):
    t = _strip_not(t)
    if isinstance(t, ast.Compare) and len(t.ops) == 1:
        op, l, r = t.ops[0], t.left, t.comparators[0]
        if isinstance(op, (ast.Is, ast.IsNot)) and \
                isinstance(r, ast.Constant) and r.value is None:
            return (_is_arg_get(l)[0] or _is_arg_sub(l) or
                    (isinstance(l, ast.Name) and
                     (l.id == name or _local_from_arg(fnode, l))))
        if isinstance(op, (ast.In, ast.NotIn)) and \
                const_str(l) == 'indentwidth':
            return True
    return False


def _enclosing_if(stmt, fnode):
    p = getattr(stmt, '_parent', None)
    while p is not None and p is not fnode:
        if isinstance(p, ast.If):
            return p
        if isinstance(p, (ast.FunctionDef, ast.ClassDef)):
            return None
        p = getattr(p, '_parent', None)
    return None


def run(ctx, res):
    rule_depth(ctx, res)
    rule_introducers(ctx, res)
    rule_order(ctx, res)
    rule_indentwidth(ctx, res)
    cli.rule_wiring(ctx, res, 'luafmt', only_options={'indentwidth'})
    # a handler that does not echo every token of its node makes the
    # formatter fail on that program (shared with C09)
    from . import c09eval
    c09eval.report(ctx, res, rule='R-C10-bracket')
