"""C02 -- luamin renaming is a consistent injection that respects reserved
names.  Rules: R-C02-writeonce, R-C02-fresh, R-C02-counter, R-C02-enum,
R-C02-reserved, R-C02-factory, R-C01-wiring (luamin, build)."""
import ast

from .. import rx, leximpl
from ..cfg import cfg_of
from ..consteval import UNKNOWN
from ..refs import pico8_api
from ..srcmodel import walk_own, FuncInfo, const_str
from .common import assignments_to, unparse, open_mode
from . import cli

EXPLANATION = (
    'R-C02-writeonce: the name map is stored to at exactly one site in the '
    'package, under a `name not in map` test on the same key, never deleted '
    'from, and the renamed result is read back from it -- so one input name '
    'always yields one output name. R-C02-fresh (sibling consistency): every '
    'collection whose membership makes get_short_name return a name '
    'unchanged (the keep branches) is also tested before a generated '
    'candidate is accepted, and the allocation loop can only be left through '
    'that acceptance test -- so a generated name never equals a kept one. '
    'R-C02-counter: the candidate counter advances exactly once on every '
    'loop iteration and is stored nowhere else, so two accepted candidates '
    'have different ids. R-C02-enum: _name_for_id is a positional expansion '
    'whose divisor, modulus and recursion threshold all evaluate to '
    'len(NAME_CHARS), over an alphabet without duplicates that lies inside '
    'the lexer\'s name-start class (taken from the extracted token table) -- '
    'positional notation without a zero-digit prefix ambiguity is injective. '
    'R-C02-reserved: PRESERVED_NAMES (evaluated) contains every keyword the '
    'lexer table emits and the frozen PICO-8 API list; the keep-file is read '
    'in binary mode and stripped. R-C02-factory: one factory per writer, '
    'created in __init__ only, used by the Name and the Label branch alike. '
    'R-C01-wiring: --keep-all-names / --keep-names-from-file are declared, '
    'read and handed to the writer that interprets them, for luamin and for '
    'build --lua-minify.')

ASSUMPTIONS = [
    'refs/pico8_api.py (frozen minimum of reserved API names)',
    'int(id / 26) equals id // 26 below 2**53 (ids stay far below)',
    'injectivity of positional notation (textbook argument)',
]

FACTORY = 'pico8.lua.lua:MinifyNameFactory'


def _self_attr(e, attr=None):
    return (isinstance(e, ast.Attribute) and isinstance(e.value, ast.Name)
            and e.value.id == 'self' and (attr is None or e.attr == attr))


def rule_writeonce(ctx, res):
    model = ctx.model
    q = FACTORY + '.get_short_name'
    f = model.func(q)
    cfg = cfg_of(f)
    name = f.params()[1]
    stores, deletes = [], []
    for g in model.functions.values():
        for n in model.own_nodes(g.node):
            if isinstance(n, (ast.Assign, ast.AugAssign)):
                tgts = n.targets if isinstance(n, ast.Assign) else [n.target]
                for t in tgts:
                    if isinstance(t, ast.Subscript) and \
                            isinstance(t.value, ast.Attribute) and \
                            t.value.attr == '_name_map':
                        stores.append((g, n, t))
            elif isinstance(n, ast.Delete):
                for t in n.targets:
                    if isinstance(t, ast.Subscript) and \
                            isinstance(t.value, ast.Attribute) and \
                            t.value.attr == '_name_map':
                        deletes.append((g, n))
            elif isinstance(n, ast.Call) and \
                    isinstance(n.func, ast.Attribute) and \
                    n.func.attr in ('pop', 'clear', 'update', 'popitem',
                                    'setdefault') and \
                    isinstance(n.func.value, ast.Attribute) and \
                    n.func.value.attr == '_name_map':
                deletes.append((g, n))
    res.check(len(stores) == 1 and stores[0][0].qual == q, 'R-C02-writeonce',
              q, 'single store site of the name map',
              'one store, inside get_short_name',
              '{} store sites: {}'.format(
                  len(stores), [s[0].qual for s in stores]), f.loc)
    res.check(not deletes, 'R-C02-writeonce', q,
              'name map entries are never removed or overwritten in bulk',
              '', 'mutation of the name map at ' + ', '.join(
                  g.module.loc(n) for (g, n) in deletes), f.loc)
    if len(stores) == 1:
        g, st, tgt = stores[0]
        key_ok = isinstance(tgt.slice, ast.Name) and tgt.slice.id == name
        guard = None
        for n in cfg.nodes:
            if n.kind == 'test' and isinstance(n.ast, ast.Compare) and \
                    len(n.ast.ops) == 1 and \
                    isinstance(n.ast.ops[0], ast.NotIn) and \
                    isinstance(n.ast.left, ast.Name) and \
                    n.ast.left.id == name and \
                    _self_attr(n.ast.comparators[0], '_name_map'):
                guard = n
        dom = guard is not None and all(
            cfg.edge_dominates(guard, 'true', sn) for sn in cfg.nodes_of(st))
        res.check(key_ok and dom, 'R-C02-writeonce', q,
                  'store guarded by `name not in map` on the same key',
                  'an existing mapping is never overwritten',
                  'store key is-param={} guarded={}'.format(key_ok, dom),
                  f.module.loc(st))
    # the renamed result is the map entry
    rets = [n for n in cfg.nodes if isinstance(n.ast, ast.Return)]
    map_rets = [r for r in rets if isinstance(r.ast.value, ast.Subscript) and
                _self_attr(r.ast.value.value, '_name_map') and
                isinstance(r.ast.value.slice, ast.Name) and
                r.ast.value.slice.id == name]
    ident_rets = [r for r in rets if isinstance(r.ast.value, ast.Name) and
                  r.ast.value.id == name]
    other = [r for r in rets if r not in map_rets and r not in ident_rets]
    res.check(len(map_rets) >= 1 and not other, 'R-C02-writeonce', q,
              'result is the input name or its map entry',
              '{} identity return(s), {} map return(s)'.format(
                  len(ident_rets), len(map_rets)),
              'a return yields something other than name / map[name]: ' +
              ', '.join(unparse(r.ast) for r in other), f.loc)
    return f, cfg, name, ident_rets


def _membership_terms(test, var):
    """Collections C such that the test contains the conjunct `var in C`
    (possibly as `C is not None and var in C`); plus plain flag attributes
    -> (set of unparse(C), set of flags)"""
    colls, flags = set(), set()
    parts = test.values if (isinstance(test, ast.BoolOp) and
                            isinstance(test.op, ast.And)) else [test]
    for p in parts:
        if isinstance(p, ast.Compare) and len(p.ops) == 1 and \
                isinstance(p.ops[0], ast.In) and \
                isinstance(p.left, ast.Name) and p.left.id == var:
            colls.add(ast.unparse(p.comparators[0]))
        elif _self_attr(p):
            flags.add(ast.unparse(p))
    return colls, flags


def _rejection_terms(test, var):
    """Collections C such that test (the ACCEPT condition) implies
    var not in C: conjuncts `var not in C` or `(C is None or var not in C)`."""
    out = set()
    parts = test.values if (isinstance(test, ast.BoolOp) and
                            isinstance(test.op, ast.And)) else [test]
    for p in parts:
        if isinstance(p, ast.Compare) and len(p.ops) == 1 and \
                isinstance(p.ops[0], ast.NotIn) and \
                isinstance(p.left, ast.Name) and p.left.id == var:
            out.add(ast.unparse(p.comparators[0]))
        elif isinstance(p, ast.BoolOp) and isinstance(p.op, ast.Or):
            c_none, c_notin = None, None
            for q in p.values:
                if isinstance(q, ast.Compare) and len(q.ops) == 1 and \
                        isinstance(q.ops[0], ast.Is) and \
                        isinstance(q.comparators[0], ast.Constant) and \
                        q.comparators[0].value is None:
                    c_none = ast.unparse(q.left)
                elif isinstance(q, ast.Compare) and len(q.ops) == 1 and \
                        isinstance(q.ops[0], ast.NotIn) and \
                        isinstance(q.left, ast.Name) and q.left.id == var:
                    c_notin = ast.unparse(q.comparators[0])
            if c_notin and (c_none == c_notin) and len(p.values) == 2:
                out.add(c_notin)
    return out


def rule_fresh(ctx, res, f, cfg, name, ident_rets):
    q = f.qual
    # K: keep collections
    keep_colls, keep_flags = set(), set()
    for r in ident_rets:
        p = getattr(r.ast, '_parent', None)
        if isinstance(p, ast.If) and r.ast in p.body:
            c, fl = _membership_terms(p.test, name)
            keep_colls |= c
            keep_flags |= fl
            if not c and not fl:
                res.undecided('R-C02-fresh', q, 'keep branch',
                              'unrecognised keep test ' + unparse(p.test),
                              f.module.loc(p))
        else:
            res.undecided('R-C02-fresh', q, 'identity return',
                          'identity return outside an if', f.loc)
    res.tables['keep_collections'] = sorted(keep_colls)
    # allocation loop
    loops = [n for n in walk_own(f.node) if isinstance(n, ast.While)]
    alloc = None
    cand = None
    for lp in loops:
        for st in lp.body:
            if isinstance(st, ast.Assign) and isinstance(st.value, ast.Call) \
                    and isinstance(st.value.func, ast.Attribute) and \
                    st.value.func.attr == '_name_for_id' and \
                    isinstance(st.targets[0], ast.Name):
                alloc, cand = lp, st.targets[0].id
    if alloc is None:
        res.vanished('R-C02-fresh', q, 'allocation loop',
                     'loop generating candidates via _name_for_id not found')
        return None
    brks = [n for n in walk_own(alloc) if isinstance(n, ast.Break)]
    infinite = isinstance(alloc.test, ast.Constant) and alloc.test.value is True
    rej = set()
    shape_ok = infinite and len(brks) == 1
    if shape_ok:
        p = getattr(brks[0], '_parent', None)
        if isinstance(p, ast.If) and brks[0] in p.body and p in alloc.body:
            rej = _rejection_terms(p.test, cand)
        else:
            shape_ok = False
    if not shape_ok:
        res.undecided('R-C02-fresh', q, 'allocation loop shape',
                      'expected `while True` with one guarded break',
                      f.module.loc(alloc))
        return alloc, cand
    res.tables['rejection_collections'] = sorted(rej)
    for c in sorted(keep_colls):
        res.check(c in rej, 'R-C02-fresh', q,
                  'kept collection {} filters generated names'.format(c),
                  'a candidate found in it is rejected',
                  'names in {} are returned unchanged, but a generated '
                  'candidate is not tested against it: a renamed identifier '
                  'can collide with a kept one'.format(c),
                  f.module.loc(alloc))
    # the stored value is the accepted candidate
    st_ok = False
    for n in walk_own(f.node):
        if isinstance(n, ast.Assign) and isinstance(
                n.targets[0], ast.Subscript) and \
                _self_attr(n.targets[0].value, '_name_map'):
            st_ok = isinstance(n.value, ast.Name) and n.value.id == cand
    res.check(st_ok, 'R-C02-fresh', q, 'stored value is the accepted candidate',
              '', 'the map does not store the candidate that passed the '
              'filter', f.module.loc(alloc))
    res.require_min('R-C02-fresh', 3)
    return alloc, cand


def rule_counter(ctx, res, f, cfg, alloc):
    q = f.qual
    model = ctx.model
    incs = [n for n in walk_own(alloc) if isinstance(n, ast.AugAssign) and
            _self_attr(n.target, '_next_name_id')]
    ok_shape = len(incs) == 1 and isinstance(incs[0].op, ast.Add) and \
        isinstance(incs[0].value, ast.Constant) and incs[0].value.value == 1
    if not ok_shape:
        res.violation('R-C02-counter', q, 'counter += 1 once per iteration',
                      'expected exactly one `_next_name_id += 1` in the '
                      'allocation loop, found {}'.format(len(incs)),
                      f.module.loc(alloc))
        return
    inc_nodes = set(cfg.nodes_of(incs[0]))
    test_nodes = [n for n in cfg.nodes if n.kind == 'test' and
                  n.ast is alloc.test]
    brk_nodes = [n for n in cfg.nodes if isinstance(n.ast, ast.Break) and
                 any(n.ast is b for b in walk_own(alloc))]
    # no way around the loop, and no way to the break, without the increment
    bad = False
    for t in test_nodes:
        start = cfg.succ_by_label(t, 'true')
        reach = cfg.reachable_from(start, avoid=inc_nodes)
        if t in reach or any(b in reach for b in brk_nodes):
            bad = True
    res.check(not bad, 'R-C02-counter', q,
              'every iteration and every exit passes the increment',
              'two accepted candidates always have different ids',
              'the counter is not advanced on some path through the loop: '
              'the same short name can be handed out twice',
              f.module.loc(incs[0]))
    # candidate is generated from the counter before it is incremented
    gen = None
    for st in alloc.body:
        if isinstance(st, ast.Assign) and isinstance(st.value, ast.Call) and \
                isinstance(st.value.func, ast.Attribute) and \
                st.value.func.attr == '_name_for_id':
            gen = st
    arg_ok = gen is not None and len(gen.value.args) == 1 and \
        _self_attr(gen.value.args[0], '_next_name_id')
    res.check(arg_ok, 'R-C02-counter', q, 'candidate := name_for_id(counter)',
              '', 'candidate is not generated from the counter', f.loc)
    # other stores to the counter: only __init__ (= 0)
    others = []
    for g in model.functions.values():
        for n in model.own_nodes(g.node):
            if isinstance(n, (ast.Assign, ast.AugAssign)):
                tg = n.targets if isinstance(n, ast.Assign) else [n.target]
                for t in tg:
                    if isinstance(t, ast.Attribute) and \
                            t.attr == '_next_name_id' and n is not incs[0]:
                        others.append((g, n))
    ok = all(g.name == '__init__' and isinstance(n, ast.Assign) and
             isinstance(n.value, ast.Constant) for (g, n) in others)
    res.check(ok and len(others) == 1, 'R-C02-counter', q,
              'counter stored only by __init__ and the loop', '',
              'other stores to the counter: ' + ', '.join(
                  g.module.loc(n) for (g, n) in others), f.loc)


def rule_enum(ctx, res):
    model, ev = ctx.model, ctx.consts
    cls = model.cls(FACTORY)
    q = FACTORY + '._name_for_id'
    f = model.func(q)
    chars = ev.class_const(cls, 'NAME_CHARS')
    if chars is UNKNOWN or not isinstance(chars, bytes):
        res.undecided('R-C02-enum', q, 'alphabet', 'NAME_CHARS not constant')
        return
    radix = len(chars)
    idp = f.params()[1]
    consts = {'mod': [], 'div': [], 'thr': []}

    def val(e):
        v = ev.eval_expr(f.module, e, {'cls': None})
        return v if isinstance(v, int) and not isinstance(v, bool) else None
    for n in walk_own(f.node):
        if isinstance(n, ast.BinOp) and isinstance(n.left, ast.Name) and \
                n.left.id == idp:
            if isinstance(n.op, ast.Mod):
                consts['mod'].append(val(n.right))
            elif isinstance(n.op, (ast.Div, ast.FloorDiv)):
                consts['div'].append(val(n.right))
        elif isinstance(n, ast.Compare) and isinstance(n.left, ast.Name) and \
                n.left.id == idp and len(n.ops) == 1 and \
                isinstance(n.ops[0], ast.GtE):
            consts['thr'].append(val(n.comparators[0]))
    ok = all(len(v) == 1 and v[0] == radix for v in consts.values())
    res.check(ok, 'R-C02-enum', q, 'radix used consistently',
              'modulus, divisor and recursion threshold all equal '
              'len(NAME_CHARS) = {}'.format(radix),
              'positional expansion is inconsistent: {} vs radix {} -- two '
              'ids can expand to the same name'.format(consts, radix), f.loc)
    # the indexed table is NAME_CHARS, recursion on the quotient
    idx_ok = False
    rec_ok = False
    for n in walk_own(f.node):
        if isinstance(n, ast.Subscript) and isinstance(n.slice, ast.BinOp) \
                and isinstance(n.slice.op, ast.Mod):
            v = ev.eval_expr(f.module, n.value, {'cls': None})
            idx_ok = v == chars
        if isinstance(n, ast.Call) and isinstance(n.func, ast.Attribute) and \
                n.func.attr == '_name_for_id':
            a = n.args[0]
            inner = a.args[0] if (isinstance(a, ast.Call) and isinstance(
                a.func, ast.Name) and a.func.id == 'int' and a.args) else a
            rec_ok = isinstance(inner, ast.BinOp) and isinstance(
                inner.op, (ast.Div, ast.FloorDiv)) and isinstance(
                    inner.left, ast.Name) and inner.left.id == idp
    res.check(idx_ok and rec_ok, 'R-C02-enum', q,
              'digit = NAME_CHARS[id % radix], prefix = name(id / radix)', '',
              'digit table or recursion argument changed', f.loc)
    res.check(len(set(chars)) == len(chars), 'R-C02-enum',
              FACTORY + '.NAME_CHARS', 'alphabet has no duplicate byte',
              '{} distinct bytes'.format(len(chars)),
              'duplicate byte in NAME_CHARS: two ids spell the same name')
    # inside the lexer's name-start class
    src = leximpl.LexerSource(ctx)
    start = set()
    for (rg, clsname) in src.table:
        if clsname == 'TokName':
            nfa = rx.build(rg.pattern, rg.flags)
            fb = rx.first_bytes(nfa)
            if len(fb) > 1:
                start |= fb
    bad = [bytes([b]) for b in chars if b not in start]
    res.check(not bad, 'R-C02-enum', FACTORY + '.NAME_CHARS',
              'alphabet inside the lexer\'s name-start class',
              'every generated name lexes as one name token',
              'bytes {} cannot start a name for the lexer'.format(bad))
    res.require_min('R-C02-enum', 4)


def rule_reserved(ctx, res):
    model, ev = ctx.model, ctx.consts
    cls = model.cls(FACTORY)
    pres = ev.class_const(cls, 'PRESERVED_NAMES')
    where = FACTORY + '.PRESERVED_NAMES'
    if pres is UNKNOWN or not isinstance(pres, (set, frozenset)):
        res.undecided('R-C02-reserved', where, 'set', 'does not evaluate')
        return
    res.tables['PRESERVED_NAMES'] = len(pres)
    src = leximpl.LexerSource(ctx)
    kws = ev.module_const('pico8.lua.lexer', 'LUA_KEYWORDS')
    miss_kw = sorted(k for k in kws if k not in pres)
    res.check(not miss_kw, 'R-C02-reserved', where,
              'contains every keyword of the lexer',
              '{} keywords'.format(len(kws)),
              'keywords not preserved: {}'.format(miss_kw))
    miss_ref = sorted(k for k in pico8_api.LUA_KEYWORDS if k not in pres)
    res.check(not miss_ref, 'R-C02-reserved', where,
              'contains every Lua keyword of the reference', '',
              'Lua keywords not preserved: {}'.format(miss_ref))
    miss_api = sorted(k for k in pico8_api.PICO8_API_MINIMUM if k not in pres)
    res.check(not miss_api, 'R-C02-reserved', where,
              'contains the PICO-8 API / callback names',
              '{} reference names'.format(len(pico8_api.PICO8_API_MINIMUM)),
              'API names no longer preserved (luamin would rename a '
              'global PICO-8 calls or defines): {}'.format(miss_api[:8]))
    # get_short_name tests PRESERVED_NAMES in a keep branch
    # keep file: binary mode, stripped, bytes added
    q = FACTORY + '.read_names_file'
    f = model.func(q)
    opens = [n for n in model.own_nodes(f.node) if isinstance(n, ast.Call)
             and model.ext_name(f.module, n.func) == 'open']
    ok = len(opens) == 1 and open_mode(f.node, opens[0]) is not None and \
        'b' in open_mode(f.node, opens[0]) and \
        'r' in open_mode(f.node, opens[0])
    res.check(ok, 'R-C02-reserved', q, 'keep-file read as bytes',
              'names compared with token bytes are bytes',
              'keep-file is not opened in binary mode: its str lines never '
              'equal the bytes of a token, so nothing is kept', f.loc)
    strips = any(isinstance(n, ast.Call) and isinstance(n.func, ast.Attribute)
                 and n.func.attr == 'strip' for n in walk_own(f.node))
    adds = [n for n in walk_own(f.node) if isinstance(n, ast.Call) and
            isinstance(n.func, ast.Attribute) and n.func.attr == 'add']
    res.check(strips and len(adds) == 1, 'R-C02-reserved', q,
              'lines stripped and collected', '',
              'keep-file lines are not stripped / collected', f.loc)
    res.require_min('R-C02-reserved', 5)


def rule_factory(ctx, res):
    model = ctx.model
    wq = 'pico8.lua.lua:LuaMinifyTokenWriter'
    w = model.cls(wq)
    stores = []
    for m in w.methods.values():
        for n in walk_own(m.node):
            if isinstance(n, ast.Assign):
                for t in n.targets:
                    if _self_attr(t, '_name_factory'):
                        stores.append((m, n))
    ok = len(stores) == 1 and stores[0][0].name == '__init__'
    res.check(ok, 'R-C02-factory', wq, 'one factory per writer instance',
              'created in __init__ only',
              'the name factory is (re)created outside __init__: names would '
              'be mapped by different tables', w.module.loc(w.node))
    if ok:
        call = stores[0][1].value
        kw = {k.arg: k.value for k in call.keywords} if isinstance(
            call, ast.Call) else {}
        for key in ('keep_all_names', 'keep_names_from_file'):
            v = kw.get(key)
            good = v is not None and key in {const_str(a) for c in walk_own(v)
                                             if isinstance(c, ast.Call)
                                             for a in c.args}
            res.check(good, 'R-C02-factory', wq,
                      'writer arg {} -> factory parameter'.format(key), '',
                      'writer argument {!r} is not forwarded to the factory '
                      'parameter of the same name'.format(key),
                      w.module.loc(stores[0][1]))
    # factory __init__ stores the parameters it is given
    fi = model.func(FACTORY + '.__init__')
    src_txt = {ast.unparse(n) for n in walk_own(fi.node)
               if isinstance(n, ast.Assign)}
    res.check(any(s.replace(' ', '') == 'self._keep_all_names=keep_all_names'
                  for s in src_txt), 'R-C02-factory', fi.qual,
              'keep_all_names stored', '', 'flag not stored', fi.loc)
    reads_file = any(isinstance(n, ast.Call) and isinstance(
        n.func, ast.Attribute) and n.func.attr == 'read_names_file' and
        n.args and isinstance(n.args[0], ast.Name) and
        n.args[0].id == 'keep_names_from_file' for n in walk_own(fi.node))
    res.check(reads_file, 'R-C02-factory', fi.qual,
              'keep file read into _names_to_keep', '',
              'keep-names file is not read', fi.loc)
    # Name and Label branches use the same factory
    calls = []
    for m in w.methods.values():
        for n in walk_own(m.node):
            if isinstance(n, ast.Call) and isinstance(n.func, ast.Attribute) \
                    and n.func.attr == 'get_short_name':
                calls.append((m, n, _self_attr(n.func.value, '_name_factory')))
    res.check(len(calls) >= 2 and all(c[2] for c in calls), 'R-C02-factory',
              wq, 'names and labels renamed by the same factory',
              '{} call sites'.format(len(calls)),
              'a rename call does not use self._name_factory (labels and '
              'goto targets could diverge)', w.module.loc(w.node))
    # label: colons stripped/re-added symmetrically
    for (m, n, _ok) in calls:
        a = n.args[0] if n.args else None
        if isinstance(a, ast.Subscript) and isinstance(a.slice, ast.Slice):
            lo = a.slice.lower.value if isinstance(
                a.slice.lower, ast.Constant) else None
            hi = None
            if isinstance(a.slice.upper, ast.UnaryOp) and isinstance(
                    a.slice.upper.operand, ast.Constant):
                hi = -a.slice.upper.operand.value
            res.check(lo == 2 and hi == -2, 'R-C02-factory', wq,
                      'label name is the text between the :: pairs',
                      'code[2:-2]', 'label slice is [{}:{}]'.format(lo, hi),
                      m.module.loc(n))
    res.require_min('R-C02-factory', 6)


def run(ctx, res):
    r = rule_writeonce(ctx, res)
    f, cfg, name, ident_rets = r
    al = rule_fresh(ctx, res, f, cfg, name, ident_rets)
    if al is not None:
        rule_counter(ctx, res, f, cfg, al[0])
    rule_enum(ctx, res)
    rule_reserved(ctx, res)
    rule_factory(ctx, res)
    keep = {'keep_all_names', 'keep_names_from_file'}
    cli.rule_wiring(ctx, res, 'luamin', only_options=keep)
    cli.rule_wiring(ctx, res, 'build', only_options=keep)
