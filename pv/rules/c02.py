"""C02 -- luamin renaming is a consistent injection that respects reserved
names.  Rules: R-C02-writeonce, R-C02-fresh, R-C02-counter, R-C02-enum,
R-C02-reserved, R-C02-factory, R-C01-wiring (luamin, build)."""
import ast

from .. import rx, leximpl
from ..cfg import cfg_of
from ..consteval import UNKNOWN
from ..refs import pico8_api
from ..srcmodel import walk_own, FuncInfo, const_str
from .common import assignments_to, unparse, open_mode
from . import cli

EXPLANATION = (
    'R-C02-writeonce: the name map is stored to at exactly one site in the '
    'package, under a `name not in map` test on the same key, never deleted '
    'from, and the renamed result is read back from it -- so one input name '
    'always yields one output name. R-C02-fresh (sibling consistency): every '
    'collection whose membership makes get_short_name return a name '
    'unchanged (the keep branches) is also tested before a generated '
    'candidate is accepted, and the allocation loop can only be left through '
    'that acceptance test -- so a generated name never equals a kept one. '
    'R-C02-counter: the candidate counter advances exactly once on every '
    'loop iteration and is stored nowhere else, so two accepted candidates '
    'have different ids. R-C02-enum: _name_for_id is a positional expansion '
    'whose divisor, modulus and recursion threshold all evaluate to '
    'len(NAME_CHARS), over an alphabet without duplicates that lies inside '
    'the lexer\'s name-start class (taken from the extracted token table) -- '
    'positional notation without a zero-digit prefix ambiguity is injective. '
    'R-C02-reserved: PRESERVED_NAMES (evaluated) contains every keyword the '
    'lexer table emits and the frozen PICO-8 API list; the keep-file is read '
    'in binary mode and stripped. R-C02-factory: one factory per writer, '
    'created in __init__ only, used by the Name and the Label branch alike. '
    'R-C01-wiring: --keep-all-names / --keep-names-from-file are declared, '
    'read and handed to the writer that interprets them, for luamin and for '
    'build --lua-minify.')

ASSUMPTIONS = [
    'refs/pico8_api.py (frozen minimum of reserved API names)',
    'int(id / 26) equals id // 26 below 2**53 (ids stay far below)',
    'injectivity of positional notation (textbook argument)',
]

FACTORY = 'pico8.lua.lua:MinifyNameFactory'


def _self_attr(e, attr=None):
    return (isinstance(e, ast.Attribute) and isinstance(e.value, ast.Name)
            and e.value.id == 'self' and (attr is None or e.attr == attr))


def _atom(t, val):
    while isinstance(t, ast.UnaryOp) and isinstance(t.op, ast.Not):
        t, val = t.operand, not val
    return t, val


def _member_facts(conds, var_texts):
    """facts a path knows about membership of the value `var` (given by the
    texts it may be spelled as): -> (in_colls, notin_colls, none_colls,
    flags_true) where none_colls are collections known to be None"""
    u = ast.unparse
    inc, ninc, none, flags = set(), set(), set(), set()
    for (t, val) in conds:
        t, val = _atom(t, val)
        if isinstance(t, ast.Compare) and len(t.ops) == 1:
            op, l, r = t.ops[0], t.left, t.comparators[0]
            if isinstance(op, (ast.In, ast.NotIn)) and u(l) in var_texts:
                pos = isinstance(op, ast.In) == val
                (inc if pos else ninc).add(u(r))
            elif isinstance(op, (ast.Is, ast.IsNot)) and \
                    isinstance(r, ast.Constant) and r.value is None:
                isnone = isinstance(op, ast.Is) == val
                if isnone:
                    none.add(u(l))
        elif _self_attr(t) and val:
            flags.add(u(t))
    return inc, ninc, none, flags


def _alloc_site(ctx, f):
    """(function, loop) generating candidates via _name_for_id, looked for in
    f and the package functions it calls"""
    from .. import norm
    for (fn, n) in norm.walk_deep(ctx.model, f, list(f.node.body), depth=2):
        if isinstance(n, (ast.While, ast.For)) and any(
                isinstance(c, ast.Call) and
                isinstance(c.func, ast.Attribute) and
                c.func.attr == '_name_for_id' for c in walk_own(n)):
            return fn, n
    return None, None


def rule_writeonce(ctx, res):
    from ..absint.symbody import SymBody
    model = ctx.model
    u = ast.unparse
    q = FACTORY + '.get_short_name'
    f = model.func(q)
    cfg = cfg_of(f)
    name = f.params()[1]
    stores, deletes = [], []
    for g in model.functions.values():
        for n in model.own_nodes(g.node):
            if isinstance(n, (ast.Assign, ast.AugAssign)):
                tgts = n.targets if isinstance(n, ast.Assign) else [n.target]
                for t in tgts:
                    if isinstance(t, ast.Subscript) and \
                            isinstance(t.value, ast.Attribute) and \
                            t.value.attr == '_name_map':
                        stores.append((g, n, t))
            elif isinstance(n, ast.Delete):
                for t in n.targets:
                    if isinstance(t, ast.Subscript) and \
                            isinstance(t.value, ast.Attribute) and \
                            t.value.attr == '_name_map':
                        deletes.append((g, n))
            elif isinstance(n, ast.Call) and \
                    isinstance(n.func, ast.Attribute) and \
                    n.func.attr in ('pop', 'clear', 'update', 'popitem',
                                    'setdefault') and \
                    isinstance(n.func.value, ast.Attribute) and \
                    n.func.value.attr == '_name_map':
                deletes.append((g, n))
    res.check(len(stores) == 1 and stores[0][0].qual == q, 'R-C02-writeonce',
              q, 'single store site of the name map',
              'one store, inside get_short_name',
              '{} store sites: {}'.format(
                  len(stores), [s_[0].qual for s_ in stores]), f.loc)
    res.check(not deletes, 'R-C02-writeonce', q,
              'name map entries are never removed or overwritten in bulk',
              '', 'mutation of the name map at ' + ', '.join(
                  g.module.loc(n) for (g, n) in deletes), f.loc)
    # path view of get_short_name
    paths = SymBody(ctx, f, no_inline={'_name_for_id'}).run(f.node.body)
    MAP = 'self._name_map'
    absent_texts = ('{} not in {}'.format(name, MAP),)
    key_ok = guarded = True
    n_store = 0
    other_rets = []
    n_ident = n_map = 0
    stored_val = None
    for p in paths:
        st_ev = [e for e in p.events if e[0] == 'store' and u(e[1]) == MAP]
        # is the key known to be absent on this path?
        absent = False
        for (t, val) in p.conds:
            t, val = _atom(t, val)
            tt = u(t)
            if tt == '{} in {}'.format(name, MAP) and not val:
                absent = True
            if tt == '{} not in {}'.format(name, MAP) and val:
                absent = True
            if tt == '{}.get({}) is None'.format(MAP, name) and val:
                absent = True
            if tt == '{}.get({}) is not None'.format(MAP, name) and not val:
                absent = True
        for e in st_ev:
            n_store += 1
            if u(e[2]) != name:
                key_ok = False
            if not absent:
                guarded = False
            stored_val = u(e[3])
        if p.end == 'return' and p.ret is not None:
            r = u(p.ret)
            if r == name:
                n_ident += 1
            elif r in ('{}[{}]'.format(MAP, name),
                       '{}.get({})'.format(MAP, name)):
                n_map += 1
            elif st_ev and r == u(st_ev[-1][3]):
                n_map += 1             # returns the value it just stored
            else:
                other_rets.append(r)
    res.check(key_ok and guarded and n_store >= 1, 'R-C02-writeonce', q,
              'store guarded by `name not in map` on the same key',
              'an existing mapping is never overwritten',
              'store key is-param={} guarded={}'.format(key_ok, guarded),
              f.loc)
    res.check(n_map >= 1 and not other_rets, 'R-C02-writeonce', q,
              'result is the input name or its map entry',
              '{} identity return path(s), {} map return path(s)'.format(
                  n_ident, n_map),
              'a return yields something other than name / map[name]: ' +
              ', '.join(sorted(set(other_rets))[:3]), f.loc)
    return f, cfg, name, paths, stored_val


def rule_fresh(ctx, res, f, cfg, name, paths, stored_val):
    from ..absint.symbody import SymBody
    u = ast.unparse
    q = f.qual
    # K: the collections whose members are returned unchanged
    keep_colls, keep_flags = set(), set()
    for p in paths:
        if p.end == 'return' and p.ret is not None and u(p.ret) == name:
            inc, _ninc, _none, flags = _member_facts(p.conds, {name})
            if p.conds:
                t, val = _atom(*p.conds[-1])
                tt = u(t)
                if isinstance(t, ast.Compare) and tt.startswith(name + ' in ') \
                        and val:
                    keep_colls.add(u(t.comparators[0]))
                elif _self_attr(t) and val:
                    keep_flags.add(tt)
                else:
                    res.undecided('R-C02-fresh', q, 'keep branch',
                                  'unrecognised keep test ' + tt[:60], f.loc)
    res.tables['keep_collections'] = sorted(keep_colls)
    fn, alloc = _alloc_site(ctx, f)
    if alloc is None:
        res.vanished('R-C02-fresh', q, 'allocation loop',
                     'loop generating candidates via _name_for_id not found')
        return None
    sym = SymBody(ctx, fn, no_inline={'_name_for_id'})
    lpaths = sym.run(alloc.body, {})
    exits = [p for p in lpaths if p.end in ('break', 'return')]
    conts = [p for p in lpaths if p.end in ('fall', 'continue')]
    infinite = isinstance(alloc, ast.While) and \
        isinstance(alloc.test, ast.Constant) and alloc.test.value is True
    if not infinite or not exits:
        res.undecided('R-C02-fresh', q, 'allocation loop shape',
                      'expected `while True` left by break / return',
                      fn.module.loc(alloc))
        # the counter rule reads the same loop: a loop it cannot read is
        # not accused of stepping the counter elsewhere
        return None
    CAND = 'self._name_for_id(self._next_name_id)'
    rej_all = None
    for p in exits:
        _inc, ninc, none, _fl = _member_facts(p.conds, {CAND})
        rej = set(ninc) | set(none)
        rej_all = rej if rej_all is None else (rej_all & rej)
    res.tables['rejection_collections'] = sorted(rej_all or ())
    for c in sorted(keep_colls):
        res.check(c in (rej_all or ()), 'R-C02-fresh', q,
                  'kept collection {} filters generated names'.format(c),
                  'a candidate found in it is rejected',
                  'names in {} are returned unchanged, but a generated '
                  'candidate is not tested against it: a renamed identifier '
                  'can collide with a kept one'.format(c),
                  fn.module.loc(alloc))
    # the accepted candidate is what the loop hands on, and what is stored
    handed = set()
    for p in exits:
        if p.end == 'return':
            handed.add(u(p.ret) if p.ret is not None else None)
        else:
            handed |= {u(v) for k, v in p.env.items() if u(v) == CAND}
    st_ok = handed == {CAND}
    if fn is f:
        # the stored value is the local that holds the candidate
        st_ok = st_ok and stored_val is not None and (
            stored_val.split('$')[0] in {
                k for p in exits for k, v in p.env.items() if u(v) == CAND})
    else:
        call = 'self.{}()'.format(fn.name)
        st_ok = st_ok and stored_val == call
    res.check(st_ok, 'R-C02-fresh', q, 'stored value is the accepted candidate',
              '', 'the map does not store the candidate that passed the '
              'filter (stored: {})'.format(stored_val), fn.module.loc(alloc))
    res.require_min('R-C02-fresh', 3)
    return fn, alloc, lpaths


def rule_counter(ctx, res, f, cfg, site):
    u = ast.unparse
    q = f.qual
    model = ctx.model
    fn, alloc, lpaths = site
    CTR = 'self._next_name_id'
    bad = None
    gen_ok = True
    for p in lpaths:
        if p.end == 'raise':
            continue
        sets = [e for e in p.events if e[0] == 'set' and e[1] == CTR]
        if len(sets) != 1 or u(sets[0][2]) != CTR + ' + 1':
            bad = 'on a path through the loop the counter is set {} times ' \
                  '({})'.format(len(sets), [u(e[2]) for e in sets])
        # every generated candidate comes from the counter before the step
        for x in [v for v in p.env.values()] + [t for (t, _v) in p.conds]:
            for c in ast.walk(x):
                if isinstance(c, ast.Call) and \
                        isinstance(c.func, ast.Attribute) and \
                        c.func.attr == '_name_for_id':
                    if len(c.args) != 1 or u(c.args[0]) != CTR:
                        gen_ok = False
    res.check(bad is None, 'R-C02-counter', q,
              'every iteration and every exit passes the increment',
              'two accepted candidates always have different ids',
              'the counter is not advanced exactly once on some path through '
              'the loop ({}): the same short name can be handed out '
              'twice'.format(bad), fn.module.loc(alloc))
    res.check(gen_ok, 'R-C02-counter', q, 'candidate := name_for_id(counter)',
              '', 'candidate is not generated from the counter before it is '
              'advanced', fn.module.loc(alloc))
    # other stores to the counter: only __init__ (= 0).  A private helper
    # that nothing calls any more (its body was spliced into the loop by the
    # normaliser, or it is simply dead) stores nothing at run time; any
    # mention of its name -- a call, a bound-method reference -- keeps it.
    mentioned = set()
    for g in model.functions.values():
        for n in model.own_nodes(g.node):
            if isinstance(n, ast.Attribute):
                mentioned.add(n.attr)
            elif isinstance(n, ast.Name):
                mentioned.add(n.id)
    others = []
    for g in model.functions.values():
        if g.name.startswith('_') and not g.name.startswith('__') and \
                g.name not in mentioned:
            continue
        for n in model.own_nodes(g.node):
            if isinstance(n, (ast.Assign, ast.AugAssign)):
                tg = n.targets if isinstance(n, ast.Assign) else [n.target]
                for t in tg:
                    if isinstance(t, ast.Attribute) and \
                            t.attr == '_next_name_id' and not any(
                                n is x for x in walk_own(alloc)):
                        others.append((g, n))
    ok = all(g.name == '__init__' and isinstance(n, ast.Assign) and
             isinstance(n.value, ast.Constant) for (g, n) in others)
    res.check(ok and len(others) == 1, 'R-C02-counter', q,
              'counter stored only by __init__ and the loop', '',
              'other stores to the counter: ' + ', '.join(
                  g.module.loc(n) for (g, n) in others), f.loc)


def _enum_forms(ctx, f, chars):
    """positional expansion of _name_for_id, recursive or iterative:
    -> dict(radix uses, digit table ok, recursion/continuation ok) or None"""
    from ..absint.symbody import SymBody
    u = ast.unparse
    ev = ctx.consts
    idp = f.params()[1]
    sym = SymBody(ctx, f, no_inline={'_name_for_id'})
    radix = len(chars)
    R = str(radix)
    TBL = repr(chars)
    digit = '{}[{} % {}]'.format(TBL, idp, R)
    quot = ('int({} / {})'.format(idp, R), '{} // {}'.format(idp, R))
    loops = [n for n in walk_own(f.node) if isinstance(n, (ast.While,
                                                           ast.For))]
    if not loops:
        # recursive form: paths of the whole body
        ok_rec = ok_base = False
        for p in sym.run(f.node.body):
            if p.end != 'return' or p.ret is None:
                return None
            big = None
            for (t, val) in p.conds:
                t, val = _atom(t, val)
                tt = u(t)
                if tt == '{} >= {}'.format(idp, R):
                    big = val
                elif tt == '{} < {}'.format(idp, R):
                    big = not val
                else:
                    return None
            r = u(p.ret)
            if big is True and r in tuple(
                    'cls._name_for_id({}) + bytes([{}])'.format(qt, digit)
                    for qt in quot) + tuple(
                    'MinifyNameFactory._name_for_id({}) + bytes([{}])'.format(
                        qt, digit) for qt in quot):
                ok_rec = True
            elif big is False and r in ("b'' + bytes([{}])".format(digit),
                                        'bytes([{}])'.format(digit)):
                ok_base = True
            else:
                return {'ok': False, 'why': 'for id {} {} the name is '
                        '{}'.format('>=' if big else '<', R, r)}
        return {'ok': ok_rec and ok_base, 'why': 'recursive form'}
    if len(loops) != 1 or not isinstance(loops[0], ast.While):
        return None
    lp = loops[0]
    i_lp = f.node.body.index(lp) if lp in f.node.body else None
    if i_lp is None:
        return None
    pre = sym.run(f.node.body[:i_lp])
    if len(pre) != 1:
        return None
    env0 = pre[0].env
    acc = [e[1] for e in pre[0].events if e[0] == 'bind' and
           isinstance(e[2], ast.List) and not e[2].elts]
    if len(acc) != 1:
        return None
    acc = acc[0]
    test = u(sym.S(lp.test, env0))
    if test not in ('{} >= {}'.format(idp, R),):
        return {'ok': False, 'why': 'loop continues while ' + test}
    body = sym.run(lp.body, dict(env0))
    good = len(body) == 1 and body[0].end == 'fall' and \
        [u(e[1]) for e in body[0].events] == \
        ['{}.append({})'.format(acc, digit)] and \
        u(body[0].env.get(idp)) in quot
    if not good:
        return {'ok': False, 'why': 'loop step is not: append {}; id = '
                'id / {}'.format(digit, R)}
    post = sym.run(f.node.body[i_lp + 1:], dict(env0))
    good = len(post) == 1 and post[0].end == 'return' and \
        [u(e[1]) for e in post[0].events if e[0] == 'call'] == \
        ['{}.append({})'.format(acc, digit), '{}.reverse()'.format(acc)] and \
        u(post[0].ret) == 'bytes({})'.format(acc)
    if not good:
        return {'ok': False, 'why': 'after the loop: last digit, reverse, '
                'bytes expected'}
    return {'ok': True, 'why': 'iterative form'}


def _enum_evaluated(ctx, res, cls, f, radix):
    """_name_for_id evaluated (concrete ids) over the first ids and around the
    digit-count boundaries: two ids with one name are a witness whatever form
    the expansion is written in.  (No collision among these ids proves nothing
    about all ids: that is what the form rule is for.)  -> True when a
    collision was reported"""
    from ..absint import cx as CX
    ids = list(range(0, 2 * radix * radix + 2 * radix + 4))
    edge = radix + radix ** 2 + radix ** 3
    ids += list(range(max(edge - 3, ids[-1] + 1), edge + 4))
    ids += [radix ** 3 - 1, radix ** 3, radix ** 3 + 1, radix ** 4, 2 ** 31 - 1]
    ids = sorted(set(ids))
    cxi = CX.Cx(ctx.model, ctx.consts)
    fmt = CX.ClassVal(cls)
    seen = {}
    clash = None
    n = 0
    try:
        fn = cxi.getattr(fmt, f.name)
        for i in ids:
            v = cxi.call(fn, [i], {})
            if isinstance(v, CX.Seq):
                if any(CX.is_sym(x) for x in v.items):
                    raise CX.CxError('symbolic name')
                v = bytes(v.items)
            if not isinstance(v, (bytes, bytearray)):
                raise CX.CxError('name of id {} is {}'.format(
                    i, type(v).__name__))
            v = bytes(v)
            n += 1
            if v in seen and clash is None:
                clash = (seen[v], i, v)
            seen.setdefault(v, i)
            if not v and clash is None:
                clash = (i, i, v)
    except (AnalysisError, CX.CxError, CX.PyRaise) as e:
        res.info('R-C02-enum', f.qual, 'expansion evaluated',
                 'not followed: ' + str(e)[:100], f.loc)
        return False
    if clash is not None:
        res.violation('R-C02-enum', f.qual,
                      'distinct ids expand to distinct, non-empty names '
                      '(evaluated)',
                      'ids {} and {} both expand to {!r}: two different '
                      'identifiers are renamed to the same short name'.format(
                          clash[0], clash[1], clash[2]), f.loc,
                      semantic=True)
        return True
    res.holds('R-C02-enum', f.qual,
              'distinct ids expand to distinct, non-empty names (evaluated)',
              '{} ids evaluated (0..{}, and around the 3/4-letter '
              'boundary): no two share a name'.format(
                  n, 2 * radix * radix + 2 * radix + 3), f.loc)
    return False


def rule_enum(ctx, res):
    model, ev = ctx.model, ctx.consts
    cls = model.cls(FACTORY)
    q = FACTORY + '._name_for_id'
    f = model.func(q)
    chars = ev.class_const(cls, 'NAME_CHARS')
    if chars is UNKNOWN or not isinstance(chars, bytes):
        res.undecided('R-C02-enum', q, 'alphabet', 'NAME_CHARS not constant')
        return
    radix = len(chars)
    witness = _enum_evaluated(ctx, res, cls, f, radix)
    r = _enum_forms(ctx, f, chars)
    if witness:
        pass                    # reported with the colliding ids
    elif r is None:
        res.undecided('R-C02-enum', q, 'positional expansion',
                      'neither the recursive nor the iterative form of a '
                      'base-{} expansion was recognised'.format(radix), f.loc)
    else:
        res.check(r['ok'], 'R-C02-enum', q,
                  'name(id) = name(id / radix) + NAME_CHARS[id % radix], '
                  'radix = len(NAME_CHARS) throughout',
                  '{}, radix {}'.format(r['why'], radix),
                  'positional expansion is inconsistent ({}): two ids can '
                  'expand to the same name'.format(r['why']), f.loc)
    res.check(len(set(chars)) == len(chars), 'R-C02-enum',
              FACTORY + '.NAME_CHARS', 'alphabet has no duplicate byte',
              '{} distinct bytes'.format(len(chars)),
              'duplicate byte in NAME_CHARS: two ids spell the same name')
    # inside the lexer's name-start class
    src = leximpl.LexerSource(ctx)
    start = set()
    for (rg, clsname) in src.table:
        if clsname == 'TokName':
            nfa = rx.build(rg.pattern, rg.flags)
            fb = rx.first_bytes(nfa)
            if len(fb) > 1:
                start |= fb
    bad = [bytes([b]) for b in chars if b not in start]
    res.check(not bad, 'R-C02-enum', FACTORY + '.NAME_CHARS',
              'alphabet inside the lexer\'s name-start class',
              'every generated name lexes as one name token',
              'bytes {} cannot start a name for the lexer'.format(bad))
    res.require_min('R-C02-enum', 3)


def rule_reserved(ctx, res):
    model, ev = ctx.model, ctx.consts
    cls = model.cls(FACTORY)
    pres = ev.class_const(cls, 'PRESERVED_NAMES')
    where = FACTORY + '.PRESERVED_NAMES'
    if pres is UNKNOWN or not isinstance(pres, (set, frozenset)):
        res.undecided('R-C02-reserved', where, 'set', 'does not evaluate')
        return
    res.tables['PRESERVED_NAMES'] = len(pres)
    src = leximpl.LexerSource(ctx)
    kws = ev.module_const('pico8.lua.lexer', 'LUA_KEYWORDS')
    miss_kw = sorted(k for k in kws if k not in pres)
    res.check(not miss_kw, 'R-C02-reserved', where,
              'contains every keyword of the lexer',
              '{} keywords'.format(len(kws)),
              'keywords not preserved: {}'.format(miss_kw))
    miss_ref = sorted(k for k in pico8_api.LUA_KEYWORDS if k not in pres)
    res.check(not miss_ref, 'R-C02-reserved', where,
              'contains every Lua keyword of the reference', '',
              'Lua keywords not preserved: {}'.format(miss_ref))
    miss_api = sorted(k for k in pico8_api.PICO8_API_MINIMUM if k not in pres)
    res.check(not miss_api, 'R-C02-reserved', where,
              'contains the PICO-8 API / callback names',
              '{} reference names'.format(len(pico8_api.PICO8_API_MINIMUM)),
              'API names no longer preserved (luamin would rename a '
              'global PICO-8 calls or defines): {}'.format(miss_api[:8]))
    # get_short_name tests PRESERVED_NAMES in a keep branch
    # keep file: binary mode, stripped, bytes added
    q = FACTORY + '.read_names_file'
    f = model.func(q)
    opens = [n for n in model.own_nodes(f.node) if isinstance(n, ast.Call)
             and model.ext_name(f.module, n.func) == 'open']
    ok = len(opens) == 1 and open_mode(f.node, opens[0]) is not None and \
        'b' in open_mode(f.node, opens[0]) and \
        'r' in open_mode(f.node, opens[0])
    res.check(ok, 'R-C02-reserved', q, 'keep-file read as bytes',
              'names compared with token bytes are bytes',
              'keep-file is not opened in binary mode: its str lines never '
              'equal the bytes of a token, so nothing is kept', f.loc)
    strips = any(isinstance(n, ast.Call) and isinstance(n.func, ast.Attribute)
                 and n.func.attr == 'strip' for n in walk_own(f.node))
    adds = [n for n in walk_own(f.node) if isinstance(n, ast.Call) and
            isinstance(n.func, ast.Attribute) and n.func.attr == 'add']
    collects = len(adds) == 1 or any(
        isinstance(n, ast.SetComp) or (
            isinstance(n, ast.Call) and isinstance(n.func, ast.Name) and
            n.func.id in ('set', 'frozenset') and n.args)
        for n in walk_own(f.node))
    res.check(strips and collects, 'R-C02-reserved', q,
              'lines stripped and collected', '',
              'keep-file lines are not stripped / collected', f.loc)
    _keep_file_evaluated(ctx, res, cls, f)
    res.require_min('R-C02-reserved', 5)


def _keep_file_evaluated(ctx, res, cls, f):
    """read_names_file evaluated on a stand-in file: the names are exactly
    the stripped lines that are neither blank nor comments"""
    from ..absint import cx as CX
    lines = [b'# names to keep\n', b'alpha\n', b'\n', b'  beta  \n',
             b'   # indented comment\n', b'\t\n', b'gamma\r\n', b'alpha\n',
             b'#x\n', b'delta']
    want = {b'alpha', b'beta', b'gamma', b'delta'}
    cxi = CX.Cx(ctx.model, ctx.consts)
    opened = []

    def opn(c, a, k):
        opened.append((a, k))
        fo = CX.Opaque('file', {'close': lambda c2, a2, k2: None,
                                'readlines': lambda c2, a2, k2: list(lines),
                                'read': lambda c2, a2, k2: b''.join(lines)})
        fo.methods['__enter__'] = lambda c2, a2, k2: fo
        fo.methods['__exit__'] = lambda c2, a2, k2: None
        fo.methods['__iter__'] = lambda c2, a2, k2: list(lines)
        return fo
    cxi.ext_hooks = {'open': opn}
    inst = 'the kept names are the stripped, non-blank, non-comment lines ' \
        'of the file (evaluated)'
    try:
        paths = cxi.explore(lambda: cxi.call(
            cxi.getattr(CX.ClassVal(cls), f.name), ['names.txt'], {}))
        if len(paths) != 1 or paths[0][0]:
            raise CX.CxError('forks')
        kind, val = paths[0][1]
        if kind == 'raise':
            res.violation('R-C02-reserved', f.qual, inst,
                          'reading a keep file with comments, blank lines '
                          'and padded names raises {}'.format(val.tname),
                          f.loc, semantic=True)
            return
        got = set()
        for x in cxi.items(val):
            if isinstance(x, CX.Seq):
                x = bytes(x.items)
            got.add(x)
    except AnalysisError as e:
        res.info('R-C02-reserved', f.qual, inst, 'not followed: ' +
                 str(e)[:100], f.loc)
        return
    # entries that cannot be identifiers (an empty name, a comment line kept
    # by mistake) never meet a name token: harmless to the renaming
    import re as _re
    got = {x for x in got if isinstance(x, bytes) and
           _re.fullmatch(rb'[A-Za-z_][A-Za-z0-9_]*', x)}
    res.check(got == want, 'R-C02-reserved', f.qual, inst,
              '10-line stand-in file', 'from the lines {} the names kept are '
              '{} instead of {}'.format(
                  [l.strip() for l in lines], sorted(got), sorted(want)),
              f.loc, semantic=True)


def rule_factory_evaluated(ctx, res, rule='R-C02-fresh'):
    """`get_short_name` evaluated (absint/cx.py) on a fresh factory per
    configuration -- default, and with a keep file (stand-in names, among them
    short ones the enumeration would produce) -- for 300 distinct long names,
    enough to pass the first keyword-shaped candidates (`do`, `if`, `in`):

      * two different names never get the same short name, asking again
        gives the same answer;
      * a generated name g is itself renamed by the factory (f(g) != g): a
        name the factory leaves alone -- keyword, built-in, kept name -- is
        never handed out, whatever set decides that;
      * no generated name is a Lua / PICO-8 keyword of the reference list.

    A witness is a violation whatever form the allocation loop is written in;
    a clean run bounds the clause and leaves the universal argument to the
    statement-form rules."""
    from ..absint import cx as CX
    from ..refs import lexical as RL
    cls = ctx.model.cls(FACTORY)
    q = FACTORY + '.get_short_name'
    try:
        f = ctx.model.func(q)
    except Exception as e:
        res.vanished(rule, q, 'get_short_name', str(e)[:80])
        return
    kept = {b'a', b'c', b'k', b'ab', b'score', b'_hidden'}
    keywords = set(getattr(RL, 'KEYWORDS', ()))
    # kept names that sit directly before / behind a name the factory leaves
    # alone in the order of generation (`dn` before `do`): a filter that
    # tests the two collections one after the other hands out the second
    try:
        cx0 = CX.Cx(ctx.model, ctx.consts)
        cx0.budget = max(getattr(cx0, 'budget', 0), 20000000)
        cx0.hooks = {'pico8.util:debug': lambda c, a, k, bound=None: None}

        def probe():
            gen = cx0.getattr(CX.ClassVal(cls), '_name_for_id')
            fac = cx0.call(CX.ClassVal(cls), [], {})
            fn = cx0.getattr(fac, 'get_short_name')
            # move the factory's counter past the names asked about below:
            # afterwards f(g) == g only for names it leaves alone
            for i in range(0, 340):
                cx0.call(fn, [b'burn_%03d_x' % i], {})
            out = []
            for i in range(0, 320):
                g = cx0.call(gen, [i], {})
                if isinstance(g, CX.Seq):
                    g = bytes(g.items)
                out.append((g, cx0.call(fn, [g], {}) == g))
            return out
        pp = cx0.explore(probe)
        if len(pp) == 1 and not pp[0][0] and pp[0][1][0] == 'ok':
            order = pp[0][1][1]
            before = [a for (a, pa), (b, pb) in zip(order, order[1:])
                      if pb and not pa]
            behind = [b for (a, pa), (b, pb) in zip(order, order[1:])
                      if pa and not pb]
            kept |= set(before[:2] + before[-3:] + behind[:2])
    except AnalysisError:
        pass
    inst = 'generated short names are pairwise distinct and never a name ' \
        'the factory leaves unchanged (evaluated)'
    bad = []
    n_calls = 0
    try:
        for (what, kw) in (('default', {}),
                           ('--keep-names-from-file', {
                               'keep_names_from_file': 'names.txt'})):
            cxi = CX.Cx(ctx.model, ctx.consts)
            cxi.budget = max(getattr(cxi, 'budget', 0), 20000000)
            cxi.hooks = {
                FACTORY + '.read_names_file':
                    lambda c, a, k, bound=None: set(kept),
                'pico8.util:debug': lambda c, a, k, bound=None: None,
            }
            names = [b'name_%03d_x' % i for i in range(300)]

            def go():
                fac = cxi.call(CX.ClassVal(cls), [], dict(kw))
                fn = cxi.getattr(fac, 'get_short_name')

                def one(x):
                    v = cxi.call(fn, [x], {})
                    if isinstance(v, CX.Seq):
                        if any(CX.is_sym(y) for y in v.items):
                            raise CX.CxError('symbolic name')
                        v = bytes(v.items)
                    if not isinstance(v, (bytes, bytearray)):
                        raise CX.CxError('short name is ' + type(v).__name__)
                    return bytes(v)
                outs = [one(x) for x in names]
                again = [one(x) for x in names[:5] + names[-5:]]
                selfmap = [(g, one(g)) for g in sorted(set(outs))]
                return outs, again, selfmap
            paths = cxi.explore(go)
            if len(paths) != 1 or paths[0][0]:
                raise CX.CxError('the allocation forks')
            kind, val = paths[0][1]
            if kind == 'raise':
                bad.append('{}: raises {}'.format(what, val.tname))
                continue
            outs, again, selfmap = val
            n_calls += len(outs)
            seen = {}
            for x, g in zip(names, outs):
                if g in seen:
                    bad.append('{}: {!r} and {!r} both become {!r}'.format(
                        what, seen[g], x, g))
                    break
                seen[g] = x
            if again != outs[:5] + outs[-5:]:
                bad.append('{}: asking again for the same name gives a '
                           'different short name'.format(what))
            for g, fg in selfmap:
                if fg == g:
                    bad.append('{}: {!r} is renamed to {!r}, a name the '
                               'factory itself leaves unchanged (keyword, '
                               'built-in or kept name): two identifiers '
                               'collide'.format(what, seen[g], g))
                    break
            kwhit = [g for g in outs if g in keywords]
            if kwhit:
                bad.append('{}: {!r} is renamed to the keyword {!r}'.format(
                    what, seen[kwhit[0]], kwhit[0]))
    except AnalysisError as e:
        res.info(rule, q, inst, 'not followed: ' + str(e)[:120], f.loc)
        return
    res.check(not bad, rule, q, inst,
              '{} allocations on fresh factories (default; keep file with '
              'the names {})'.format(n_calls, sorted(kept)),
              '; '.join(bad[:3]), f.loc, semantic=True)


def rule_factory(ctx, res):
    model = ctx.model
    wq = 'pico8.lua.lua:LuaMinifyTokenWriter'
    w = model.cls(wq)
    stores = []
    for m in w.methods.values():
        for n in walk_own(m.node):
            if isinstance(n, ast.Assign):
                for t in n.targets:
                    if _self_attr(t, '_name_factory'):
                        stores.append((m, n))
    ok = len(stores) == 1 and stores[0][0].name == '__init__'
    res.check(ok, 'R-C02-factory', wq, 'one factory per writer instance',
              'created in __init__ only',
              'the name factory is (re)created outside __init__: names would '
              'be mapped by different tables', w.module.loc(w.node))
    if ok:
        call = stores[0][1].value
        kw = {k.arg: k.value for k in call.keywords} if isinstance(
            call, ast.Call) else {}
        for key in ('keep_all_names', 'keep_names_from_file'):
            v = kw.get(key)
            good = v is not None and key in {const_str(a) for c in walk_own(v)
                                             if isinstance(c, ast.Call)
                                             for a in c.args}
            res.check(good, 'R-C02-factory', wq,
                      'writer arg {} -> factory parameter'.format(key), '',
                      'writer argument {!r} is not forwarded to the factory '
                      'parameter of the same name'.format(key),
                      w.module.loc(stores[0][1]))
    # factory __init__ stores the parameters it is given
    fi = model.func(FACTORY + '.__init__')
    src_txt = {ast.unparse(n) for n in walk_own(fi.node)
               if isinstance(n, ast.Assign)}
    res.check(any(s.replace(' ', '') == 'self._keep_all_names=keep_all_names'
                  for s in src_txt), 'R-C02-factory', fi.qual,
              'keep_all_names stored', '', 'flag not stored', fi.loc)
    reads_file = any(isinstance(n, ast.Call) and isinstance(
        n.func, ast.Attribute) and n.func.attr == 'read_names_file' and
        n.args and isinstance(n.args[0], ast.Name) and
        n.args[0].id == 'keep_names_from_file' for n in walk_own(fi.node))
    res.check(reads_file, 'R-C02-factory', fi.qual,
              'keep file read into _names_to_keep', '',
              'keep-names file is not read', fi.loc)
    # Name and Label branches use the same factory
    calls = []
    for m in w.methods.values():
        for n in walk_own(m.node):
            if isinstance(n, ast.Call) and isinstance(n.func, ast.Attribute) \
                    and n.func.attr == 'get_short_name':
                calls.append((m, n, _self_attr(n.func.value, '_name_factory')))
    res.check(len(calls) >= 2 and all(c[2] for c in calls), 'R-C02-factory',
              wq, 'names and labels renamed by the same factory',
              '{} call sites'.format(len(calls)),
              'a rename call does not use self._name_factory (labels and '
              'goto targets could diverge)', w.module.loc(w.node))
    # label: colons stripped/re-added symmetrically
    for (m, n, _ok) in calls:
        a = n.args[0] if n.args else None
        if isinstance(a, ast.Subscript) and isinstance(a.slice, ast.Slice):
            lo = a.slice.lower.value if isinstance(
                a.slice.lower, ast.Constant) else None
            hi = None
            if isinstance(a.slice.upper, ast.UnaryOp) and isinstance(
                    a.slice.upper.operand, ast.Constant):
                hi = -a.slice.upper.operand.value
            res.check(lo == 2 and hi == -2, 'R-C02-factory', wq,
                      'label name is the text between the :: pairs',
                      'code[2:-2]', 'label slice is [{}:{}]'.format(lo, hi),
                      m.module.loc(n))
    res.require_min('R-C02-factory', 6)


def run(ctx, res):
    from .c01 import rule_instance_state
    rule_instance_state(ctx, res, 'R-C02-factory')
    f, cfg, name, paths, stored_val = rule_writeonce(ctx, res)
    site = rule_fresh(ctx, res, f, cfg, name, paths, stored_val)
    if site is not None:
        rule_counter(ctx, res, f, cfg, site)
    rule_enum(ctx, res)
    rule_reserved(ctx, res)
    rule_factory_evaluated(ctx, res)
    rule_factory(ctx, res)
    keep = {'keep_all_names', 'keep_names_from_file'}
    cli.rule_wiring(ctx, res, 'luamin', only_options=keep)
    cli.rule_wiring(ctx, res, 'build', only_options=keep)
