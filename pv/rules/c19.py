"""C19 -- luamin keeps the title and author comments that PICO-8 reads.

Rules: R-C19-header (on the extracted transducer), R-C19-agree (header count
and positions vs get_title/get_byline), R-C01-noglue restricted to fusions
that produce a comment.
"""
import ast

from ..minify import MinifierModel
from ..srcmodel import walk_own
from . import c01

EXPLANATION = (
    'On the finite transducer extracted from LuaMinifyTokenWriter (see C01): '
    'R-C19-header: in every reachable state in which no code token has been '
    'seen and fewer than N header comments were kept, a comment token emits '
    'exactly its own code followed by a line end and advances the counter; '
    'in every other state a comment emits nothing; nothing at all is '
    'emitted before the first header comment (spaces / blank lines in front '
    'are dropped); the "code seen" flag is set by exactly the non-space, '
    'non-newline, non-comment classes. R-C19-agree: N equals the number of '
    'leading comments Lua.get_title / get_byline read, and the token '
    'positions they read (0 and 2) are the positions comment, newline, '
    'comment take when the kept header is lexed again (a line comment cannot '
    'absorb the line end: R-C07-chunk). R-C01-noglue, restricted to '
    'outcomes of kind comment: no two adjacent code tokens fuse into a '
    'comment introducer.')

ASSUMPTIONS = [
    'what PICO-8 itself derives from the two lines is outside the analysis',
    'the lexer is right (C07)',
]


def rule_header(ctx, res, mm):
    where = mm.core.qual
    sv = mm.state_vars
    try:
        i_seen = [i for i, k in enumerate(sv) if 'seen_non' in k or
                  'seen_code' in k][0]
        i_hdr = [i for i, k in enumerate(sv) if 'header' in k][0]
    except IndexError:
        res.vanished('R-C19-header', where, 'header state',
                     'header counter / code-seen flag not found among {}'
                     .format(sv))
        return None
    N = mm.cap.get(sv[i_hdr], 1) - 1
    res.tables['header_comments_kept'] = N
    bad_keep = bad_drop = bad_pre = None
    for s in mm.states:
        outs, ns = mm.table[('Comment', s)]
        in_header = (not s[i_seen]) and s[i_hdr] < N
        if in_header:
            if outs != (('code',), ('lit', b'\n')) or \
                    ns[i_hdr] != s[i_hdr] + 1:
                bad_keep = (s, outs, ns)
        else:
            if outs:
                bad_drop = (s, outs)
        if not s[i_seen]:
            for fil in ('Space', 'Newline'):
                o, _ = mm.table[(fil, s)]
                if o:
                    bad_pre = (fil, s, o)
    res.check(bad_keep is None, 'R-C19-header', where,
              'leading comments are passed through verbatim, one per line',
              'comment -> its code + line end, counter + 1, while no code '
              'was seen and fewer than {} were kept'.format(N),
              'in state {} a leading comment emits {} / next state {}'.format(
                  *(bad_keep or (None, None, None))), mm.core.loc)
    res.check(bad_drop is None, 'R-C19-header', where,
              'later comments emit nothing',
              'comments after the header or after code are dropped, never '
              'turned into text',
              'a non-header comment emits {1} in state {0}'.format(
                  *(bad_drop or (None, None))), mm.core.loc)
    res.check(bad_pre is None, 'R-C19-header', where,
              'nothing precedes the header', 'spaces and blank lines before '
              'and between the header comments are dropped',
              '{} token emits {} before any code (state {})'.format(
                  *((bad_pre[0], bad_pre[2], bad_pre[1]) if bad_pre
                    else (None, None, None))), mm.core.loc)
    # the code-seen flag
    flag_bad = None
    for (c, s), (_o, ns) in mm.table.items():
        if c in mm.code_classes and not ns[i_seen]:
            flag_bad = (c, 'does not set')
        if c not in mm.code_classes and ns[i_seen] != s[i_seen]:
            flag_bad = (c, 'changes')
    res.check(flag_bad is None, 'R-C19-header', where,
              'code-seen flag set by exactly the code classes', '',
              'a {} token {} the code-seen flag'.format(
                  *(flag_bad or ('', ''))), mm.core.loc)
    # the header test comes before the comment-dropping branch: covered by
    # the table (a header comment is emitted, not dropped)
    return N


def rule_agree(ctx, res, N):
    model = ctx.model
    idx = {}
    for name in ('get_title', 'get_byline'):
        f = model.func('pico8.lua.lua:Lua.' + name)
        for n in walk_own(f.node):
            if isinstance(n, ast.Subscript) and \
                    isinstance(n.slice, ast.Constant) and \
                    isinstance(n.slice.value, int) and \
                    'tokens' in ast.unparse(n.value):
                idx[name] = n.slice.value
        isc = any(isinstance(n, ast.Call) and isinstance(n.func, ast.Name)
                  and n.func.id == 'isinstance' and
                  'TokComment' in ast.unparse(n) for n in walk_own(f.node))
        res.check(name in idx and isc, 'R-C19-agree', f.qual,
                  name + ' reads a leading comment token',
                  'token index {}'.format(idx.get(name)),
                  'no fixed-position comment read found', f.loc)
    want = {'get_title': 0, 'get_byline': 2}
    ok = idx == want and N is not None and 2 * (N - 1) >= max(want.values())
    res.check(ok, 'R-C19-agree', 'pico8.lua.lua:LuaMinifyTokenWriter',
              'kept header covers the positions stats reads',
              '{} comments kept as comment,newline pairs -> token indices '
              '0 and 2'.format(N),
              'title/byline are read at token indices {} but the minifier '
              'keeps {} leading comment(s): the byline (or title) is lost '
              'by minification'.format(idx, N))


def run(ctx, res):
    mm = MinifierModel(ctx)
    N = rule_header(ctx, res, mm)
    rule_agree(ctx, res, N)
    c01.rule_noglue(ctx, res, mm, prop_rule='R-C01-noglue',
                    only_comment=True)
