"""C19 -- luamin keeps the title and author comments that PICO-8 reads.

Rules: R-C19-header (on the extracted transducer), R-C19-agree (header count
and positions vs get_title/get_byline), R-C01-noglue restricted to fusions
that produce a comment.
"""
import ast

from ..minify import MinifierModel
from ..srcmodel import walk_own
from . import c01

EXPLANATION = (
    'On the finite transducer extracted from LuaMinifyTokenWriter (see C01): '
    'R-C19-header: in every reachable state in which no code token has been '
    'seen and fewer than N header comments were kept, a comment token emits '
    'exactly its own code followed by a line end and advances the counter; '
    'in every other state a comment emits nothing; nothing at all is '
    'emitted before the first header comment (spaces / blank lines in front '
    'are dropped); the "code seen" flag is set by exactly the non-space, '
    'non-newline, non-comment classes. R-C19-agree: N equals the number of '
    'leading comments Lua.get_title / get_byline read, and the token '
    'positions they read (0 and 2) are the positions comment, newline, '
    'comment take when the kept header is lexed again (a line comment cannot '
    'absorb the line end: R-C07-chunk). R-C01-noglue, restricted to '
    'outcomes of kind comment: no two adjacent code tokens fuse into a '
    'comment introducer.')

ASSUMPTIONS = [
    'what PICO-8 itself derives from the two lines is outside the analysis',
    'the lexer is right (C07)',
]


def rule_header(ctx, res, mm):
    """Header behaviour read off the extracted transducer (not off the names
    of its state variables): feed every sequence of comment / space / newline
    tokens to the initial state and observe what each comment emits."""
    where = mm.core.qual
    K = 6
    start = (mm.initial, 0)
    seen = {start}
    todo = [start]
    emits = {}            # comment ordinal -> set of outputs
    bad_pre = None
    while todo:
        (s, k) = todo.pop()
        outs, ns = mm.table[('Comment', s)]
        emits.setdefault(k + 1, set()).add(outs)
        nxt = (ns, min(k + 1, K))
        if nxt not in seen:
            seen.add(nxt)
            todo.append(nxt)
        for fil in ('Space', 'Newline'):
            o, ns2 = mm.table[(fil, s)]
            if o and bad_pre is None:
                bad_pre = (fil, s, o)
            nxt = (ns2, k)
            if nxt not in seen:
                seen.add(nxt)
                todo.append(nxt)
    KEEP = (('code',), ('lit', b'\n'))
    N = 0
    while N + 1 in emits and emits[N + 1] == {KEEP} and N < K:
        N += 1
    res.tables['header_comments_kept'] = N
    bad_keep = None
    for j in sorted(emits):
        if j <= N:
            continue
        if emits[j] != {()}:
            bad_keep = (j, sorted(emits[j], key=repr))
            break
    res.check(N >= 1 and bad_keep is None, 'R-C19-header', where,
              'leading comments are passed through verbatim, one per line',
              'the first {} leading comments emit their code + a line end '
              'whatever spaces / blank lines surround them; further ones '
              'emit nothing'.format(N),
              'leading comment number {} emits {} (expected {})'.format(
                  *(bad_keep or (N + 1, sorted(emits.get(N + 1, ()),
                                              key=repr))),
                  'its code and a line end' if not bad_keep else 'nothing'),
              mm.core.loc)
    res.check(bad_pre is None, 'R-C19-header', where,
              'nothing precedes the header', 'spaces and blank lines before '
              'and between the header comments are dropped',
              '{} token emits {} before any code (state {})'.format(
                  *((bad_pre[0], bad_pre[2], bad_pre[1]) if bad_pre
                    else (None, None, None))), mm.core.loc)
    # after any code token a comment emits nothing, in every reachable state
    after = set()
    for (c, s), (_o, ns) in mm.table.items():
        if c in mm.code_classes:
            after.add(ns)
    todo = list(after)
    while todo:
        s = todo.pop()
        for c in mm.classes:
            ns = mm.table[(c, s)][1]
            if ns not in after:
                after.add(ns)
                todo.append(ns)
    bad_drop = None
    for s in after:
        outs, _ns = mm.table[('Comment', s)]
        if outs:
            bad_drop = (s, outs)
    res.check(bad_drop is None, 'R-C19-header', where,
              'later comments emit nothing',
              'comments after code are dropped, never turned into text',
              'a comment after code emits {1} in state {0}'.format(
                  *(bad_drop or (None, None))), mm.core.loc)
    return N


def rule_agree(ctx, res, N):
    from ..absint.symbody import SymBody
    model = ctx.model
    idx = {}
    for name in ('get_title', 'get_byline'):
        f = model.func('pico8.lua.lua:Lua.' + name)
        found = set()
        isc = False
        for p in SymBody(ctx, f).run(f.node.body):
            exprs = [t for (t, _v) in p.conds]
            if p.ret is not None:
                exprs.append(p.ret)
            for e in exprs:
                for n in ast.walk(e):
                    if isinstance(n, ast.Subscript) and \
                            isinstance(n.slice, ast.Constant) and \
                            isinstance(n.slice.value, int) and \
                            ast.unparse(n.value).endswith('tokens'):
                        found.add(n.slice.value)
                    if isinstance(n, ast.Call) and \
                            isinstance(n.func, ast.Name) and \
                            n.func.id == 'isinstance' and \
                            'TokComment' in ast.unparse(n):
                        isc = True
        if len(found) == 1:
            idx[name] = found.pop()
        res.check(name in idx and isc, 'R-C19-agree', f.qual,
                  name + ' reads a leading comment token',
                  'token index {}'.format(idx.get(name)),
                  'no fixed-position comment read found', f.loc)
    want = {'get_title': 0, 'get_byline': 2}
    ok = idx == want and N is not None and 2 * (N - 1) >= max(want.values())
    res.check(ok, 'R-C19-agree', 'pico8.lua.lua:LuaMinifyTokenWriter',
              'kept header covers the positions stats reads',
              '{} comments kept as comment,newline pairs -> token indices '
              '0 and 2'.format(N),
              'title/byline are read at token indices {} but the minifier '
              'keeps {} leading comment(s): the byline (or title) is lost '
              'by minification'.format(idx, N))


def run(ctx, res):
    mm = MinifierModel(ctx)
    N = rule_header(ctx, res, mm)
    rule_agree(ctx, res, N)
    c01.rule_noglue(ctx, res, mm, prop_rule='R-C01-noglue',
                    only_comment=True)
