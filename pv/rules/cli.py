"""Extraction of the argparse declarations of pico8.tool and of the way
command functions consume them; the shared wiring rule R-C01-wiring."""
import ast

from ..core import Vanished
from ..srcmodel import walk_own, FuncInfo, const_str
from .common import assignments_to, unparse, literal


class Option:
    def __init__(self, flags, dest, action, default, call):
        self.flags, self.dest, self.action = flags, dest, action
        self.default, self.call = default, call

    def __repr__(self):
        return 'Option({}, action={}, default={!r})'.format(
            self.dest, self.action, self.default)


class Subcommand:
    def __init__(self, name, var):
        self.name, self.var = name, var
        self.options = {}
        self.func_expr = None


def argparser_table(model):
    """-> (global_options, {subcommand name: Subcommand})"""
    f = model.func('pico8.tool:_get_argparser')
    subs = {}
    by_var = {}
    glob = {}
    parser_vars = set()
    for n in walk_own(f.node):
        if isinstance(n, ast.Assign) and isinstance(n.value, ast.Call):
            fn = n.value.func
            if isinstance(fn, ast.Attribute) and fn.attr == 'add_parser' and \
                    n.value.args:
                name = const_str(n.value.args[0])
                for t in n.targets:
                    if isinstance(t, ast.Name) and name:
                        sc = Subcommand(name, t.id)
                        subs[name] = sc
                        by_var[t.id] = sc
            ext = model.ext_name(f.module, fn)
            if ext == 'argparse.ArgumentParser':
                for t in n.targets:
                    if isinstance(t, ast.Name):
                        parser_vars.add(t.id)
    for n in walk_own(f.node):
        if not (isinstance(n, ast.Call) and isinstance(n.func, ast.Attribute)
                and isinstance(n.func.value, ast.Name)):
            continue
        var = n.func.value.id
        if n.func.attr == 'add_argument':
            flags = [const_str(a) for a in n.args]
            if not flags or any(x is None for x in flags):
                continue
            long = [x for x in flags if x.startswith('--')]
            if long:
                dest = long[0][2:].replace('-', '_')
            elif flags[0].startswith('-'):
                dest = flags[0].lstrip('-').replace('-', '_')
            else:
                dest = flags[0]
            action, default = 'store', None
            for k in n.keywords:
                if k.arg == 'dest':
                    dest = const_str(k.value) or dest
                elif k.arg == 'action':
                    action = const_str(k.value) or action
                elif k.arg == 'default':
                    default = literal(k.value)
            if action == 'store_true' and default is None:
                default = False
            opt = Option(flags, dest, action, default, n)
            if var in by_var:
                by_var[var].options[dest] = opt
            elif var in parser_vars:
                glob[dest] = opt
        elif n.func.attr == 'set_defaults' and var in by_var:
            for k in n.keywords:
                if k.arg == 'func':
                    by_var[var].func_expr = k.value
    if not subs:
        raise Vanished('no argparse subcommands found in tool._get_argparser')
    return glob, subs


def command_function(model, sub):
    f = model.func('pico8.tool:_get_argparser')
    r = model.resolve_expr(f.module, sub.func_expr) if sub.func_expr else None
    if r and r[0] == 'func':
        return r[1]
    return None


def args_reads(fnode, argname='args'):
    """{attr: [nodes]} read from the namespace parameter: args.x,
    getattr(args, 'x'[, d]), hasattr(args,'x')."""
    out = {}
    for n in walk_own(fnode):
        if isinstance(n, ast.Attribute) and isinstance(n.value, ast.Name) \
                and n.value.id == argname:
            out.setdefault(n.attr, []).append(n)
        elif isinstance(n, ast.Call) and isinstance(n.func, ast.Name) and \
                n.func.id in ('getattr', 'hasattr') and len(n.args) >= 2 and \
                isinstance(n.args[0], ast.Name) and n.args[0].id == argname:
            k = const_str(n.args[1])
            if k is not None:
                out.setdefault(k, []).append(n)
            else:
                out.setdefault('<dynamic:{}>'.format(unparse(n.args[1])),
                               []).append(n)
    return out


def functions_receiving_args(model, f, argname='args', _seen=None):
    """f plus every package function that is handed the namespace: called
    with it, or passed by reference in a call that also passes it."""
    _seen = _seen if _seen is not None else {}
    if f.qual in _seen:
        return _seen
    _seen[f.qual] = f
    for n in model.own_nodes(f.node):
        if not isinstance(n, ast.Call):
            continue
        passes = any(isinstance(a, ast.Name) and a.id == argname
                     for a in list(n.args) + [k.value for k in n.keywords])
        if not passes:
            continue
        kind, targets = model.resolve_call(f, n)
        cands = [t for t in targets if isinstance(t, FuncInfo)] \
            if kind in ('exact', 'method') else []
        for a in list(n.args) + [k.value for k in n.keywords]:
            r = model.resolve_expr(f.module, a) if isinstance(
                a, (ast.Name, ast.Attribute)) else None
            if r and r[0] == 'func':
                cands.append(r[1])
        for t in cands:
            an = 'args' if 'args' in t.params() else argname
            functions_receiving_args(model, t, an, _seen)
    return _seen


def writer_arg_keys(model, cls):
    """Keys a writer class reads through self._args.get(k) / self._args[k],
    MRO-wide."""
    keys = {}
    for c in model.mro(cls):
        for m in c.methods.values():
            for n in walk_own(m.node):
                if isinstance(n, ast.Call) and \
                        isinstance(n.func, ast.Attribute) and \
                        n.func.attr == 'get' and \
                        isinstance(n.func.value, ast.Attribute) and \
                        n.func.value.attr == '_args' and n.args:
                    k = const_str(n.args[0])
                    if k:
                        keys.setdefault(k, []).append((m, n))
                elif isinstance(n, ast.Subscript) and \
                        isinstance(n.value, ast.Attribute) and \
                        n.value.attr == '_args':
                    k = const_str(n.slice)
                    if k:
                        keys.setdefault(k, []).append((m, n))
    return keys


def writer_selections(model, f):
    """Every (writer class expr, args dict expr, site) pair reaching a
    file.to_file call in function f.  Handles literal keywords and the
    branch-local variable pair idiom (lua_writer_cls / lua_writer_args
    assigned in the same block)."""
    out = []
    for n in model.own_nodes(f.node):
        if not isinstance(n, ast.Call):
            continue
        kind, targets = model.resolve_call(f, n)
        if not any(isinstance(t, FuncInfo) and
                   t.qual == 'pico8.game.file:to_file' for t in targets):
            continue
        cls_e = args_e = None
        for k in n.keywords:
            if k.arg == 'lua_writer_cls':
                cls_e = k.value
            elif k.arg == 'lua_writer_args':
                args_e = k.value
        if cls_e is None:
            out.append((None, None, n))
            continue
        if isinstance(cls_e, ast.Name) and isinstance(args_e, ast.Name):
            # pair form: cls, args = (C, A) if <test> else ...
            pairs = []
            for st in walk_own(f.node):
                if isinstance(st, ast.Assign) and len(st.targets) == 1 and \
                        isinstance(st.targets[0], ast.Tuple) and \
                        [getattr(x, 'id', None) for x in
                         st.targets[0].elts] == [cls_e.id, args_e.id]:
                    def leaves(v):
                        if isinstance(v, ast.IfExp):
                            return leaves(v.body) + leaves(v.orelse)
                        if isinstance(v, ast.Tuple) and len(v.elts) == 2:
                            return [(v.elts[0], v.elts[1], st)]
                        return [(None, None, st)]
                    pairs.extend(leaves(st.value))
            if pairs:
                out.extend(pairs)
                continue
        if isinstance(cls_e, ast.Name):
            cls_asg = assignments_to(f.node, cls_e.id)
            args_asg = assignments_to(f.node, args_e.id) \
                if isinstance(args_e, ast.Name) else []
            for (st, v) in cls_asg:
                block = _block_of(st)
                pair = None
                for (st2, v2) in args_asg:
                    if _block_of(st2) is block and block is not None and \
                            _block_of(st2) is not _body_of(f.node):
                        pair = v2
                if pair is None:
                    # the initial (unconditional) default
                    for (st2, v2) in args_asg:
                        if _block_of(st2) is _body_of(f.node):
                            pair = v2
                if _block_of(st) is _body_of(f.node) and len(cls_asg) > 1:
                    # the default None/None pair
                    out.append((v, pair, st))
                else:
                    out.append((v, pair, st))
        else:
            out.append((cls_e, args_e, n))
    return out


def _body_of(fnode):
    return fnode.body


def _block_of(stmt):
    p = getattr(stmt, '_parent', None)
    if p is None:
        return None
    for fld in ('body', 'orelse', 'finalbody'):
        b = getattr(p, fld, None)
        if isinstance(b, list) and stmt in b:
            return b
    return None


def _consumed_elsewhere(model, g, key, wcls):
    for (cls_e, args_e, _site) in writer_selections(model, g):
        if cls_e is None or not isinstance(args_e, ast.Dict):
            continue
        r = model.resolve_expr(g.module, cls_e)
        if not r or r[0] != 'class' or r[1] is wcls:
            continue
        keys = {const_str(k) for k in args_e.keys if k is not None}
        if key in keys and key in writer_arg_keys(model, r[1]):
            return True
    return False


def rule_wiring(ctx, res, subname, check_writer=True, only_options=None):
    """R-C01-wiring for one subcommand."""
    model = ctx.model
    glob, subs = argparser_table(model)
    if subname not in subs:
        res.vanished('R-C01-wiring', 'pico8.tool:_get_argparser', subname,
                     'subcommand not declared')
        return
    sub = subs[subname]
    cmd = command_function(model, sub)
    if cmd is None:
        res.vanished('R-C01-wiring', 'pico8.tool:_get_argparser',
                     subname + ' func', 'set_defaults(func=...) unresolved')
        return
    funcs = functions_receiving_args(model, cmd, cmd.params()[0]
                                     if cmd.params() else 'args')
    reads = {}
    for g in funcs.values():
        an = 'args' if 'args' in g.params() else (
            g.params()[0] if g.params() else 'args')
        for k, nodes in args_reads(g.node, an).items():
            reads.setdefault(k, []).append((g, nodes[0]))
    declared = dict(glob)
    declared.update(sub.options)
    # (i-a) every declared option of the subcommand is read somewhere
    for dest, opt in sorted(sub.options.items()):
        if only_options is not None and dest not in only_options:
            continue
        if dest in reads or any(k.startswith('<dynamic') for k in reads):
            dyn = dest not in reads
            res.holds('R-C01-wiring', cmd.qual,
                      '{}: option {} is read'.format(subname, dest),
                      'read in ' + (reads[dest][0][0].qual if not dyn else
                                    'a dynamic getattr(args, <expr>)'),
                      cmd.module.loc(opt.call))
        else:
            res.violation('R-C01-wiring', cmd.qual,
                          '{}: option {} is read'.format(subname, dest),
                          'option declared for `{}` but never read by the '
                          'command'.format(subname), cmd.module.loc(opt.call))
    # (i-b) every attribute read is declared
    for k, sites in sorted(reads.items()):
        if k.startswith('<dynamic') or k in ('func',):
            continue
        g, node = sites[0]
        soft = isinstance(node, ast.Call)       # getattr(args,k,default)
        if k in declared:
            res.holds('R-C01-wiring', g.qual,
                      '{}: args.{} declared'.format(subname, k), '',
                      g.module.loc(node), nontrivial=False)
        elif soft and len(node.args) >= 3:
            res.info('R-C01-wiring', g.qual,
                     '{}: getattr(args,{!r},default) undeclared'.format(
                         subname, k), 'falls back to its default',
                     g.module.loc(node))
        else:
            res.info('R-C01-wiring', g.qual,
                     '{}: args.{} undeclared'.format(subname, k),
                     'attribute read but not declared for this subcommand '
                     '(aside: outside the property statements)',
                     g.module.loc(node))
    # (ii) writer args produced == consumed, for options the writer needs
    for g in (funcs.values() if check_writer else ()):
        for (cls_e, args_e, site) in writer_selections(model, g):
            if cls_e is None or (isinstance(cls_e, ast.Constant) and
                                 cls_e.value is None):
                continue
            r = model.resolve_expr(g.module, cls_e)
            if not r or r[0] != 'class':
                res.info('R-C01-wiring', g.qual,
                         '{}: writer {}'.format(subname, unparse(cls_e, 40)),
                         'writer expression is not a class reference '
                         '(aside)', g.module.loc(site))
                continue
            wcls = r[1]
            consumed = writer_arg_keys(model, wcls)
            produced = {}
            if isinstance(args_e, ast.Dict):
                for k, v in zip(args_e.keys, args_e.values):
                    ks = const_str(k) if k is not None else None
                    if ks:
                        produced[ks] = v
            elif args_e is None or (isinstance(args_e, ast.Constant) and
                                    args_e.value is None):
                produced = {}
            else:
                res.undecided('R-C01-wiring', g.qual,
                              '{}: args of {}'.format(subname, wcls.name),
                              'writer args are not a dict literal',
                              g.module.loc(site))
                continue
            an = 'args' if 'args' in g.params() else (
                g.params()[0] if g.params() else 'args')
            for k in sorted(produced):
                if k not in consumed and _consumed_elsewhere(
                        model, g, k, wcls):
                    res.info('R-C01-wiring', g.qual,
                             '{}: key {!r} ignored by {}'.format(
                                 subname, k, wcls.name),
                             'another writer selection of this function '
                             'hands the key to a writer that reads it; this '
                             'writer has no use for it', g.module.loc(site))
                    continue
                res.check(k in consumed, 'R-C01-wiring', g.qual,
                          '{}: key {!r} consumed by {}'.format(
                              subname, k, wcls.name),
                          'writer reads self._args[{!r}]'.format(k),
                          'key {!r} is produced but {} never reads it '
                          '(typo / wrong writer)'.format(k, wcls.name),
                          g.module.loc(site))
            for k in sorted(consumed):
                if k in sub.options:
                    v = produced.get(k)
                    ok = v is not None and k in args_reads(
                        ast.Expression(v), an)
                    res.check(ok, 'R-C01-wiring', g.qual,
                              '{}: option {} reaches {}'.format(
                                  subname, k, wcls.name),
                              'declared option handed to the writer that '
                              'interprets it',
                              'option --{} is declared for `{}` and {} '
                              'interprets key {!r}, but this call does not '
                              'pass it: the option has no effect'.format(
                                  k.replace('_', '-'), subname, wcls.name, k),
                              g.module.loc(site))
