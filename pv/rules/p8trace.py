"""Path-wise models of the .p8 text formatter (C03 plumbing).

writer_trace: every path of P8Formatter.to_file as the ordered list of what
it writes to the output stream -- literal bytes, formatted values, and "all
lines of <iterable>" loops -- with the path's conditions.  Statement shape
does not matter: helpers and table loops introduced by a refactoring are
spliced/unrolled by the normaliser, locals are substituted by SymBody.

reader_dispatch: for a given section name, what P8Formatter.from_file stores
into the new game (attribute <- Class.from_lines(...)), obtained by evaluating
the dispatch loop's body with the section variable bound to that constant.
"""
import ast

from ..absint.symbody import SymBody
from ..consteval import UNKNOWN, ClassRef
from ..core import AnalysisError
from ..srcmodel import const_str

P8 = 'pico8.game.formatter.p8'


def loop_env(st, env):
    """environment for analysing one generic iteration of loop `st`: every
    name the body (or the loop header) assigns is unknown at entry"""
    killed = set()
    for n in ast.walk(st):
        if isinstance(n, ast.Name) and isinstance(n.ctx, (ast.Store,
                                                          ast.Del)):
            killed.add(n.id)
    return {k: v for k, v in env.items() if k not in killed}


class Item:
    __slots__ = ('kind', 'value', 'iter', 'var', 'writes', 'node', 'at')

    def __init__(self, kind, **kw):
        self.kind = kind            # 'lit' | 'expr' | 'lines'
        self.value = kw.get('value')
        self.iter = kw.get('iter')
        self.var = kw.get('var')
        self.writes = kw.get('writes')
        self.node = kw.get('node')
        self.at = kw.get('at')

    def __repr__(self):
        if self.kind == 'lit':
            return 'lit({!r})'.format(self.value)
        if self.kind == 'lines':
            return 'lines({})'.format(ast.unparse(self.iter)[:60])
        return 'expr({})'.format(ast.unparse(self.value)[:50])


def _is_write(call, out):
    return isinstance(call, ast.Call) and isinstance(call.func, ast.Attribute) \
        and call.func.attr == 'write' and isinstance(call.func.value, ast.Name) \
        and call.func.value.id == out and len(call.args) == 1


def _const_bytes(ctx, f, e):
    c = const_str(e)
    if isinstance(c, bytes):
        return c
    try:
        v = ctx.consts.eval_expr(f.module, e, {'self': None, 'cls': None})
    except Exception:
        return None
    return v if isinstance(v, bytes) else None


def writer_trace(ctx, qual=P8 + ':P8Formatter.to_file', out_index=2):
    """-> (func, out parameter name, [(path, [Item])])"""
    w = ctx.model.func(qual)
    out = w.params()[out_index]
    sym = SymBody(ctx, w)
    traces = []
    for p in sym.run(w.node.body):
        if p.end == 'raise':
            continue
        items = []
        for i, ev in enumerate(p.events):
            if ev[0] == 'call' and _is_write(ev[1], out):
                arg = ev[1].args[0]
                b = _const_bytes(ctx, w, arg)
                if b is not None:
                    items.append(Item('lit', value=b, node=ev[2], at=i))
                else:
                    items.append(Item('expr', value=arg, node=ev[2], at=i))
            elif ev[0] == 'loop':
                st, env = ev[1], ev[2]
                if not isinstance(st, ast.For):
                    continue
                it = sym.S(st.iter, env)
                tgt = st.target.id if isinstance(st.target, ast.Name) else None
                benv = loop_env(st, env)
                writes = []
                for bp in SymBody(ctx, w).run(st.body, benv):
                    ws = [e[1].args[0] for e in bp.events
                          if e[0] == 'call' and _is_write(e[1], out)]
                    writes.append((bp, ws))
                if any(ws for (_bp, ws) in writes):
                    items.append(Item('lines', iter=it, var=tgt,
                                      writes=writes, node=st, at=i))
        traces.append((p, items))
    if not traces:
        raise AnalysisError('no normal path through ' + qual)
    return w, out, traces


def sections_of(items):
    """[(name, lines Item | None, header Item)] in order: a literal
    `__name__\\n` followed (before the next header) by a lines loop"""
    out = []
    cur = None
    for it in items:
        if it.kind == 'lit' and it.value.startswith(b'__') and \
                it.value.endswith(b'__\n') and len(it.value) > 5:
            cur = [it.value[2:-3].decode('latin-1'), None, it]
            out.append(cur)
        elif it.kind == 'lines' and cur is not None and cur[1] is None:
            cur[1] = it
    return [tuple(x) for x in out]


def source_attr(lines_item, game='game'):
    """`game.<attr>.to_lines(...)` -> attr"""
    it = lines_item.iter
    if isinstance(it, ast.Call) and isinstance(it.func, ast.Attribute) and \
            it.func.attr == 'to_lines':
        v = it.func.value
        if isinstance(v, ast.Attribute) and isinstance(v.value, ast.Name) \
                and v.value.id == game:
            return v.attr
    return None


def truth_polarity(test, val, subject):
    """does the condition (test is val) say that `subject` (source text) is
    truthy / not None?  -> True / False / None (unrelated)"""
    t = ast.unparse(test)
    if t == subject:
        return bool(val)
    if isinstance(test, ast.Compare) and len(test.ops) == 1 and \
            ast.unparse(test.left) == subject and \
            isinstance(test.comparators[0], ast.Constant) and \
            test.comparators[0].value is None:
        if isinstance(test.ops[0], (ast.IsNot, ast.NotEq)):
            return bool(val)
        if isinstance(test.ops[0], (ast.Is, ast.Eq)):
            return not val
    if isinstance(test, ast.Call) and isinstance(test.func, ast.Name) and \
            test.func.id == 'bool' and len(test.args) == 1 and \
            ast.unparse(test.args[0]) == subject:
        return bool(val)
    return None


# ------------------------------------------------------------------ reader

def reader_dispatch(ctx, names, qual=P8 + ':P8Formatter.from_file'):
    """-> (func, {name: [(attr, class name, call node)] | 'raise' | None})
    for every section name: the attribute stores of the dispatch loop body
    with the loop variable bound to that name"""
    r = ctx.model.func(qual)
    loop = None
    for n in ast.walk(r.node):
        if isinstance(n, ast.For) and isinstance(n.target, ast.Name) and any(
                isinstance(c, ast.Call) and isinstance(c.func, ast.Attribute)
                and c.func.attr == 'from_lines' for c in ast.walk(n)):
            loop = n
            break
    if loop is None:
        raise AnalysisError('section dispatch loop of from_file not found')
    var = loop.target.id
    sym0 = SymBody(ctx, r)
    # environment at the loop: run the statements before it
    pre = []
    for st in r.node.body:
        if st is loop:
            break
        pre.append(st)
    else:
        raise AnalysisError('dispatch loop is not at the top level of '
                            'from_file')
    pre_paths = [p for p in sym0.run(pre) if p.end == 'fall']
    if not pre_paths:
        raise AnalysisError('no path reaches the dispatch loop')
    env0 = pre_paths[0].env
    out = {}
    for name in names:
        env = dict(env0)
        env[var] = ast.Constant(value=name)
        paths = SymBody(ctx, r, no_inline={'from_lines'}).run(loop.body, env)
        stores = []
        raised = 0
        for p in paths:
            if p.end == 'raise':
                raised += 1
                continue
            for ev in p.events:
                tgt, val = None, None
                if ev[0] == 'set':
                    tgt, val = ev[1], ev[2]
                elif ev[0] == 'call' and isinstance(ev[1], ast.Call) and \
                        isinstance(ev[1].func, ast.Name) and \
                        ev[1].func.id == 'setattr' and len(ev[1].args) == 3:
                    a = const_str(ev[1].args[1])
                    if isinstance(a, str):
                        tgt = ast.unparse(ev[1].args[0]) + '.' + a
                        val = ev[1].args[2]
                if tgt is None or not isinstance(val, ast.Call):
                    continue
                fn = val.func
                if isinstance(fn, ast.Attribute) and fn.attr == 'from_lines':
                    stores.append((tgt, _class_name(ctx, r, fn.value), val))
        if raised and not stores and raised == len(paths):
            out[name] = 'raise'
        else:
            out[name] = stores
    return r, out


def _class_name(ctx, f, e):
    r = ctx.model.resolve_expr(f.module, e)
    if r and r[0] == 'class':
        return r[1].name
    try:
        v = ctx.consts.eval_expr(f.module, e, {'self': None, 'cls': None})
    except Exception:
        v = UNKNOWN
    if isinstance(v, ClassRef):
        return v.name
    return None


# ------------------------------------------------- raw reader: line identity

def _decoded_arg(e):
    """str(L, encoding='utf-8') | str(L, 'utf-8') | L.decode('utf-8') -> L"""
    def is_utf8(c):
        return isinstance(c, ast.Constant) and isinstance(c.value, str) and \
            c.value.lower().replace('-', '').replace('_', '') == 'utf8'
    if isinstance(e, ast.Call) and isinstance(e.func, ast.Name) and \
            e.func.id == 'str' and e.args:
        enc = e.args[1] if len(e.args) > 1 else next(
            (k.value for k in e.keywords if k.arg == 'encoding'), None)
        if enc is not None and is_utf8(enc):
            return e.args[0]
    if isinstance(e, ast.Call) and isinstance(e.func, ast.Attribute) and \
            e.func.attr == 'decode':
        enc = e.args[0] if e.args else next(
            (k.value for k in e.keywords if k.arg == 'encoding'), None)
        if enc is None or is_utf8(enc):
            return e.func.value
    return None


def _is_readline(e, stream):
    return isinstance(e, ast.Call) and isinstance(e.func, ast.Attribute) and \
        e.func.attr == 'readline' and isinstance(e.func.value, ast.Name) and \
        e.func.value.id == stream and not e.args


def reader_line_flow(ctx, qual=P8 + ':_get_raw_data_from_p8_file'):
    """every place where the raw .p8 reader hands a line to
    lua.unicode_to_p8scii, per path of the reading loop:
    -> (func, [(path condition text, decoded?, line expression, is the
    stream's own readline() result?, node)])"""
    f = ctx.model.func(qual)
    stream = f.params()[0]
    sym = SymBody(ctx, f, no_inline={'unicode_to_p8scii'})
    out = []

    def conv_calls(e):
        for n in ast.walk(e):
            if isinstance(n, ast.Call) and (
                    (isinstance(n.func, ast.Attribute) and
                     n.func.attr == 'unicode_to_p8scii') or
                    (isinstance(n.func, ast.Name) and
                     n.func.id == 'unicode_to_p8scii')) and n.args:
                yield n

    def scan(paths):
        for p in paths:
            for ev in p.events:
                if ev[0] == 'loop' and isinstance(ev[1], (ast.While,
                                                          ast.For)):
                    st, env = ev[1], ev[2]
                    benv = loop_env(st, env)
                    scan(SymBody(ctx, f, no_inline={'unicode_to_p8scii'})
                         .run(st.body, benv))
                    continue
                exprs = [x for x in ev[1:] if isinstance(x, ast.AST)]
                for x in exprs:
                    for c in conv_calls(x):
                        arg = c.args[0]
                        L = _decoded_arg(arg)
                        out.append((p.cond_text(), L is not None,
                                    L if L is not None else arg,
                                    L is not None and _is_readline(L, stream),
                                    ev[-1] if isinstance(ev[-1], ast.AST)
                                    else f.node))
                    break
    scan(sym.run(f.node.body))
    return f, out


def classify_line_source(ctx, f, L):
    """'same' : L is the line exactly as read from the stream
       'changed' : L is computed from the line read (witness: the expression)
       'unknown' : provenance not followed"""
    stream = f.params()[0]
    if _is_readline(L, stream):
        return 'same'
    reads = [n for n in ast.walk(L) if _is_readline(n, stream)]
    if reads:
        return 'changed'
    if isinstance(L, ast.Name):
        # a variable every binding of which is a plain read of the stream
        # (priming read before the loop + re-read at its end)
        binds = [n for n in ast.walk(f.node) if isinstance(n, ast.Assign)
                 and any(isinstance(t, ast.Name) and t.id == L.id
                         for t in n.targets)]
        others = [n for n in ast.walk(f.node) if isinstance(
            n, (ast.AugAssign, ast.For, ast.With, ast.NamedExpr)) and any(
            isinstance(x, ast.Name) and x.id == L.id and
            isinstance(x.ctx, ast.Store) for x in ast.walk(
                n.target if hasattr(n, 'target') else n))]
        if binds and not others:
            if all(_is_readline(b.value, stream) for b in binds):
                return 'same'
            if any(any(_is_readline(x, stream) for x in ast.walk(b.value))
                   for b in binds):
                return 'changed'
        # loop variable of `for L in <generator of lines>(stream)`
        for n in ast.walk(f.node):
            if isinstance(n, ast.For) and isinstance(n.target, ast.Name) \
                    and n.target.id == L.id:
                it = n.iter
                if isinstance(it, ast.Name) and it.id == stream:
                    return 'same'          # iterating the stream itself
                if isinstance(it, ast.Call):
                    r = ctx.model.resolve_expr(f.module, it.func)
                    if r and r[0] == 'func' and it.args and isinstance(
                            it.args[0], ast.Name) and \
                            it.args[0].id == stream:
                        g = r[1]
                        gs = g.params()[0] if g.params() else None
                        ys = []
                        ok = True
                        for p in SymBody(ctx, g).run(g.node.body):
                            for ev in p.events:
                                if ev[0] == 'yield':
                                    ys.append(ev[1])
                                elif ev[0] == 'loop':
                                    st, env = ev[1], ev[2]
                                    for bp in SymBody(ctx, g).run(
                                            st.body, loop_env(st, env)):
                                        ys.extend(e[1] for e in bp.events
                                                  if e[0] == 'yield')
                                elif ev[0] == 'yield_from':
                                    ok = False
                        if g is f or gs is None:
                            return 'unknown'
                        kinds = {classify_line_source(ctx, g, e)
                                 if e is not None else 'unknown' for e in ys}
                        if ok and ys and kinds == {'same'}:
                            return 'same'
                        if 'changed' in kinds:
                            return 'changed'
        return 'unknown'
    names = {n.id for n in ast.walk(L) if isinstance(n, ast.Name)}
    if len(names) == 1 and not isinstance(L, ast.Name):
        inner = classify_line_source(ctx, f, ast.Name(id=names.pop(),
                                                      ctx=ast.Load()))
        if inner in ('same', 'changed'):
            return 'changed'
    return 'unknown'
