"""C12: `_locate_require_file` decided by evaluation.

The function is evaluated (concrete-control abstract interpreter) with the
file system replaced by a stand-in that records every path it is asked about
(`os.path.isfile`) and answers from a chosen set; `os.getenv` answers from a
chosen environment; `os.path.join / dirname / sep` are the POSIX functions on
concrete strings.  For every configuration the recorded probes must be
exactly, in order,

    for each template of the load path (argument, else PICO8_LUA_PATH, else the
    default), split at `;`:  template with `?` replaced by the require string,
    made relative to the requiring file's directory unless it is absolute

and the first of them the file system answers "yes" to is what is returned
(None when none is).  A probe outside that list is a file looked for -- and
then opened by the caller -- outside the permitted directories; a wrong
return value is a file opened from the wrong place or a package not found."""
import posixpath

from ..absint import cx as CX
from ..core import AnalysisError

B = 'pico8.build.build'


def _expected(p, file_path, lua_path, env, default, present):
    if lua_path is None:
        lua_path = env.get('PICO8_LUA_PATH')
        if lua_path is None:
            lua_path = default
    base = posixpath.dirname(file_path)
    probes = []
    for t in lua_path.split(';'):
        c = t.replace('?', p)
        if not c.startswith('/'):
            c = posixpath.join(base, c)
        probes.append(c)
        if c in present:
            return probes, c
    return probes, None


CASES = [
    # what, p, file_path, lua_path, env, present
    ('default load path, second template hits', 'lib/util',
     '/proj/src/main.lua', None, {}, {'/proj/src/lib/util.lua'}),
    ('default load path, nothing found', 'nope', '/proj/src/main.lua', None,
     {}, set()),
    ('default load path, first template hits', 'm', '/proj/main.lua', None,
     {}, {'/proj/m', '/proj/m.lua'}),
    ('load path from PICO8_LUA_PATH (absolute and relative templates)',
     'lib/util', '/proj/src/main.lua', None,
     {'PICO8_LUA_PATH': '/opt/lua/?.lua;vendor/?;?.p8'},
     {'/proj/src/vendor/lib/util'}),
    ('explicit load path wins over the environment', 'u',
     '/proj/src/main.lua', 'a/?;/b/?.lua',
     {'PICO8_LUA_PATH': '/env/?.lua'}, {'/b/u.lua'}),
    ('explicit load path, several `?` and an empty template', 'x',
     '/w/cart.lua', '?/?.lua;;lib/?', {}, {'/w/lib/x'}),
    ('requiring file in the current directory', 'u', 'main.lua', '?.lua',
     {}, {'u.lua'}),
    ('require string with a load-path separator in it', 'a;/etc/passwd',
     '/proj/main.lua', '?.lua;lib/?', {}, set()),
]


def _run(ctx, f, default, p, file_path, lua_path, env, present, dirs=()):
    cxi = CX.Cx(ctx.model, ctx.consts)
    probes = []

    def isfile(c, a, k):
        probes.append(a[0])
        return a[0] in present

    def exists(c, a, k):
        probes.append(a[0])
        return a[0] in present or a[0] in dirs

    def isdir(c, a, k):
        return a[0] in dirs
    cxi.ext_hooks = {
        'os.path.isfile': isfile,
        'os.path.exists': exists,
        'os.path.isdir': isdir,
        'os.path.dirname': lambda c, a, k: posixpath.dirname(a[0]),
        'os.path.join': lambda c, a, k: posixpath.join(*a),
        'os.path.isabs': lambda c, a, k: posixpath.isabs(a[0]),
        'os.path.normpath': lambda c, a, k: posixpath.normpath(a[0]),
        'os.getenv': lambda c, a, k: env.get(a[0], a[1] if len(a) > 1
                                             else k.get('default')),
        'os.environ.get': lambda c, a, k: env.get(a[0], a[1] if len(a) > 1
                                                  else None),
    }
    args = [p, file_path] + ([lua_path] if lua_path is not None else [])
    paths = cxi.explore(lambda: cxi.call_function(f, args, {}))
    if len(paths) != 1 or paths[0][0]:
        raise CX.CxError('the lookup forks')
    kind, val = paths[0][1]
    if kind == 'raise':
        return probes, ('raise', val.tname)
    return probes, val


def report(ctx, res, rule='R-C12-locate'):
    q = B + ':_locate_require_file'
    try:
        f = ctx.model.func(q)
    except Exception as e:
        res.vanished(rule, q, 'lookup', str(e)[:80])
        return False
    default = ctx.consts.module_const(B, 'DEFAULT_LUA_PATH')
    if not isinstance(default, str):
        res.undecided(rule, q, 'default load path',
                      'DEFAULT_LUA_PATH is not a constant string', f.loc)
        return False
    bad = []
    n = 0
    try:
        for (what, p, fp, lp, env, present) in CASES:
            probes, ret = _run(ctx, f, default, p, fp, lp, env, present)
            n += 1
            want_p, want_r = _expected(p, fp, lp, env, default, present)
            # every candidate of the load path (a lookup may ask about later
            # ones too: they are inside the load path all the same)
            full, _none = _expected(p, fp, lp, env, default, set())
            if isinstance(ret, tuple) and ret and ret[0] == 'raise':
                bad.append('{}: raises {}'.format(what, ret[1]))
            elif [x for x in probes if x not in full]:
                bad.append('{}: the file system is asked about {}, which is '
                           'not one of the load-path candidates {}'.format(
                               what, [x for x in probes if x not in full],
                               full))
            elif ret != want_r:
                bad.append('{}: returns {!r} instead of {!r}'.format(
                    what, ret, want_r))
    except AnalysisError as e:
        res.info(rule, q, 'lookup evaluated', 'not followed: ' +
                 str(e)[:140], f.loc)
        return False
    res.check(not bad, rule, q,
              'the files looked for are load-path templates with the require '
              'string substituted, relative to the requiring file unless '
              'absolute; the first that exists is returned (evaluated)',
              '{} configurations (argument / environment / default load '
              'path, absolute and relative templates) on a recording '
              'stand-in file system; default load path {!r}'.format(
                  n, default), '; '.join(bad[:2]) + (
                      ' (+{} more)'.format(len(bad) - 2)
                      if len(bad) > 2 else ''), f.loc, semantic=True)
    return True



# a directory is not a package: the lookup must pass over a candidate that
# names a directory (a package `geom.lua` next to a directory `geom/` for its
# sub-packages is the ordinary layout of a nested package graph)
DIR_CASES = [
    # what, p, file_path, lua_path, env, files, directories
    ('package next to a directory of the same name, default load path',
     'geom', '/proj/main.lua', None, {}, {'/proj/geom.lua'}, {'/proj/geom'}),
    ('empty template in the load path (names the requiring directory)',
     'util', '/proj/main.lua', 'vendor/?.lua;;lib/?.lua', {},
     {'/proj/lib/util.lua'}, {'/proj', '/proj/'}),
    ('only a directory matches', 'pkg', '/proj/main.lua', '?', {}, set(),
     {'/proj/pkg'}),
]


def report_files_only(ctx, res, rule='R-C14-errors'):
    """C14: what the lookup returns is opened and parsed as a package, so it
    must be a file -- evaluated on a stand-in file system that has
    directories as well"""
    q = B + ':_locate_require_file'
    try:
        f = ctx.model.func(q)
    except Exception as e:
        res.vanished(rule, q, 'lookup', str(e)[:80])
        return False
    default = ctx.consts.module_const(B, 'DEFAULT_LUA_PATH')
    if not isinstance(default, str):
        return False
    bad = []
    n = 0
    try:
        for (what, p, fp, lp, env, files, dirs) in DIR_CASES:
            probes, ret = _run(ctx, f, default, p, fp, lp, env, files, dirs)
            n += 1
            _w, want = _expected(p, fp, lp, env, default, files)
            if isinstance(ret, tuple) and ret and ret[0] == 'raise':
                bad.append('{}: raises {}'.format(what, ret[1]))
            elif ret != want:
                bad.append('{}: returns {!r}{} instead of {!r}'.format(
                    what, ret, ' (a directory)' if ret in dirs else '',
                    want))
    except AnalysisError as e:
        res.info(rule, q, 'lookup evaluated with directories',
                 'not followed: ' + str(e)[:140], f.loc)
        return False
    res.check(not bad, rule, q,
              'the lookup passes over candidates that are directories: what '
              'it returns is a file (evaluated)',
              '{} layouts with a directory among the candidates'.format(n),
              '; '.join(bad[:2]), f.loc, semantic=True)
    return True
