"""Whole-function evaluation of the .p8 section codecs (C03 / C16).

Each section class is evaluated with the concrete-control abstract interpreter
(absint/cx.py): the section's memory is an array of symbolic bytes of the
real region size, `to_lines()` is interpreted from its source whatever way it
is written, and the produced text is compared, character by character and bit
by bit, with the reference encoding built from refs/formats.py.  The reader is
interpreted on the *reference* encoding of symbolic memory and must return
that memory.  Both directions are compared with the format, not with each
other (C16); the composition reader(writer(memory)) == memory is evaluated as
well (C03).  Every comparison covers all 2^(8*size) memory contents at once,
because each output bit is a recorded boolean function of named memory bits.
"""
from ..absint import cx as CX
from ..absint.symx import BV, ZERO
from ..core import AnalysisError
from ..refs import formats as ref

SECTIONS = {
    'gfx': 'pico8.gfx.gfx:Gfx',
    'gff': 'pico8.gff.gff:Gff',
    'map': 'pico8.map.map:Map',
    'sfx': 'pico8.sfx.sfx:Sfx',
    'music': 'pico8.music.music:Music',
}


def _nib(bv, hi):
    b = bv if isinstance(bv, BV) else BV.const(bv, 8)
    cells = [b.cell(k) for k in (range(4, 8) if hi else range(0, 4))]
    return BV(cells)


def _pick(cells):
    return BV(list(cells) + [ZERO] * (4 - len(cells)))


def ref_lines(sec, mem):
    """reference .p8 text of a section whose memory is `mem` (list of BV):
    list of lines, each a list of 4-bit BVs (hex digits) and literal ints"""
    out = []
    if sec == 'gfx':
        per = ref.P8_BYTES_PER_LINE['gfx']
        for r in range(0, len(mem), per):
            line = []
            for b in mem[r:r + per]:
                line.append(_nib(b, False))      # even pixel = low nibble
                line.append(_nib(b, True))
            out.append(line + [10])
    elif sec in ('gff', 'map'):
        per = ref.P8_BYTES_PER_LINE[sec]
        for r in range(0, len(mem), per):
            line = []
            for b in mem[r:r + per]:
                line.append(_nib(b, True))
                line.append(_nib(b, False))
            out.append(line + [10])
    elif sec == 'sfx':
        for p in range(ref.SFX_PATTERNS):
            base = p * ref.SFX_BYTES
            line = []
            for fld in ref.SFX_LINE_HEADER_ORDER:
                b = mem[base + ref.SFX_HEADER_OFFSETS[fld]]
                line.append(_nib(b, True))
                line.append(_nib(b, False))
            for n in range(ref.SFX_NOTES):
                lo, hi = mem[base + 2 * n], mem[base + 2 * n + 1]

                def wbit(k):
                    return lo.cell(k) if k < 8 else hi.cell(k - 8)
                bits = ref.SFX_NOTE_BITS
                pitch = [wbit(k) for k in bits['pitch']]
                line.append(_pick(pitch[4:6]))
                line.append(_pick(pitch[0:4]))
                line.append(_pick([wbit(k) for k in bits['waveform']]))
                line.append(_pick([wbit(k) for k in bits['volume']]))
                line.append(_pick([wbit(k) for k in bits['effect']]))
            out.append(line + [10])
    elif sec == 'music':
        for p in range(ref.MUSIC_PATTERNS):
            b = mem[4 * p:4 * p + 4]
            flags = [ZERO, ZERO, ZERO]
            for byte, bit in ref.MUSIC_FLAG_OF_BYTE.items():
                flags[bit] = b[byte].cell(7)
            line = [BV([ZERO] * 4), _pick(flags), 32]
            for x in b:
                line.append(_pick([x.cell(4), x.cell(5), x.cell(6)]))
                line.append(_nib(x, False))
            out.append(line + [10])
    else:
        raise AnalysisError('no reference layout for ' + sec)
    return out


def _to_line_seq(line):
    return CX.Seq('bytes', [CX.HexCh(x) if isinstance(x, BV) else x
                            for x in line])


def _elem_eq(got, want):
    """got: element produced by the evaluated writer; want: BV4 | int"""
    if isinstance(want, int):
        if isinstance(got, str):
            got = ord(got)
        return got == want
    if isinstance(got, CX.HexCh):
        return got.bv == want
    c = want.as_const()
    if c is not None:
        if isinstance(got, str):
            got = ord(got)
        return got == ord(CX.HEXDIGITS[c])
    return False


def _describe(x):
    if isinstance(x, CX.HexCh):
        return 'hex digit of ' + _bits(x.bv)
    if isinstance(x, BV):
        return 'hex digit of ' + _bits(x)
    if isinstance(x, int):
        return repr(chr(x))
    return repr(x)


def _bits(bv):
    out = []
    for k in reversed(range(max(len(bv.cells), 4))):
        c = bv.cell(k)
        if c is None:
            out.append('?')
        elif c.is_const():
            out.append(str(c.const()))
        elif len(c.vars) == 1 and c.table == 2:
            src, bit = c.vars[0]
            out.append('{}[{}].{}'.format(src[1], src[2], bit)
                       if src[0] == 'mem' else '{}.{}'.format(src, bit))
        else:
            out.append('f(..)')
    return '<' + ' '.join(out) + '>'


class SectionEval:
    """results of evaluating one section class; every field is either a
    value or an AnalysisError (the evaluator could not follow)"""

    def __init__(self, ctx, sec, size):
        self.sec = sec
        self.size = size
        self.cls = ctx.model.cls(SECTIONS[sec])
        self.cx = CX.Cx(ctx.model, ctx.consts)
        self.mem = [BV.source(('mem', sec, k), 8) for k in range(size)]
        self.want_lines = ref_lines(sec, self.mem)
        self.writer = self._run_writer()
        self.reader_ref = self._run_reader(
            [_to_line_seq(l) for l in self.want_lines])
        if isinstance(self.writer, list):
            self.roundtrip = self._run_reader(self.writer)
        else:
            self.roundtrip = self.writer

    def _single(self, paths, what):
        live = [(c, r) for (c, r) in paths
                if not (r[0] == 'raise' and r[1].tname == 'AssertionError'
                        and r[1].args_ == ('assumed away',))]
        if len(live) != 1:
            raise CX.CxError('{}: {} paths depend on the section contents'
                             .format(what, len(live)))
        conds, (kind, val) = live[0]
        if conds:
            raise CX.CxError('{}: control flow depends on the contents ({})'
                             .format(what, conds[0][0]))
        if kind == 'raise':
            return ('raise', val)
        return ('ok', val)

    def _run_writer(self):
        cxi = self.cx

        def go():
            o = CX.Obj(self.cls)
            o.attrs['_data'] = CX.Seq('bytearray', list(self.mem))
            o.attrs['_version'] = 8
            return cxi.call(cxi.getattr(o, 'to_lines'), [], {})
        try:
            kind, val = self._single(cxi.explore(go), 'to_lines')
            if kind == 'raise':
                return ('raise', val.tname, val.args_)
            lines = []
            for l in cxi.items(val):
                if cxi.kind_of(l) not in ('bytes', 'bytearray'):
                    return ('type', cxi.kind_of(l) or type(l).__name__)
                lines.append(l)
            return lines
        except AnalysisError as e:
            return e

    def _run_reader(self, lines, multi=False):
        cxi = self.cx

        def go():
            return cxi.call(cxi.getattr(CX.ClassVal(self.cls), 'from_lines'),
                            [list(lines), 8], {})

        def data_of(kind, val):
            if kind == 'raise':
                return ('raise', val.tname, val.args_)
            if not isinstance(val, CX.Obj):
                return ('type', type(val).__name__)
            d = val.attrs.get('_data')
            if d is None:
                return ('type', 'no _data')
            return cxi.items(d)
        try:
            paths = cxi.explore(go, max_paths=256 if multi else 64)
            if multi:
                out = []
                for (conds, (kind, val)) in paths:
                    cons = constraints_of(conds)
                    if cons is None:
                        raise CX.CxError(
                            'from_lines: control flow depends on the '
                            'contents ({})'.format(conds[0][0][:2]))
                    out.append((cons, data_of(kind, val)))
                return ('paths', out)
            kind, val = self._single(paths, 'from_lines')
            for (test, srcs) in cxi.narrowed:
                if 'mem' in srcs:
                    # a range assertion on a value computed from the text:
                    # it fails for some contents of a well-formed section
                    return ('raise', 'AssertionError',
                            ('`assert {}` fails for some contents: the '
                             'value is built from more section bits than '
                             'the range holds'.format(test),))
            return data_of(kind, val)
        except CX.WideByteStore as e:
            if 'mem' in e.sources():
                return ('raise', 'ValueError',
                        ('a byte is built from more bits of the text than it '
                         'holds ({} live bits): the store raises for some '
                         'contents of a well-formed section'.format(
                             e.bv.width),))
            return e
        except AnalysisError as e:
            return e

    def run_reader_prefix(self, nlines):
        """from_lines on the first nlines reference lines, following tests
        on single content bits: -> ('paths', [(constraints, bytes)]) | error"""
        lines = [_to_line_seq(l) for l in self.want_lines[:nlines]]
        return self._run_reader(lines, multi=True)

    def prefix_check(self, source, skip=(), counts=(1, 2, 3)):
        """the reader followed through tests on content bits, on the first
        1, 2 and 3 lines (each path is compared under its own condition; the
        loop treats every line alike).  source: 'ref' (reference text) or
        'writer' (the evaluated writer's own lines)
        -> (True, diff-or-None, note) | (False, None, reason)"""
        lines = self.want_lines if source == 'ref' else self.writer
        if not isinstance(lines, list) or not lines:
            return False, None, 'no lines'
        per = self.size // len(self.want_lines)
        npaths = 0
        try:
            for n in counts:
                if n > len(lines):
                    break
                ls = [_to_line_seq(l) if source == 'ref' else l
                      for l in lines[:n]]
                got = self._run_reader(ls, multi=True)
                if isinstance(got, AnalysisError):
                    return False, None, str(got)
                npaths += len(got[1]) if got[0] == 'paths' else 1
                d = self.paths_diff(got, n * per, skip)
                if d is not None:
                    return True, 'first {} line(s): {}'.format(n, d), ''
        except AnalysisError as e:
            return False, None, str(e)
        return True, None, '{} paths over the first 1-3 lines, each ' \
            'compared under its path condition'.format(npaths)

    def paths_diff(self, got, nbytes, skip=()):
        """None when on every path the bytes read equal the first nbytes of
        the memory under that path's condition"""
        if isinstance(got, AnalysisError):
            raise got
        if got[0] != 'paths':
            return self.mem_diff(got, skip, nbytes)
        for (cons, items) in got[1]:
            d = self.mem_diff(items, skip, nbytes, cons)
            if d is not None:
                return d + ' (when {})'.format(describe_constraints(cons))
        return None

    # ---- comparisons -----------------------------------------------------
    def writer_diff(self):
        """None if the evaluated writer output is the reference text, else a
        description of the first difference"""
        w = self.writer
        if isinstance(w, tuple):
            return 'to_lines {}: {}'.format(w[0], w[1:])
        if len(w) != len(self.want_lines):
            return 'to_lines yields {} lines, the format has {}'.format(
                len(w), len(self.want_lines))
        for r, (got, want) in enumerate(zip(w, self.want_lines)):
            g = self.cx.items(got)
            if len(g) != len(want):
                return 'line {} has {} characters, the format has {}'.format(
                    r, len(g), len(want))
            for d, (x, y) in enumerate(zip(g, want)):
                if not _elem_eq(x, y):
                    return ('line {} character {} is {} but the format '
                            'says {}'.format(r, d, _describe(x),
                                             _describe(y)))
        return None

    def mem_diff(self, got, skip=(), nbytes=None, cons=()):
        if isinstance(got, tuple):
            return 'from_lines {}: {}'.format(got[0], got[1:])
        size = self.size if nbytes is None else nbytes
        if len(got) != size:
            return 'from_lines builds {} bytes, the {} has {}'.format(
                len(got), 'region' if nbytes is None else 'text', size)
        for i, (x, y) in enumerate(zip(got, self.mem)):
            xb = x if isinstance(x, BV) else BV.const(x, 8)
            for k in range(8):
                if (self._rel(i), k) in skip:
                    continue
                if xb.cell(k) != y.cell(k) and not (
                        cons and _equal_under(xb.cell(k), y.cell(k), cons)):
                    return ('byte {} bit {} is read as {} instead of the '
                            'bit that was written'.format(
                                i, k, _bits(BV([xb.cell(k)]))))
        return None

    def _rel(self, i):
        if self.sec == 'music':
            return i % 4
        return i


def _single_cell(v):
    """the non-constant cells of a tested bit vector, none of whose cells is
    the constant 1: the test `v != 0` is then `OR(cells) == 1`; None when the
    value is not a bit vector of known cells"""
    if not isinstance(v, BV):
        return None
    cells = [v.cell(k) for k in range(max(v.width, 1))]
    if any(c is None for c in cells):
        return None
    if any(c.is_const() and c.const() == 1 for c in cells):
        return None
    live = tuple(c for c in cells if not c.is_const())
    return live or None


def constraints_of(conds):
    """path conditions of cx.explore -> [(cells, 0/1)] or None when one of
    them is not a truth test on a bit vector"""
    out = []
    for (desc, truth) in conds:
        cells = _single_cell(getattr(desc, 'obj', None))
        if cells is None:
            return None
        out.append((cells, 1 if truth else 0))
    return out


def _equal_under(a, b, cons):
    """a == b for every assignment of the source bits that satisfies the
    constraints [(cells, 0/1)] (OR of the cells == the value) mentioning
    them"""
    import itertools
    if a is None or b is None:
        return False
    vs = set(a.vars) | set(b.vars)
    rel = [(cs, t) for (cs, t) in cons
           if any(set(c.vars) & vs for c in cs)]
    allv = sorted(vs | {x for (cs, _t) in rel for c in cs for x in c.vars},
                  key=repr)
    if len(allv) > 14:
        return False

    def val(cell, env):
        idx = 0
        for j, x in enumerate(cell.vars):
            if env[x]:
                idx |= 1 << j
        return (cell.table >> idx) & 1
    for bits in itertools.product((0, 1), repeat=len(allv)):
        env = dict(zip(allv, bits))
        if all((1 if any(val(c, env) for c in cs) else 0) == t
               for (cs, t) in rel):
            if val(a, env) != val(b, env):
                return False
    return True


def describe_constraints(cons):
    return ', '.join('{} {} 0'.format(
        '|'.join(repr(c) for c in cs), '!=' if t else '==')
        for (cs, t) in cons) or 'always'


def evaluate(ctx, sec, size):
    cache = ctx.__dict__.setdefault('_cx_sections', {})
    key = (sec, size)
    if key not in cache:
        cache[key] = SectionEval(ctx, sec, size)
    return cache[key]


# ------------------------------------------------------------------- png

PNG_DIMS = (8, 4, 4, 20)     # width, height, planes, data bytes (< w*h)


class PngEval:
    """get_pngdata_from_picodata / get_picodata_from_pngdata evaluated on a
    small image of symbolic pixels: width, height and the amount of data are
    arguments of the two functions, so the instance is representative of the
    loop structure while every data bit and every pixel bit is symbolic"""

    def __init__(self, ctx):
        W, H, P, N = PNG_DIMS
        self.cx = CX.Cx(ctx.model, ctx.consts)
        mod = 'pico8.game.formatter.p8png:'
        self.wf = ctx.model.func(mod + 'get_pngdata_from_picodata')
        self.rf = ctx.model.func(mod + 'get_picodata_from_pngdata')
        self.pix = [[BV.source(('mem', 'png', (r * W + c) * P + p), 8)
                     for c in range(W) for p in range(P)] for r in range(H)]
        self.pico = [BV.source(('mem', 'pico', i), 8) for i in range(N)]
        self.writer = self._run(self._writer)
        self.reader = self._run(self._reader)

    def _rows(self):
        return [CX.Seq('bytearray', list(r)) for r in self.pix]

    def _run(self, fn):
        try:
            paths = self.cx.explore(fn)
            if len(paths) != 1 or paths[0][0]:
                raise CX.CxError('control flow depends on pixel contents')
            kind, val = paths[0][1]
            if kind == 'raise':
                return ('raise', val.tname, val.args_)
            return val
        except AnalysisError as e:
            return e

    def _writer(self):
        W, H, P, N = PNG_DIMS
        out = self.cx.call_function(
            self.wf, [CX.Seq('bytearray', list(self.pico)), self._rows(),
                      {'planes': P}], {})
        return [self.cx.items(r) for r in self.cx.items(out)]

    def _reader(self):
        W, H, P, N = PNG_DIMS
        out = self.cx.call_function(
            self.rf, [W, H, self._rows(), {'planes': P}], {})
        return self.cx.items(out)

    def roundtrip_diff(self):
        """reader applied to the writer's image gives the data back, and the
        writer keeps the six upper bits of every sample / copies the pixels
        past the data"""
        W, H, P, N = PNG_DIMS
        w = self.writer
        if isinstance(w, tuple):
            return 'writer {}: {}'.format(w[0], w[1:])
        if len(w) != H or any(len(r) != W * P for r in w):
            return 'the written image has another shape than the source'
        cxi = self.cx

        def go():
            rows = [CX.Seq('bytearray', list(r)) for r in w]
            return cxi.items(cxi.call_function(
                self.rf, [W, H, rows, {'planes': P}], {}))
        back = self._run(go)
        if isinstance(back, AnalysisError):
            raise back
        if isinstance(back, tuple):
            return 'reader {}: {}'.format(back[0], back[1:])
        for i in range(N):
            got = back[i] if isinstance(back[i], BV) else BV.const(back[i], 8)
            if got != self.pico[i]:
                return 'data byte {} comes back as {}'.format(i, _bits8(got))
        for r in range(H):
            for c in range(W):
                for p in range(P):
                    got = w[r][c * P + p]
                    got = got if isinstance(got, BV) else BV.const(got, 8)
                    src = self.pix[r][c * P + p]
                    lo = 2 if r * W + c < N else 0
                    if any(got.cell(k) != src.cell(k) for k in range(lo, 8)):
                        return ('pixel {} plane {}: the source image bits '
                                '{}..7 are not kept ({})'.format(
                                    r * W + c, p, lo, _bits8(got)))
        return None

    def writer_diff(self):
        W, H, P, N = PNG_DIMS
        w = self.writer
        if isinstance(w, tuple):
            return 'writer {}: {}'.format(w[0], w[1:])
        if len(w) != H:
            return 'writer returns {} rows for {}'.format(len(w), H)
        for r in range(H):
            if len(w[r]) != W * P:
                return 'row {} has {} samples instead of {}'.format(
                    r, len(w[r]), W * P)
            for c in range(W):
                i = r * W + c
                for p in range(P):
                    got = w[r][c * P + p]
                    got = got if isinstance(got, BV) else BV.const(got, 8)
                    src = self.pix[r][c * P + p]
                    if i < N:
                        hi, lo = ref.PNG_BITS_OF_PLANE[p]
                        want = BV([self.pico[i].cell(lo),
                                   self.pico[i].cell(hi)] +
                                  [src.cell(k) for k in range(2, 8)])
                    else:
                        want = src
                    if got != want:
                        return ('pixel {} plane {} is written as {} instead '
                                'of {}'.format(i, p, _bits8(got),
                                               _bits8(want)))
        return None

    def reader_diff(self):
        W, H, P, N = PNG_DIMS
        g = self.reader
        if isinstance(g, tuple):
            return 'reader {}: {}'.format(g[0], g[1:])
        if len(g) != W * H:
            return 'reader returns {} bytes for {} pixels'.format(
                len(g), W * H)
        for i in range(W * H):
            r, c = divmod(i, W)
            cells = [None] * 8
            for p, (hi, lo) in ref.PNG_BITS_OF_PLANE.items():
                src = self.pix[r][c * P + p]
                cells[lo] = src.cell(0)
                cells[hi] = src.cell(1)
            want = BV(cells)
            got = g[i] if isinstance(g[i], BV) else BV.const(g[i], 8)
            if got != want:
                return ('data byte {} is read as {} instead of {}'.format(
                    i, _bits8(got), _bits8(want)))
        return None


def _bits8(bv):
    out = []
    for k in reversed(range(8)):
        c = bv.cell(k)
        if c is None:
            out.append('?')
        elif c.is_const():
            out.append(str(c.const()))
        elif len(c.vars) == 1 and c.table == 2:
            src, bit = c.vars[0]
            out.append('{}[{}].{}'.format(src[1], src[2], bit))
        else:
            out.append('f(..)')
    return '<' + ' '.join(out) + '>'


def evaluate_png(ctx):
    cache = ctx.__dict__.setdefault('_cx_sections', {})
    if 'png' not in cache:
        cache['png'] = PngEval(ctx)
    return cache['png']


# ------------------------------------------------- .p8.png memory plumbing

class PngPlumbing:
    """P8PNGFormatter.to_file and get_raw_data_from_p8png_file evaluated with
    the pixel codec, the PNG library, the compressor and the file system
    replaced by stand-ins: what remains is the order in which the regions are
    laid out in the 0x8001-byte image memory (writer) and the slices the
    reader cuts out of it.  Every byte is a distinct symbolic object, so the
    layout is read off by identity."""

    MOD = 'pico8.game.formatter.p8png'

    def __init__(self, ctx):
        self.ctx = ctx
        self.cx = CX.Cx(ctx.model, ctx.consts)
        self.regions = {n: [BV.source(('mem', n, k), 8) for k in range(b - a)]
                        for (n, a, b) in ref.MEMORY_MAP}
        self.code = [BV.source(('mem', 'code', k), 8)
                     for k in range(ref.CODE_AREA)]
        self.version = BV.source(('mem', 'version', 0), 8)
        self.code_args = None
        self.writer = self._eval(self._writer)
        self.loaded = self._eval(self._from_file)

    def _eval(self, fn):
        try:
            paths = self.cx.explore(fn)
            paths = [(c, r) for (c, r) in paths]
            if len(paths) != 1 or paths[0][0]:
                raise CX.CxError('control flow depends on cart contents')
            kind, val = paths[0][1]
            if kind == 'raise':
                return ('raise', val.tname, val.args_)
            return val
        except AnalysisError as e:
            return e

    def _png_stub(self, rows_holder):
        def reader(cx, args, kw):
            def read(cx2, a, k):
                return (160, 205, [], {'planes': 4})
            return CX.Opaque('png.Reader', {'read': read,
                                            'asRGBA8': read, 'asDirect': read})

        def writer(cx, args, kw):
            def write(cx2, a, k):
                rows_holder['written'] = a
                return None
            return CX.Opaque('png.Writer', {'write': write})
        return reader, writer

    def _writer(self):
        cxi = self.cx
        holder = {}
        reader, writer = self._png_stub(holder)
        cxi.ext_hooks = {
            'png.Reader': reader, 'png.Writer': writer,
            'open': lambda cx, a, k: CX.Opaque('file', {
                'read': lambda c, a2, k2: b'', 'close': lambda c, a2, k2: None}),
        }

        def fake_pngdata(cx, args, kw, bound):
            holder['picodata'] = args[0] if args else kw.get('picodata')
            return []

        def fake_code(cx, args, kw, bound):
            return CX.Seq('bytearray', list(self.code))
        cxi.hooks = {
            self.MOD + ':get_pngdata_from_picodata': fake_pngdata,
            self.MOD + ':get_bytes_from_code': fake_code,
        }
        game = CX.Obj(self.ctx.model.cls('pico8.game.game:Game'))
        for n, q in SECTIONS.items():
            o = CX.Obj(self.ctx.model.cls(q))
            o.attrs['_data'] = CX.Seq('bytearray', list(self.regions[n]))
            o.attrs['_version'] = 8
            game.attrs[n] = o
        game.attrs['version'] = self.version
        game.attrs['label'] = None
        game.attrs['lua'] = CX.Opaque('lua', {
            'to_lines': lambda c, a, k: [b'x=1\n']})
        fmt = CX.ClassVal(self.ctx.model.cls(self.MOD + ':P8PNGFormatter'))
        out = CX.Opaque('stream', {'write': lambda c, a, k: None})
        cxi.call(cxi.getattr(fmt, 'to_file'), [game, out], {})
        pd = holder.get('picodata')
        if pd is None:
            raise CX.CxError('the pixel encoder was not called')
        return cxi.items(pd)

    def _reader(self):
        cxi = self.cx
        holder = {}
        reader, writer = self._png_stub(holder)
        cxi.ext_hooks = {'png.Reader': reader, 'png.Writer': writer}
        self.pic = [BV.source(('mem', 'pic', k), 8)
                    for k in range(ref.VERSION_OFFSET + 1)]

        def fake_picodata(cx, args, kw, bound):
            return list(self.pic)

        def fake_code(cx, args, kw, bound):
            holder['code_args'] = args
            return (0, b'', None)
        cxi.hooks = {
            self.MOD + ':get_picodata_from_pngdata': fake_picodata,
            self.MOD + ':get_code_from_bytes': fake_code,
        }
        f = self.ctx.model.func(self.MOD + ':get_raw_data_from_p8png_file')
        stream = CX.Opaque('stream', {'read': lambda c, a, k: b''})
        data = cxi.call_function(f, [stream], {})
        if not isinstance(data, CX.Obj):
            raise CX.CxError('reader returns ' + type(data).__name__)
        return data

    def _from_file(self):
        """P8PNGFormatter.from_file on the symbolic image memory: which
        section object of the loaded game holds which slice"""
        cxi = self.cx
        holder = {}
        reader, writer = self._png_stub(holder)
        cxi.ext_hooks = {'png.Reader': reader, 'png.Writer': writer}
        self.pic = [BV.source(('mem', 'pic', k), 8)
                    for k in range(ref.VERSION_OFFSET + 1)]
        cxi.hooks = {
            self.MOD + ':get_picodata_from_pngdata':
                lambda cx, a, k, b: list(self.pic),
            self.MOD + ':get_code_from_bytes': self._fake_code,
            'pico8.lua.lua:Lua.from_lines':
                lambda cx, a, k, b: CX.Opaque('Lua'),
        }
        fmt = CX.ClassVal(self.ctx.model.cls(self.MOD + ':P8PNGFormatter'))
        stream = CX.Opaque('stream', {'read': lambda c, a, k: b''})
        game = cxi.call(cxi.getattr(fmt, 'from_file'), [stream], {})
        if not isinstance(game, CX.Obj):
            raise CX.CxError('from_file returns ' + type(game).__name__)
        return game

    def _fake_code(self, cx, args, kw, bound):
        self.code_args = (list(args), dict(kw))
        return (0, b'', None)

    def code_slice(self):
        """(start, end) of the bytes handed to get_code_from_bytes and the
        index of the version byte handed with them"""
        if not self.code_args:
            return None
        args, kw = self.code_args
        index = {id(x): k for k, x in enumerate(self.pic)}
        cd = args[0] if args else kw.get('codedata')
        ver = args[1] if len(args) > 1 else kw.get('version')
        try:
            ks = [index.get(id(x)) for x in self.cx.items(cd)]
        except Exception:
            return None
        if not ks or None in ks or ks != list(range(ks[0], ks[0] + len(ks))):
            return None
        return (ks[0], ks[0] + len(ks), index.get(id(ver)))

    def writer_layout(self):
        """{region name | 'code' | 'version': (start, end)} in the image
        memory the writer builds"""
        w = self.writer
        if isinstance(w, tuple):
            raise AnalysisError('to_file {}: {}'.format(w[0], w[1:]))
        index = {id(x): k for k, x in enumerate(w)}
        out = {}
        srcs = dict(self.regions)
        srcs['code'] = self.code
        for n, items in srcs.items():
            ks = [index.get(id(x)) for x in items]
            if None in ks or ks != list(range(ks[0], ks[0] + len(ks))):
                out[n] = None
            else:
                out[n] = (ks[0], ks[0] + len(ks))
        out['version'] = (index.get(id(self.version)), None)
        out['size'] = len(w)
        return out

    def game_regions(self):
        """{game attribute: (class name, start, end)} + version"""
        g = self.loaded
        if isinstance(g, tuple):
            raise AnalysisError('from_file {}: {}'.format(g[0], g[1:]))
        index = {id(x): k for k, x in enumerate(self.pic)}
        out = {}
        for name, v in g.attrs.items():
            if isinstance(v, CX.Obj) and '_data' in v.attrs:
                its = self.cx.items(v.attrs['_data'])
                ks = [index.get(id(x)) for x in its]
                if its and None not in ks and \
                        ks == list(range(ks[0], ks[0] + len(ks))):
                    out[name] = (v.cls.name, ks[0], ks[0] + len(ks))
                else:
                    out[name] = (v.cls.name, None, None)
            elif isinstance(v, BV) and id(v) in index:
                out[name] = ('byte', index[id(v)], None)
        return out

    # ---- verdicts ----------------------------------------------------------
    def writer_diff(self):
        w = self.writer
        if isinstance(w, tuple):
            return 'to_file {}: {}'.format(w[0], w[1:])
        want = []
        order = []
        for (n, a, b) in ref.MEMORY_MAP:
            want.extend(self.regions[n])
            order.append(n)
        want.extend(self.code)
        want.append(self.version)
        if len(w) != len(want):
            return 'the image memory has {} bytes instead of {}'.format(
                len(w), len(want))
        for i, (x, y) in enumerate(zip(w, want)):
            if x is y:
                continue
            xb = x if isinstance(x, BV) else BV.const(x, 8)
            if xb != y:
                src = '?'
                for c in xb.cells:
                    if c is not None and len(c.vars) == 1:
                        src = '{}[{}]'.format(c.vars[0][0][1],
                                              c.vars[0][0][2])
                        break
                return ('image memory byte 0x{:x} holds {} where the format '
                        'has {}'.format(i, src, self._name_at(i)))
        return None

    @staticmethod
    def _name_at(i):
        for (n, a, b) in ref.MEMORY_MAP:
            if a <= i < b:
                return '{}[{}]'.format(n, i - a)
        if i < ref.VERSION_OFFSET:
            return 'code[{}]'.format(i - ref.CODE_REGION[0])
        return 'the version byte'

    def reader_slices(self):
        """{attribute: (start, end)} for every attribute of the returned
        object that is a contiguous slice of the image memory, plus
        'version' -> (0x8000, None) when it is that byte"""
        d = self._eval(self._reader)
        if isinstance(d, AnalysisError):
            raise d
        if isinstance(d, tuple):
            raise AnalysisError('reader {}: {}'.format(d[0], d[1:]))
        index = {id(x): k for k, x in enumerate(self.pic)}
        out = {}
        for name, v in d.attrs.items():
            if isinstance(v, BV):
                k = index.get(id(v))
                if k is not None:
                    out[name] = (k, None)
                continue
            try:
                its = self.cx.items(v)
            except Exception:
                continue
            if not its:
                continue
            ks = [index.get(id(x)) for x in its]
            if None in ks:
                continue
            if ks == list(range(ks[0], ks[0] + len(ks))):
                out[name] = (ks[0], ks[0] + len(ks))
        return out


def evaluate_png_plumbing(ctx):
    cache = ctx.__dict__.setdefault('_cx_sections', {})
    if 'plumbing' not in cache:
        cache['plumbing'] = PngPlumbing(ctx)
    return cache['plumbing']


# ------------------------------------------------------ .p8.png code area

class CodeAreaEval:
    """get_bytes_from_code / get_code_from_bytes evaluated with the
    compressor and decompressor replaced by stand-ins that return symbolic
    streams of chosen lengths: decides the `:c:` header, the raw form, the
    compressed-iff-smaller choice, the zero padding and the refusal of code
    that does not fit -- for the lengths listed in CASES, every byte
    symbolic."""

    MOD = 'pico8.game.formatter.p8png'
    AREA = ref.CODE_AREA
    # (code length, compressed length)
    CASES = [(100, 50), (100, 99), (100, 100), (100, 150), (1, 5), (0, 0),
             (300, 20), (255, 30), (511, 40), (0x1fff, 0x100), (0x2aab, 77),
             (0x3d00, 0x3d10), (0x3d01, 0x3d10), (0x3d00 + 40, 0x3cf8),
             (0x3d00 + 40, 0x3cf9), (0x3d00 + 40, 0x3d00), (70000, 100)]

    def __init__(self, ctx):
        self.ctx = ctx
        self.cx = CX.Cx(ctx.model, ctx.consts)
        self.f = ctx.model.func(self.MOD + ':get_bytes_from_code')
        self.g = ctx.model.func(self.MOD + ':get_code_from_bytes')
        self.code_all = [BV.source(('mem', 'code', k), 8)
                         for k in range(70001)]
        self.comp_all = [BV.source(('mem', 'comp', k), 8)
                         for k in range(0x3d20)]
        # does the real compressor append to its first parameter?
        import ast as _ast
        self.comp_appends = False
        try:
            cf = ctx.model.func('pico8.game.compress:compress_code')
            p0 = cf.params()[0] if cf.params() else None
            self.comp_appends = any(
                isinstance(n, _ast.AugAssign) and isinstance(
                    n.target, _ast.Name) and n.target.id == p0
                for n in _ast.walk(cf.node))
        except Exception:
            pass

    def writer_problem(self):
        """None | description of the first case in which the code area is not
        what the format says"""
        cxi = self.cx
        comp_q = 'pico8.game.compress:compress_code'
        n_cases = 0
        for (n, m) in self.CASES:
            n_cases += 1
            code = self.code_all[:n]
            comp = self.comp_all[:m]
            mutated = []

            def fake_comp(cx, a, k, b, comp=comp, mutated=mutated):
                # compress_code appends to its own parameter (`in_p += ..`
                # for code that mentions _update60): in place when it is
                # handed a mutable buffer -- the stand-in does the same
                arg = a[0] if a else None
                if self.comp_appends and isinstance(arg, CX.Seq) and \
                        arg.kind == 'bytearray':
                    arg.items.extend([0x0a, 0x69, 0x66])
                    mutated.append(True)
                return CX.Seq('bytes', list(comp))
            cxi.hooks = {comp_q: fake_comp}

            def go():
                return cxi.call_function(
                    self.f, [CX.Seq('bytes', list(code))], {})
            paths = cxi.explore(go)
            if len(paths) != 1 or paths[0][0]:
                raise CX.CxError('get_bytes_from_code branches on the code '
                                 'bytes')
            kind, val = paths[0][1]
            if m < n:
                if n > 0xffff:
                    # the length does not fit the two header bytes: any
                    # error is acceptable, silently writing is not
                    if kind == 'ok':
                        return ('code of {} bytes (compressed {}): the '
                                'length does not fit the two header bytes, '
                                'yet the area is written'.format(n, m))
                    continue
                want = list(ref.C_HEADER) + [n >> 8, n & 255, 0, 0] + comp
            else:
                want = list(code)
            fits = len(want) <= self.AREA
            what = 'code of {} bytes, compressed stream of {} bytes ({})' \
                .format(n, m, 'stored compressed' if m < n else 'stored raw')
            if mutated:
                what += (' [the compressor was handed a mutable buffer and '
                         'appended to it in place, as compress_code does '
                         'for code that mentions _update60]')
            if not fits:
                if kind != 'raise':
                    return ('{}: {} bytes do not fit the {}-byte code area, '
                            'yet no error is raised'.format(
                                what, len(want), self.AREA))
                continue
            if kind == 'raise':
                return '{}: raises {} although it fits'.format(
                    what, val.tname)
            got = cxi.items(val)
            if len(got) != self.AREA:
                return '{}: the code area has {} bytes instead of {}'.format(
                    what, len(got), self.AREA)
            want = want + [0] * (self.AREA - len(want))
            for i, (x, y) in enumerate(zip(got, want)):
                if x is y:
                    continue
                xb = x if isinstance(x, BV) else BV.const(x, 8)
                yb = y if isinstance(y, BV) else BV.const(y, 8)
                if xb != yb:
                    return ('{}: byte {} of the code area is {} instead of '
                            '{}'.format(what, i, _bits8(xb), _bits8(yb)))
        self.n_cases = n_cases
        return None

    def reader_problem(self):
        cxi = self.cx
        dec_q = 'pico8.game.compress:decompress_code'
        seen = {}

        def fake_dec(cx, args, kw, bound):
            seen['arg'] = args[0] if args else kw.get('codedata')
            return (7, b'decoded', 5)
        cxi.hooks = {dec_q: fake_dec}
        # compressed area, version 8: the decompressor gets the whole area
        area = list(ref.C_HEADER) + [0, 7, 0, 0] + self.comp_all[:5]
        area = area + [0] * (self.AREA - len(area))

        def run(area, version):
            def go():
                return cxi.call_function(self.g, [list(area), version], {})
            paths = cxi.explore(go)
            if len(paths) != 1 or paths[0][0]:
                raise CX.CxError('get_code_from_bytes branches on symbolic '
                                 'bytes')
            return paths[0][1]
        kind, val = run(area, 8)
        if kind == 'raise':
            return 'compressed area: raises ' + val.tname
        r = cxi.items(val)
        if 'arg' not in seen:
            return 'an area starting with :c:\\0 is not decompressed'
        if len(r) != 3 or r[0] != 7 or bytes(cxi.items(r[1])) != \
                b'decoded' or r[2] != 5:
            return ('compressed area: the decompressor\'s result is not '
                    'returned as (length, code, compressed size): {}'.format(
                        r))
        # raw areas (concrete text so that the terminating zero is decidable)
        for text, version in ((b'print("hi")', 8), (b'x=1\r\ny=2', 8),
                              (b':c', 8), (b'', 8), (b'a' * self.AREA, 8),
                              (b':c:\x00' + b'zz', 0)):
            seen.clear()
            area = list(text) + [0] * (self.AREA - len(text))
            kind, val = run(area, version)
            if kind == 'raise':
                return 'raw area {!r}: raises {}'.format(text[:12], val.tname)
            r = cxi.items(val)
            if 'arg' in seen:
                return 'raw area {!r} (version {}) is handed to the ' \
                       'decompressor'.format(text[:12], version)
            n0 = text.index(0) if 0 in text else len(text)
            want = text[:n0].replace(b'\r', b' ') + b'\n'
            if len(r) != 3 or r[0] != n0 or \
                    bytes(cxi.items(r[1])) != want or r[2] is not None:
                return ('raw area {!r}: returns {} instead of (length {}, '
                        'the text + newline, None)'.format(
                            text[:12], (r[0], bytes(cxi.items(r[1]))[:20],
                                        r[2]) if len(r) == 3 else r, n0))
        return None
