"""Whole-function evaluation of the .p8 section codecs (C03 / C16).

Each section class is evaluated with the concrete-control abstract interpreter
(absint/cx.py): the section's memory is an array of symbolic bytes of the
real region size, `to_lines()` is interpreted from its source whatever way it
is written, and the produced text is compared, character by character and bit
by bit, with the reference encoding built from refs/formats.py.  The reader is
interpreted on the *reference* encoding of symbolic memory and must return
that memory.  Both directions are compared with the format, not with each
other (C16); the composition reader(writer(memory)) == memory is evaluated as
well (C03).  Every comparison covers all 2^(8*size) memory contents at once,
because each output bit is a recorded boolean function of named memory bits.
"""
from ..absint import cx as CX
from ..absint.symx import BV, ZERO
from ..core import AnalysisError
from ..refs import formats as ref

SECTIONS = {
    'gfx': 'pico8.gfx.gfx:Gfx',
    'gff': 'pico8.gff.gff:Gff',
    'map': 'pico8.map.map:Map',
    'sfx': 'pico8.sfx.sfx:Sfx',
    'music': 'pico8.music.music:Music',
}


def _nib(bv, hi):
    b = bv if isinstance(bv, BV) else BV.const(bv, 8)
    cells = [b.cell(k) for k in (range(4, 8) if hi else range(0, 4))]
    return BV(cells)


def _pick(cells):
    return BV(list(cells) + [ZERO] * (4 - len(cells)))


def ref_lines(sec, mem):
    """reference .p8 text of a section whose memory is `mem` (list of BV):
    list of lines, each a list of 4-bit BVs (hex digits) and literal ints"""
    out = []
    if sec == 'gfx':
        per = ref.P8_BYTES_PER_LINE['gfx']
        for r in range(0, len(mem), per):
            line = []
            for b in mem[r:r + per]:
                line.append(_nib(b, False))      # even pixel = low nibble
                line.append(_nib(b, True))
            out.append(line + [10])
    elif sec in ('gff', 'map'):
        per = ref.P8_BYTES_PER_LINE[sec]
        for r in range(0, len(mem), per):
            line = []
            for b in mem[r:r + per]:
                line.append(_nib(b, True))
                line.append(_nib(b, False))
            out.append(line + [10])
    elif sec == 'sfx':
        for p in range(ref.SFX_PATTERNS):
            base = p * ref.SFX_BYTES
            line = []
            for fld in ref.SFX_LINE_HEADER_ORDER:
                b = mem[base + ref.SFX_HEADER_OFFSETS[fld]]
                line.append(_nib(b, True))
                line.append(_nib(b, False))
            for n in range(ref.SFX_NOTES):
                lo, hi = mem[base + 2 * n], mem[base + 2 * n + 1]

                def wbit(k):
                    return lo.cell(k) if k < 8 else hi.cell(k - 8)
                bits = ref.SFX_NOTE_BITS
                pitch = [wbit(k) for k in bits['pitch']]
                line.append(_pick(pitch[4:6]))
                line.append(_pick(pitch[0:4]))
                line.append(_pick([wbit(k) for k in bits['waveform']]))
                line.append(_pick([wbit(k) for k in bits['volume']]))
                line.append(_pick([wbit(k) for k in bits['effect']]))
            out.append(line + [10])
    elif sec == 'music':
        for p in range(ref.MUSIC_PATTERNS):
            b = mem[4 * p:4 * p + 4]
            flags = [ZERO, ZERO, ZERO]
            for byte, bit in ref.MUSIC_FLAG_OF_BYTE.items():
                flags[bit] = b[byte].cell(7)
            line = [BV([ZERO] * 4), _pick(flags), 32]
            for x in b:
                line.append(_pick([x.cell(4), x.cell(5), x.cell(6)]))
                line.append(_nib(x, False))
            out.append(line + [10])
    else:
        raise AnalysisError('no reference layout for ' + sec)
    return out


def _to_line_seq(line):
    return CX.Seq('bytes', [CX.HexCh(x) if isinstance(x, BV) else x
                            for x in line])


def _elem_eq(got, want):
    """got: element produced by the evaluated writer; want: BV4 | int"""
    if isinstance(want, int):
        if isinstance(got, str):
            got = ord(got)
        return got == want
    if isinstance(got, CX.HexCh):
        return got.bv == want
    c = want.as_const()
    if c is not None:
        if isinstance(got, str):
            got = ord(got)
        return got == ord(CX.HEXDIGITS[c])
    return False


def _describe(x):
    if isinstance(x, CX.HexCh):
        return 'hex digit of ' + _bits(x.bv)
    if isinstance(x, BV):
        return 'hex digit of ' + _bits(x)
    if isinstance(x, int):
        return repr(chr(x))
    return repr(x)


def _bits(bv):
    out = []
    for k in reversed(range(max(len(bv.cells), 4))):
        c = bv.cell(k)
        if c is None:
            out.append('?')
        elif c.is_const():
            out.append(str(c.const()))
        elif len(c.vars) == 1 and c.table == 2:
            src, bit = c.vars[0]
            out.append('{}[{}].{}'.format(src[1], src[2], bit)
                       if src[0] == 'mem' else '{}.{}'.format(src, bit))
        else:
            out.append('f(..)')
    return '<' + ' '.join(out) + '>'


class SectionEval:
    """results of evaluating one section class; every field is either a
    value or an AnalysisError (the evaluator could not follow)"""

    def __init__(self, ctx, sec, size):
        self.sec = sec
        self.size = size
        self.cls = ctx.model.cls(SECTIONS[sec])
        self.cx = CX.Cx(ctx.model, ctx.consts)
        self.mem = [BV.source(('mem', sec, k), 8) for k in range(size)]
        self.want_lines = ref_lines(sec, self.mem)
        self.writer = self._run_writer()
        self.reader_ref = self._run_reader(
            [_to_line_seq(l) for l in self.want_lines])
        if isinstance(self.writer, list):
            self.roundtrip = self._run_reader(self.writer)
        else:
            self.roundtrip = self.writer

    def _single(self, paths, what):
        live = [(c, r) for (c, r) in paths
                if not (r[0] == 'raise' and r[1].tname == 'AssertionError'
                        and r[1].args_ == ('assumed away',))]
        if len(live) != 1:
            raise CX.CxError('{}: {} paths depend on the section contents'
                             .format(what, len(live)))
        conds, (kind, val) = live[0]
        if conds:
            raise CX.CxError('{}: control flow depends on the contents ({})'
                             .format(what, conds[0][0]))
        if kind == 'raise':
            return ('raise', val)
        return ('ok', val)

    def _run_writer(self):
        cxi = self.cx

        def go():
            o = CX.Obj(self.cls)
            o.attrs['_data'] = CX.Seq('bytearray', list(self.mem))
            o.attrs['_version'] = 8
            return cxi.call(cxi.getattr(o, 'to_lines'), [], {})
        try:
            kind, val = self._single(cxi.explore(go), 'to_lines')
            if kind == 'raise':
                return ('raise', val.tname, val.args_)
            lines = []
            for l in cxi.items(val):
                if cxi.kind_of(l) not in ('bytes', 'bytearray'):
                    return ('type', cxi.kind_of(l) or type(l).__name__)
                lines.append(l)
            return lines
        except AnalysisError as e:
            return e

    def _run_reader(self, lines):
        cxi = self.cx

        def go():
            return cxi.call(cxi.getattr(CX.ClassVal(self.cls), 'from_lines'),
                            [list(lines), 8], {})
        try:
            kind, val = self._single(cxi.explore(go), 'from_lines')
            if kind == 'raise':
                return ('raise', val.tname, val.args_)
            if not isinstance(val, CX.Obj):
                return ('type', type(val).__name__)
            d = val.attrs.get('_data')
            if d is None:
                return ('type', 'no _data')
            return cxi.items(d)
        except AnalysisError as e:
            return e

    # ---- comparisons -----------------------------------------------------
    def writer_diff(self):
        """None if the evaluated writer output is the reference text, else a
        description of the first difference"""
        w = self.writer
        if isinstance(w, tuple):
            return 'to_lines {}: {}'.format(w[0], w[1:])
        if len(w) != len(self.want_lines):
            return 'to_lines yields {} lines, the format has {}'.format(
                len(w), len(self.want_lines))
        for r, (got, want) in enumerate(zip(w, self.want_lines)):
            g = self.cx.items(got)
            if len(g) != len(want):
                return 'line {} has {} characters, the format has {}'.format(
                    r, len(g), len(want))
            for d, (x, y) in enumerate(zip(g, want)):
                if not _elem_eq(x, y):
                    return ('line {} character {} is {} but the format '
                            'says {}'.format(r, d, _describe(x),
                                             _describe(y)))
        return None

    def mem_diff(self, got, skip=()):
        if isinstance(got, tuple):
            return 'from_lines {}: {}'.format(got[0], got[1:])
        if len(got) != self.size:
            return 'from_lines builds {} bytes, the region has {}'.format(
                len(got), self.size)
        for i, (x, y) in enumerate(zip(got, self.mem)):
            xb = x if isinstance(x, BV) else BV.const(x, 8)
            for k in range(8):
                if (self._rel(i), k) in skip:
                    continue
                if xb.cell(k) != y.cell(k):
                    return ('byte {} bit {} is read as {} instead of the '
                            'bit that was written'.format(
                                i, k, _bits(BV([xb.cell(k)]))))
        return None

    def _rel(self, i):
        if self.sec == 'music':
            return i % 4
        return i


def evaluate(ctx, sec, size):
    cache = ctx.__dict__.setdefault('_cx_sections', {})
    key = (sec, size)
    if key not in cache:
        cache[key] = SectionEval(ctx, sec, size)
    return cache[key]


# ------------------------------------------------------------------- png

PNG_DIMS = (8, 4, 4, 20)     # width, height, planes, data bytes (< w*h)


class PngEval:
    """get_pngdata_from_picodata / get_picodata_from_pngdata evaluated on a
    small image of symbolic pixels: width, height and the amount of data are
    arguments of the two functions, so the instance is representative of the
    loop structure while every data bit and every pixel bit is symbolic"""

    def __init__(self, ctx):
        W, H, P, N = PNG_DIMS
        self.cx = CX.Cx(ctx.model, ctx.consts)
        mod = 'pico8.game.formatter.p8png:'
        self.wf = ctx.model.func(mod + 'get_pngdata_from_picodata')
        self.rf = ctx.model.func(mod + 'get_picodata_from_pngdata')
        self.pix = [[BV.source(('mem', 'png', (r * W + c) * P + p), 8)
                     for c in range(W) for p in range(P)] for r in range(H)]
        self.pico = [BV.source(('mem', 'pico', i), 8) for i in range(N)]
        self.writer = self._run(self._writer)
        self.reader = self._run(self._reader)

    def _rows(self):
        return [CX.Seq('bytearray', list(r)) for r in self.pix]

    def _run(self, fn):
        try:
            paths = self.cx.explore(fn)
            if len(paths) != 1 or paths[0][0]:
                raise CX.CxError('control flow depends on pixel contents')
            kind, val = paths[0][1]
            if kind == 'raise':
                return ('raise', val.tname, val.args_)
            return val
        except AnalysisError as e:
            return e

    def _writer(self):
        W, H, P, N = PNG_DIMS
        out = self.cx.call_function(
            self.wf, [CX.Seq('bytearray', list(self.pico)), self._rows(),
                      {'planes': P}], {})
        return [self.cx.items(r) for r in self.cx.items(out)]

    def _reader(self):
        W, H, P, N = PNG_DIMS
        out = self.cx.call_function(
            self.rf, [W, H, self._rows(), {'planes': P}], {})
        return self.cx.items(out)

    def roundtrip_diff(self):
        """reader applied to the writer's image gives the data back, and the
        writer keeps the six upper bits of every sample / copies the pixels
        past the data"""
        W, H, P, N = PNG_DIMS
        w = self.writer
        if isinstance(w, tuple):
            return 'writer {}: {}'.format(w[0], w[1:])
        if len(w) != H or any(len(r) != W * P for r in w):
            return 'the written image has another shape than the source'
        cxi = self.cx

        def go():
            rows = [CX.Seq('bytearray', list(r)) for r in w]
            return cxi.items(cxi.call_function(
                self.rf, [W, H, rows, {'planes': P}], {}))
        back = self._run(go)
        if isinstance(back, AnalysisError):
            raise back
        if isinstance(back, tuple):
            return 'reader {}: {}'.format(back[0], back[1:])
        for i in range(N):
            got = back[i] if isinstance(back[i], BV) else BV.const(back[i], 8)
            if got != self.pico[i]:
                return 'data byte {} comes back as {}'.format(i, _bits8(got))
        for r in range(H):
            for c in range(W):
                for p in range(P):
                    got = w[r][c * P + p]
                    got = got if isinstance(got, BV) else BV.const(got, 8)
                    src = self.pix[r][c * P + p]
                    lo = 2 if r * W + c < N else 0
                    if any(got.cell(k) != src.cell(k) for k in range(lo, 8)):
                        return ('pixel {} plane {}: the source image bits '
                                '{}..7 are not kept ({})'.format(
                                    r * W + c, p, lo, _bits8(got)))
        return None

    def writer_diff(self):
        W, H, P, N = PNG_DIMS
        w = self.writer
        if isinstance(w, tuple):
            return 'writer {}: {}'.format(w[0], w[1:])
        if len(w) != H:
            return 'writer returns {} rows for {}'.format(len(w), H)
        for r in range(H):
            if len(w[r]) != W * P:
                return 'row {} has {} samples instead of {}'.format(
                    r, len(w[r]), W * P)
            for c in range(W):
                i = r * W + c
                for p in range(P):
                    got = w[r][c * P + p]
                    got = got if isinstance(got, BV) else BV.const(got, 8)
                    src = self.pix[r][c * P + p]
                    if i < N:
                        hi, lo = ref.PNG_BITS_OF_PLANE[p]
                        want = BV([self.pico[i].cell(lo),
                                   self.pico[i].cell(hi)] +
                                  [src.cell(k) for k in range(2, 8)])
                    else:
                        want = src
                    if got != want:
                        return ('pixel {} plane {} is written as {} instead '
                                'of {}'.format(i, p, _bits8(got),
                                               _bits8(want)))
        return None

    def reader_diff(self):
        W, H, P, N = PNG_DIMS
        g = self.reader
        if isinstance(g, tuple):
            return 'reader {}: {}'.format(g[0], g[1:])
        if len(g) != W * H:
            return 'reader returns {} bytes for {} pixels'.format(
                len(g), W * H)
        for i in range(W * H):
            r, c = divmod(i, W)
            cells = [None] * 8
            for p, (hi, lo) in ref.PNG_BITS_OF_PLANE.items():
                src = self.pix[r][c * P + p]
                cells[lo] = src.cell(0)
                cells[hi] = src.cell(1)
            want = BV(cells)
            got = g[i] if isinstance(g[i], BV) else BV.const(g[i], 8)
            if got != want:
                return ('data byte {} is read as {} instead of {}'.format(
                    i, _bits8(got), _bits8(want)))
        return None


def _bits8(bv):
    out = []
    for k in reversed(range(8)):
        c = bv.cell(k)
        if c is None:
            out.append('?')
        elif c.is_const():
            out.append(str(c.const()))
        elif len(c.vars) == 1 and c.table == 2:
            src, bit = c.vars[0]
            out.append('{}[{}].{}'.format(src[1], src[2], bit))
        else:
            out.append('f(..)')
    return '<' + ' '.join(out) + '>'


def evaluate_png(ctx):
    cache = ctx.__dict__.setdefault('_cx_sections', {})
    if 'png' not in cache:
        cache['png'] = PngEval(ctx)
    return cache['png']
