"""C09 -- luafmt changes only whitespace, works on every valid program, never
drops code.

Rules: R-C09-eow, R-C09-hooks, R-C09-wsregex, R-C09-schema, R-C09-agree,
R-C01-wiring (luafmt).
"""
import ast

from .. import rx, fmtsrc
from ..cfg import cfg_of
from ..consteval import UNKNOWN
from ..core import AnalysisError
from ..lang import Lang
from ..srcmodel import walk_own, const_str, FuncInfo
from .common import unparse
from . import cli

EXPLANATION = (
    'R-C09-eow: every normal completion of LuaASTEchoWriter.to_lines (and of '
    'the subclasses that inherit it: LuaFormatterWriter, LuaMinifyWriter) is '
    'dominated by a raising comparison of the token cursor with '
    'len(tokens) -- or the parser itself rejects partial parses (R-C08-eof); '
    'otherwise a program parsed only up to an unsupported token is written '
    'back shortened. R-C09-hooks: LuaFormatterWriter overrides exactly '
    '__init__ and _get_code_for_spaces, so token spelling goes through the '
    'inherited echo paths. R-C09-wsregex: each re.sub of the formatter\'s '
    'pipeline is a whitespace-only rewrite: the pattern language (anchors '
    'stripped; regex-to-automaton, inclusion decided on the automata) lies '
    'in [ \\t\\r\\n]*(--|//)?, the replacement (evaluated symbolically, '
    'indent kept symbolic) lies in the same class, reproduces the comment '
    'introducer the pattern matched (literally or by back-reference to the '
    'group that matched it), and is line-end preserving (a pattern that '
    'always / never spans a line end has a replacement with / without one; '
    'mixed only under the end-of-file guard). R-C09-schema: every node type '
    'of the evaluated schema has an explicit _walk_<Type> in '
    'LuaASTEchoWriter that reads every field. R-C09-agree (parser <-> '
    'writer): for each node type the keyword/symbol terminals the parser '
    'may consume on a path to its construction (cursor resets excluded) are '
    'terminals its handler can emit; terminals consumed without an owning '
    'node (the parentheses of a prefix expression) must be re-emitted by '
    'every parent that can hold the inner expression.')

ASSUMPTIONS = [
    'token/comment order equality for a concrete program follows from '
    'agree + schema only on paper',
    're.sub replaces non-overlapping leftmost matches (stdlib semantics)',
]

L = 'pico8.lua.lua'
WS_CLASS = br'[ \t\r\n]*(--|//)?'


def rule_eow(ctx, res):
    model = ctx.model
    q = L + ':LuaASTEchoWriter.to_lines'
    f = model.func(q)
    cfg = cfg_of(f)
    guard = None
    for n in cfg.nodes:
        if n.kind != 'test':
            continue
        t = ast.unparse(n.ast)
        if 'self._pos' in t and 'len(self._tokens)' in t:
            reach = cfg.reachable_from(cfg.succ_by_label(n, 'true'),
                                       avoid={n})
            if cfg.raise_exit in reach and cfg.exit not in reach and \
                    cfg.dominates(n, cfg.exit):
                guard = n
    # parser-side alternative
    p = model.func('pico8.lua.parser:Parser.process_tokens')
    pcfg = cfg_of(p)
    parser_guard = any(
        n.kind == 'test' and '_pos' in ast.unparse(n.ast) and
        'len(' in ast.unparse(n.ast) and pcfg.dominates(n, pcfg.exit)
        for n in pcfg.nodes)
    if guard is not None or parser_guard:
        res.holds('R-C09-eow', q, 'all tokens written or an error',
                  'raising cursor != len(tokens) test dominates the normal '
                  'exit' if guard is not None else 'parser rejects partial '
                  'parses', f.module.loc(guard.ast) if guard else p.loc)
    else:
        res.violation(
            'R-C09-eow', q, 'all tokens written or an error',
            'the AST writer finishes without checking that its token cursor '
            'reached the end: code after the point where the parser stopped '
            '(`a |= 1`, `x = 1e+5` before the lexer fix) is silently '
            'dropped from luafmt output', f.loc)
    # subclasses that inherit to_lines
    base = model.cls(L + ':LuaASTEchoWriter')
    for c in model.subclasses(base):
        own = 'to_lines' in c.methods
        if own:
            uses_parser = any(
                isinstance(n, ast.Attribute) and n.attr in ('_root',)
                for n in walk_own(c.methods['to_lines'].node)) or any(
                    isinstance(n, ast.Call) and
                    isinstance(n.func, ast.Attribute) and
                    n.func.attr in ('walk', '_walk')
                    for n in walk_own(c.methods['to_lines'].node))
            res.check(not uses_parser, 'R-C09-eow', c.qual,
                      'own to_lines is token driven',
                      'overrides to_lines without walking the tree',
                      'a tree-driven to_lines override bypasses the cursor '
                      'test', c.module.loc(c.node))
        else:
            res.holds('R-C09-eow', c.qual, 'inherits the checked to_lines',
                      '', c.module.loc(c.node), nontrivial=False)
    # the ignore_tokens exemption is the only one
    if guard is not None:
        t = ast.unparse(guard.ast)
        extra = [p for p in (guard.ast.values if isinstance(
            guard.ast, ast.BoolOp) else [guard.ast])
            if 'self._pos' not in ast.unparse(p)]
        ok = all('ignore_tokens' in ast.unparse(p) for p in extra)
        res.check(ok, 'R-C09-eow', q, 'only ignore_tokens skips the test',
                  t[:80], 'the cursor test is disabled by another '
                  'condition: ' + t[:100], f.module.loc(guard.ast))


def rule_hooks(ctx, res):
    model = ctx.model
    c = model.cls(L + ':LuaFormatterWriter')
    # a method overrides something when an ancestor defines the name, when
    # the inherited walker can reach it by name (`_walk_<NodeType>` is looked
    # up with getattr) or when it is a special method; a helper with a new
    # name is only reachable from the class's own methods
    ancestors = [k for k in model.mro(c)[1:] if hasattr(k, 'methods')]
    own = sorted(m for m in c.methods if not m.endswith('.setter') and (
        any(m in k.methods for k in ancestors) or m.startswith('_walk_')
        or (m.startswith('__') and m.endswith('__'))))
    ok = set(own) == {'__init__', '_get_code_for_spaces'}
    res.check(ok, 'R-C09-hooks', c.qual, 'overrides only the spacing hook',
              'methods: {}'.format(own),
              'LuaFormatterWriter overrides {}: token spelling no longer '
              'goes through the inherited echo paths'.format(
                  sorted(set(own) - {'__init__', '_get_code_for_spaces'})),
              c.module.loc(c.node))
    base = model.cls(L + ':LuaASTEchoWriter')
    res.check(base in model.mro(c) and model.mro(c)[1] is base,
              'R-C09-hooks', c.qual, 'direct subclass of LuaASTEchoWriter',
              '', 'base class changed', c.module.loc(c.node))
    # inherited spelling paths return spaces + the token's own code
    for name, needle in (('_get_text', 'keyword'), ('_get_name', 'tok.code')):
        m = base.methods.get(name)
        if m is None:
            res.vanished('R-C09-hooks', base.qual, name, 'method missing')
            continue
        rets = sorted((r for r in walk_own(m.node)
                       if isinstance(r, ast.Return)), key=lambda r: r.lineno)

        def spelled(v):
            return isinstance(v, ast.BinOp) and isinstance(v.op, ast.Add) \
                and isinstance(v.left, ast.Name) and \
                ast.unparse(v.right) == needle

        def ignore_mode(v):
            # the `ignore_tokens` mode writes one space + the spelling
            return isinstance(v, ast.BinOp) and isinstance(v.op, ast.Add) \
                and isinstance(v.left, ast.Constant) and \
                v.left.value == b' ' and ast.unparse(v.right) == needle
        good = [r for r in rets if spelled(r.value)]
        ok = bool(good) and all(spelled(r.value) or ignore_mode(r.value)
                                for r in rets)
        last = good[0].value if good else (rets[-1].value if rets else None)
        asserted = any(isinstance(a, ast.Assert) for a in walk_own(m.node))
        res.check(ok and asserted, 'R-C09-hooks', m.qual,
                  'returns spaces + the token\'s own spelling',
                  ast.unparse(last) if last is not None else '',
                  'spelling path changed: ' + (ast.unparse(last)
                                               if last is not None else '?'),
                  m.loc)


def rule_wsregex(ctx, res):
    f, subs, var, returns_var = fmtsrc.extract_pipeline(ctx)
    q = f.qual
    res.stats['formatter_substitutions'] = len(subs)
    res.check(returns_var, 'R-C09-wsregex', q,
              'the rewritten run is what is returned', '',
              'the function returns something other than the rewritten '
              'whitespace run', f.loc)
    allowed = Lang.from_regex(WS_CLASS)
    intro_dash = Lang.from_regex(br'[ \t\r\n]*--')
    intro_slash = Lang.from_regex(br'[ \t\r\n]*//')
    for s in subs:
        inst = 'sub {!r}{}'.format(s.pattern.decode('latin-1'),
                                   ' [' + s.guard + ']' if s.guard else '')
        loc = f.module.loc(s.node)
        tree = rx.parse(s.pattern)
        pl = Lang.from_nfa(rx.build_tree(tree, 0, strip_anchors=True))
        w = pl.not_subset_witness(allowed)
        if w is not None:
            res.violation('R-C09-wsregex', q, inst + ' matches only blanks',
                          'the pattern can match {!r}: a byte that is not '
                          'blank space (or a comment introducer) is '
                          'rewritten'.format(w), loc)
            continue
        if pl.has_eps() and not rx.anchors_of(tree):
            res.violation('R-C09-wsregex', q, inst + ' matches only blanks',
                          'pattern matches the empty string everywhere', loc)
            continue
        # replacement class
        groups = rx.groups_of(tree)
        bad = None
        repl_intro = set()
        for part in s.repl:
            if part[0] == 'lit':
                lit = part[1]
                body = lit
                for intro in (b'--', b'//'):
                    if body.endswith(intro):
                        body = body[:-2]
                        repl_intro.add(intro)
                if body.strip(b' \t\r\n'):
                    bad = 'replacement inserts non-blank text {!r}'.format(lit)
            elif part[0] == 'ref':
                g = groups.get(part[1])
                if g is None:
                    bad = 'back-reference to a missing group'
                else:
                    gl = Lang.from_nfa(rx.build_tree(g, 0, True))
                    if gl.not_subset_witness(allowed) is not None:
                        bad = 'back-reference copies non-blank text'
                    for intro, il in ((b'--', intro_dash),
                                      (b'//', intro_slash)):
                        if not _intersect_empty(gl, intro):
                            repl_intro.add(('ref', intro))
        if bad:
            res.violation('R-C09-wsregex', q, inst + ' replacement is blank',
                          bad, loc)
            continue
        # introducer preservation
        pat_intro = set()
        for intro in (b'--', b'//'):
            if not _intersect_empty(pl, intro):
                pat_intro.add(intro)
        lit_intro = {i for i in repl_intro if isinstance(i, bytes)}
        ref_intro = {i[1] for i in repl_intro if isinstance(i, tuple)}
        if pat_intro:
            ok = (ref_intro == pat_intro and not lit_intro) or (
                len(pat_intro) == 1 and lit_intro == pat_intro and
                not ref_intro)
        else:
            ok = not lit_intro and not ref_intro
        res.check(ok, 'R-C09-wsregex', q, inst + ' keeps the introducer',
                  'pattern introducers {} reproduced'.format(
                      sorted(i.decode() for i in pat_intro)),
                  'pattern can match introducer(s) {} but the replacement '
                  'writes {}: a comment introducer is dropped, invented or '
                  'changed'.format(sorted(i.decode() for i in pat_intro),
                                   sorted(i.decode() for i in
                                          (lit_intro | ref_intro))), loc)
        # line-end preservation
        nl = frozenset(b'\n\r')
        some_nl = not pl.filter_contains(nl, True).is_empty()
        some_none = not pl.filter_contains(nl, False).is_empty()
        repl_nl = any(p[0] == 'lit' and (b'\n' in p[1]) for p in s.repl)
        eof_guard = 'self._pos == len(self._tokens)' in s.guard
        if some_nl and not some_none:
            ok = repl_nl
        elif some_none and not some_nl:
            ok = not repl_nl
        else:
            ok = eof_guard
        res.check(ok, 'R-C09-wsregex', q, inst + ' preserves line ends',
                  'spans-line-end={} replacement-has-one={}{}'.format(
                      'always' if not some_none else (
                          'never' if not some_nl else 'sometimes'),
                      repl_nl, ' (end-of-file guard)' if eof_guard else ''),
                  'a run that {} contains a line end is replaced by text '
                  '{} one: a line-scoped construct (short if, `?`, '
                  'end-of-line comment) changes extent'.format(
                      'always' if not some_none else (
                          'never' if not some_nl else 'sometimes'),
                      'with' if repl_nl else 'without'), loc)
    # (a pipeline with fewer steps is still whitespace-only: the count only
    # guards against an extraction that found next to nothing)
    res.require_min('R-C09-wsregex', 12)


def _intersect_empty(lang, intro):
    """no string of lang contains the two-byte introducer"""
    # strings containing byte1 followed immediately by byte2: search product
    a, b = intro[0], intro[1]
    seen = set()
    stack = [(s, 0) for s in lang.starts]
    co = lang._coreach()
    while stack:
        (s, k) = stack.pop()
        if (s, k) in seen:
            continue
        seen.add((s, k))
        if k == 2 and s in co:
            return False
        for (bs, t) in lang.trans[s]:
            if k == 2:
                stack.append((t, 2))
                continue
            if k == 1 and b in bs:
                stack.append((t, 2))
            if a in bs:
                stack.append((t, 1))
            if bs - {a}:
                stack.append((t, 0))
    return True


def _schema(ctx):
    types = ctx.consts.module_const('pico8.lua.parser', '_ast_node_types')
    if types is UNKNOWN:
        return None
    return {name: list(flds) for (name, flds) in types}


def rule_schema(ctx, res):
    model = ctx.model
    schema = _schema(ctx)
    if schema is None:
        res.undecided('R-C09-schema', 'pico8.lua.parser:_ast_node_types',
                      'schema', 'does not evaluate')
        return None
    c = model.cls(L + ':LuaASTEchoWriter')
    for typ, fields in sorted(schema.items()):
        m = c.methods.get('_walk_' + typ)
        if m is None:
            res.violation('R-C09-schema', c.qual, 'handler for ' + typ,
                          'no explicit _walk_{0}: the generated default '
                          'handler does not advance the token cursor, so a '
                          '{0} node desynchronises the writer'.format(typ),
                          c.module.loc(c.node))
            continue
        np_ = m.params()[1] if len(m.params()) > 1 else 'node'
        read = {n.attr for n in walk_own(m.node)
                if isinstance(n, ast.Attribute) and
                isinstance(n.value, ast.Name) and n.value.id == np_}
        missing = [x for x in fields if x not in read]
        res.check(not missing, 'R-C09-schema', m.qual,
                  '{} reads {}'.format(typ, fields), '',
                  'handler never reads field(s) {}: that part of the '
                  'program is not written'.format(missing), m.loc)
    res.require_min('R-C09-schema', 36)
    return schema


def _parser_terminals(model, schema):
    """{node type: set of constant terminals consumed on some path to its
    construction that passes no cursor reset}, plus field-fed accepts."""
    cls = model.cls('pico8.lua.parser:Parser')
    out = {}
    for m in cls.methods.values():
        cfg = None
        rets = []
        for c in walk_own(m.node):
            if isinstance(c, ast.Call) and isinstance(c.func, ast.Name) and \
                    c.func.id in schema:
                rets.append(c)
        if not rets:
            continue
        cfg = cfg_of(m)
        saved = {t.id for n in walk_own(m.node) if isinstance(n, ast.Assign)
                 and isinstance(n.value, ast.Attribute)
                 and n.value.attr == '_pos'
                 for t in n.targets if isinstance(t, ast.Name)}
        resets = {n for n in cfg.nodes if isinstance(n.ast, ast.Assign) and
                  any(isinstance(t, ast.Attribute) and t.attr == '_pos'
                      for t in n.ast.targets) and
                  isinstance(n.ast.value, ast.Name) and
                  n.ast.value.id in saved}
        # consuming sites: (cfg node, terminal, consumed-edge label or None)
        sites = []
        for n in cfg.nodes:
            if n.ast is None or n.kind in ('iter', 'with', 'except',
                                           'handler'):
                continue
            for c in walk_own(n.ast):
                if isinstance(c, ast.Call) and \
                        isinstance(c.func, ast.Attribute) and \
                        c.func.attr in ('_accept', '_expect') and c.args and \
                        isinstance(c.args[0], ast.Call) and c.args[0].args:
                    v = const_str(c.args[0].args[0])
                    kind = ast.unparse(c.args[0].func)
                    if not isinstance(v, bytes) or not (
                            kind.endswith('TokKeyword') or
                            kind.endswith('TokSymbol')):
                        continue
                    # result stored into a variable that feeds the node?
                    fed = isinstance(n.ast, ast.Assign) and not (
                        n.kind == 'test')
                    label = None
                    if n.kind == 'test':
                        # `accept(..) is not None` / `accept(..)` truthy
                        p = getattr(c, '_parent', None)
                        if isinstance(p, ast.Compare) and \
                                isinstance(p.ops[0], ast.IsNot):
                            label = 'true'
                        elif isinstance(p, ast.Compare) and \
                                isinstance(p.ops[0], ast.Is):
                            label = 'false'
                        elif c is n.ast or p is n.ast or \
                                isinstance(p, ast.BoolOp):
                            label = 'true'
                    sites.append((n, v, label, fed, c))
        for r in rets:
            typ = r.func.id
            rn = cfg.nodes_of(r)
            arg_names = {x.id for a in r.args for x in walk_own(a)
                         if isinstance(x, ast.Name)}
            terms = out.setdefault(typ, set())
            # only what is consumed after the node's own start was saved
            start_kw = [k.value for k in r.keywords if k.arg == 'start']
            after_start = None
            if start_kw and isinstance(start_kw[0], ast.Name):
                sn = [x for x in cfg.nodes if isinstance(x.ast, ast.Assign)
                      and any(isinstance(t, ast.Name) and
                              t.id == start_kw[0].id
                              for t in x.ast.targets)]
                if sn:
                    after_start = cfg.reachable_from(sn)
            for (n, v, label, fed, c) in sites:
                if after_start is not None and n not in after_start:
                    continue
                if fed and isinstance(n.ast, ast.Assign) and any(
                        isinstance(t, ast.Name) and t.id in arg_names
                        for t in n.ast.targets):
                    continue              # operator token stored in a field
                starts = cfg.succ_by_label(n, label) if label else [
                    x for (x, l) in n.succ if l != 'exc']
                if n.kind == 'test' and isinstance(n.ast, ast.BoolOp) and \
                        isinstance(n.ast.op, ast.And) and label == 'true':
                    # failing conjunct: `a is None and b is None and ...`
                    pass
                reach = cfg.reachable_from(starts, avoid=resets)
                if any(x in reach for x in rn):
                    terms.add(v)
    return out


WRITER_EXTRA_OK = {
    # node type -> terminals the handler may emit although the parser path
    # to the construction does not consume them itself, with the reason
    'StatIf': {b'(': 'short-if parentheses are consumed inside the condition '
                     '(a prefixexp) and re-owned through exp.value',
               b')': 'same'},
    'ExpValue': {b'(': 'parentheses of a parenthesised prefixexp, peeked in '
                       'the token stream', b')': 'same',
                 b'nil': 'value None', b'false': 'value False',
                 b'true': 'value True'},
    'StatLabel': {b'::': 'label delimiters are part of the label token'},
    'TableConstructor': {},
}


def rule_agree(ctx, res, schema):
    model = ctx.model
    w = model.cls(L + ':LuaASTEchoWriter')
    pterms = _parser_terminals(model, schema)
    res.tables['parser_terminals'] = {k: sorted(x.decode('latin-1')
                                                for x in v)
                                      for k, v in sorted(pterms.items())}
    n = 0
    for typ in sorted(schema):
        m = w.methods.get('_walk_' + typ)
        if m is None or typ not in pterms:
            continue
        try:
            wt, _hp = fmtsrc.handler_terminals(m)
        except fmtsrc.PathLimit:
            res.undecided('R-C09-agree', m.qual, typ, 'too many paths')
            continue
        pt = pterms[typ]
        # keywords/symbols consumed for values (nil/true/false/...) are
        # represented by node fields, not terminals of the node itself
        missing = sorted(t for t in pt if t not in wt)
        n += 1
        inst = '{}: parser terminals are emitted'.format(typ)
        if typ == 'TableConstructor':
            missing = [t for t in missing if t not in (b',', b';')]
        if typ == 'ExpValue':
            missing = [t for t in missing if t not in (b'...',)]
        res.check(not missing, 'R-C09-agree', m.qual, inst,
                  'parser {} within writer {}'.format(
                      sorted(x.decode('latin-1') for x in pt),
                      sorted(x.decode('latin-1') for x in wt)),
                  'the parser accepts {} while building a {} node but the '
                  'writer can never emit it: writing such a program fails '
                  'its token assertion (AssertionError) instead of '
                  'reproducing the code'.format(
                      [x.decode('latin-1') for x in missing], typ), m.loc)
    # un-owned parentheses of a prefix expression
    pe = model.func('pico8.lua.parser:Parser._prefixexp')
    unowned = False
    for r in walk_own(pe.node):
        if isinstance(r, ast.Return) and isinstance(r.value, ast.Call) and \
                ast.unparse(r.value.func) == 'self._prefixexp_recur' and \
                r.value.args and isinstance(r.value.args[0], ast.Name):
            nm = r.value.args[0].id
            for a in walk_own(pe.node):
                if isinstance(a, ast.Assign) and \
                        isinstance(a.targets[0], ast.Name) and \
                        a.targets[0].id == nm and \
                        ast.unparse(a.value) == 'self._exp()':
                    unowned = True
    if unowned:
        for typ, fields in sorted(schema.items()):
            if 'exp_prefix' not in fields:
                continue
            m = w.methods.get('_walk_' + typ)
            if m is None:
                continue
            handles = any(
                isinstance(x, ast.Call) and isinstance(x.func, ast.Attribute)
                and x.func.attr == 'matches' and
                "TokSymbol(b'(')" in ast.unparse(x) and
                '_tokens[self._pos]' in ast.unparse(x.func.value)
                for x in walk_own(m.node))
            n += 1
            res.check(
                handles, 'R-C09-agree', m.qual,
                '{}: re-emits the un-owned parentheses of its prefix'.format(
                    typ), '',
                'Parser._prefixexp consumes `( exp )` and hands the INNER '
                'expression on, so no node owns the parentheses; {} walks '
                'exp_prefix without re-emitting them: `(f or g)(x)` / '
                '`(t).k` make every AST writer fail its token assertion '
                '(AssertionError)'.format(typ), m.loc)
    else:
        res.info('R-C09-agree', pe.qual, 'prefix parentheses are owned',
                 'the parenthesised prefix is wrapped in a node')
    res.require_min('R-C09-agree', 20)


def rule_semis(ctx, res):
    """`_get_semis` (the statement separator echo) decided by evaluation:
    the echo writer's method is run (concrete-control abstract interpreter)
    on a token list that holds k semicolons followed by another token, with
    the spacing hook replaced by a stand-in returning a distinct symbolic run
    each time.  The result must be run0 `;` run1 `;` .. run_k and the cursor
    must stand on the token after the last semicolon -- whatever loop form
    computes it."""
    from ..absint import cx as CX
    from ..absint.symx import BV
    model = ctx.model
    cls = model.cls(L + ':LuaASTEchoWriter')
    f = model.lookup_method(cls, '_get_semis')
    if f is None:
        res.vanished('R-C09-semis', cls.qual, '_get_semis', 'method missing')
        return
    problems = []
    n_eval = 0
    for k in (0, 1, 2, 3):
        cxi = CX.Cx(model, ctx.consts)
        sym = CX.ClassVal(model.cls('pico8.lua.lexer:TokSymbol'))
        name = CX.ClassVal(model.cls('pico8.lua.lexer:TokName'))
        runs = []

        def spaces(cx, args, kw, bound=None, runs=runs):
            r = CX.Seq('bytes', [BV.source(('run', len(runs)), 8)])
            runs.append(r)
            return r
        cxi.hooks = {
            L + ':LuaASTEchoWriter._get_code_for_spaces': spaces,
            L + ':LuaFormatterWriter._get_code_for_spaces': spaces,
        }

        def go():
            toks = [cxi.call(sym, [b';'], {}) for _ in range(k)]
            toks.append(cxi.call(name, [b'x'], {}))
            toks.append(cxi.call(sym, [b';'], {}))
            o = CX.Obj(cls)
            o.attrs['_tokens'] = toks
            o.attrs['_pos'] = 0
            o.attrs['_args'] = {}
            o.attrs['_indent'] = 0
            r = cxi.call(cxi.getattr(o, '_get_semis'),
                         [CX.Opaque('node', attrs={'end_pos': len(toks),
                                                   'start_pos': 0})], {})
            return r, o.attrs['_pos']
        try:
            paths = cxi.explore(go)
            if len(paths) != 1 or paths[0][0]:
                raise CX.CxError('control flow depends on the spacing text')
            kind, val = paths[0][1]
            if kind == 'raise':
                problems.append('{} semicolon(s): raises {}'.format(
                    k, val.tname))
                continue
            text, pos = val
        except AnalysisError as e:
            res.undecided('R-C09-semis', f.qual, 'separator echo',
                          'evaluation could not follow _get_semis: ' +
                          str(e)[:120], f.loc)
            return
        n_eval += 1
        got = cxi.items(text)
        want = []
        for j in range(k + 1):
            if j < len(runs):
                want.extend(runs[j].items)
            if j < k:
                want.append(ord(';'))
        same = len(got) == len(want) and len(runs) == k + 1 and all(
            (x is y) or (isinstance(x, int) and isinstance(y, int) and x == y)
            for x, y in zip(got, want))
        if not same:
            problems.append(
                '{} semicolon(s) before a statement are echoed as {} '
                'element(s) with {} `;` (spacing hook called {} times)'
                .format(k, len(got), sum(1 for x in got if x == ord(';')),
                        len(runs)))
        elif pos != k:
            problems.append('{} semicolon(s): the cursor ends at token {} '
                            'instead of {}'.format(k, pos, k))
    res.check(not problems, 'R-C09-semis', f.qual,
              'statement separators: every `;` consumed is written, with '
              'the spacing in front of it (evaluated)',
              '{} token lists evaluated (0-3 semicolons)'.format(n_eval),
              '; '.join(problems[:2]), f.loc, semantic=True)


def run(ctx, res):
    rule_eow(ctx, res)
    rule_semis(ctx, res)
    rule_hooks(ctx, res)
    rule_wsregex(ctx, res)
    schema = rule_schema(ctx, res)
    if schema:
        rule_agree(ctx, res, schema)
    from . import c09eval
    c09eval.report(ctx, res)
    cli.rule_wiring(ctx, res, 'luafmt', only_options={'indentwidth',
                                                      'overwrite'})
