"""C07 -- the lexer agrees with the PICO-8/Lua lexical grammar.

Rules: R-C07-rows (per-pattern obligations), R-C07-table (first-match table
vs reference maximal munch, all inputs), R-C07-multiline, R-C07-chunk,
R-C07-value, R-C07-pos.
"""
import ast
import re

from .. import rx, lexmodel, leximpl
from ..cfg import cfg_of
from ..core import AnalysisError
from ..refs import lexical as ref
from ..srcmodel import walk_own, const_str
from .common import unparse
from . import numvalue

EXPLANATION = (
    'The effective tokenizer is extracted from lexer.py: the procedural '
    'openers of Lexer._process_token in source order (block comment, long '
    'string levels 0-2, quoted strings with the escape skip set evaluated '
    'from _STRING_ESCAPES) followed by the ordered rows of _TOKEN_MATCHERS '
    '(evaluated; rows generated from the keyword *set* form an unordered '
    'segment). Every row pattern becomes an NFA (own construction from the '
    're._parser AST, with exact one-symbol look-ahead for \\b and (?!x)). '
    'R-C07-rows: each row never matches the empty string and its '
    'leftmost-first (backtracking) match length equals its longest match on '
    'every input (search over the pair automaton). R-C07-table: the product '
    'of all row automata and of the reference grammar\'s automata '
    '(refs/lexical.py: Lua 5.2 section 3.1 + the PICO-8 extensions picotool '
    'supports; commit rows then maximal munch, keyword over name) is '
    'searched exhaustively, with a nondeterministic cut position, for a byte '
    'string on which "first matching row wins" and the reference disagree '
    'on the first token (kind, length); an empty result is a proof for ALL '
    'inputs, a non-empty one gives the shortest witness per class. Inputs on '
    'which the reference is undefined (malformed numerals, --[=[, newer '
    'compound operators) are not compared. R-C07-multiline: opener and '
    'terminator of each multi-line state agree and every state is reset on '
    'close and reported when unterminated. R-C07-chunk: no row accepts a '
    'string with an inner newline and no look-ahead needs a byte beyond a '
    'line end, so splitting at line ends cannot change tokenisation. '
    'R-C07-value: regular-language dataflow through TokNumber.value: every '
    'spelling a number row accepts is routed to an int()/float() conversion '
    'whose input language contains it. R-C07-pos: every consumed byte '
    'advances exactly one position counter and positions are recorded before '
    'consumption.')

ASSUMPTIONS = [
    'refs/lexical.py is the lexical grammar of the supported dialect',
    're._parser parses patterns as re.compile does; Python int()/float() '
    'input grammars as documented',
    'long-bracket levels above 2 behave like levels 0-2 (level alphabet is '
    'checked to be {=} only)',
]


def _generalise(label, keywords):
    for kw in sorted(keywords, key=len, reverse=True):
        k = kw.decode('latin-1')
        if label.endswith(' \\b' + k + '\\b') or ('row' in label and
                                                   ' ' + k + '(?!' in label):
            return 'keyword-row <kw>'
    m = re.match(r'row\d+ (.*)$', label)
    return m.group(1) if m else label


def rule_rows(ctx, res, src, impl, base):
    where = 'pico8.lua.lexer:_TOKEN_MATCHERS'
    res.tables['_TOKEN_MATCHERS'] = len(src.table)
    res.tables['unordered_segments'] = src.unordered
    for i, (rg, cls) in enumerate(src.table):
        row = impl.rows[base + i]
        inst = 'row {!r}'.format(rg.pattern.decode('latin-1'))
        if cls is None:
            res.violation('R-C07-rows', where, inst + ' has a token class',
                          'row consumes text without emitting a token '
                          '(class None): characters of the source vanish '
                          'from the token list')
            continue
        r = rx.check_row(row.nfa)
        if r['empty'] is not None:
            res.violation('R-C07-rows', where, inst + ' non-empty',
                          'pattern matches the empty string: the lexer '
                          'would stop consuming input')
        elif r['priority'] is not None:
            res.violation('R-C07-rows', where, inst + ' greedy == longest',
                          'backtracking match is shorter than the longest '
                          'match on input {!r}'.format(r['priority']))
        else:
            res.holds('R-C07-rows', where, inst,
                      'never empty; leftmost-first == longest ({} pair '
                      'states)'.format(r['states']))
    res.require_min('R-C07-rows', 60)


def rule_table(ctx, res, src, impl, base):
    where = 'pico8.lua.lexer:_TOKEN_MATCHERS'
    reference = leximpl.build_reference()
    stats = {}
    dis, amb = lexmodel.compare(
        impl, reference,
        {'number': frozenset(ref.MALFORMED_AFTER_NUMBER)}, stats=stats)
    res.stats.update(stats)
    keywords = ref.KEYWORDS
    classes = {}
    for d in dis:
        iv, rv = d.impl_v, d.ref_v
        report = False
        if iv[0] == 'yes':
            report = True
        elif iv[0] == 'no' and (iv[1] == 'no row matches' or
                                'unterminated' in iv[1]):
            report = True
        if not report:
            continue
        il = _generalise(impl.rows[iv[2]].label, keywords) \
            if iv[2] is not None else 'no row'
        rl = reference.rows[rv[2]].label if rv[2] is not None else 'nothing'
        rl = re.sub(r'^ref (keyword|symbol) .*$', r'ref \1', rl)
        key = 'impl {} [{}] vs reference {} [{}]'.format(
            iv[1] if iv[0] == 'yes' else 'no-token', il,
            rv[1] if rv[0] == 'yes' else 'other-extent', rl)
        if key not in classes or len(d.witness) < len(classes[key].witness):
            classes[key] = d
    for key, d in sorted(classes.items()):
        res.violation(
            'R-C07-table', where, key,
            'first-match table and reference maximal munch disagree: ' +
            d.describe(), extra={'witness': repr(d.witness), 'cut': d.cut})
    for d in amb:
        res.violation('R-C07-table', where,
                      'order of an unordered segment matters',
                      'rows generated from a set have no defined order, yet '
                      'their order changes the result: ' + d.describe())
    if not classes and not amb:
        res.holds('R-C07-table', where, 'impl == reference on every input',
                  'product search exhausted: {} states over {} byte classes, '
                  'no (string, cut) on which first-match and reference '
                  'maximal munch differ'.format(
                      stats.get('product_states'),
                      stats.get('alphabet_classes')))
    if ctx.tier == 'thorough':
        # cross-check of the alphabet compression: every byte its own class
        st2 = {}
        dis2, amb2 = lexmodel.compare(
            impl, reference,
            {'number': frozenset(ref.MALFORMED_AFTER_NUMBER)}, stats=st2,
            uncompressed=True)
        k1 = {d.key(impl, reference) for d in dis}
        k2 = {d.key(impl, reference) for d in dis2}
        res.stats['product_states_uncompressed'] = st2.get('product_states')
        if k1 != k2 or len(amb) != len(amb2):
            res.undecided('R-C07-table', where, 'alphabet compression',
                          'compressed and uncompressed alphabets give '
                          'different disagreement classes: {} vs {}'.format(
                              sorted(k1 ^ k2)[:3], len(k2)))
        else:
            res.holds('R-C07-table', where,
                      'byte-class compression is exact',
                      'same result with all 256 byte values as separate '
                      'symbols ({} product states)'.format(
                          st2.get('product_states')))
    # structure facts the model relies on
    res.check(src.state_order_ok, 'R-C07-table',
              'pico8.lua.lexer:Lexer._process_token',
              'continuation states tested before openers',
              'in-string / in-comment states take precedence',
              'an opener is tested before a continuation state')
    res.check(src.table_last, 'R-C07-table',
              'pico8.lua.lexer:Lexer._process_token',
              'table is the last alternative', '',
              'the table-driven branch is not the final else')
    loop = [l for l in src.links if l['kind'] == 'table'][0]['loop']
    has_break = any(isinstance(n, (ast.Break, ast.Return))
                    for n in walk_own(loop))
    res.check(has_break, 'R-C07-table',
              'pico8.lua.lexer:Lexer._process_token',
              'first matching row wins', 'loop breaks at the first match',
              'the table loop does not stop at the first matching row')


def _token_appends(paths):
    """[(path, class name, args)] for self._tokens.append(TokX(...)) events"""
    out = []
    for p in paths:
        for e in p.events:
            if e[0] == 'call' and isinstance(e[1], ast.Call) and \
                    isinstance(e[1].func, ast.Attribute) and \
                    e[1].func.attr == 'append' and \
                    ast.unparse(e[1].func.value) == 'self._tokens' and \
                    e[1].args and isinstance(e[1].args[0], ast.Call):
                c = e[1].args[0]
                out.append((p, ast.unparse(c.func).split('.')[-1], c))
    return out


def _resets(p, state):
    return any(e[0] == 'set' and e[1] == 'self.' + state and
               isinstance(e[2], ast.Constant) and e[2].value is None
               for e in p.events)


def rule_multiline(ctx, res, src):
    where = 'pico8.lua.lexer:Lexer._process_token'
    mod = src.module
    s = src.s_name
    for op in src.openers:
        cont = op.get('cont')
        loc = mod.loc(op['node'])
        if cont is None:
            res.violation('R-C07-multiline', where,
                          'opener {} has a continuation'.format(
                              op.get('prefixes') or op.get('pattern')),
                          'opener sets no state any branch continues', loc)
            continue
        state = cont['state']
        emit_paths = None
        if op['kind'] == 'prefix' and len(op['prefixes']) == 1 and \
                len(op['prefixes'][0]) > 1:
            pre = op['prefixes'][0]
            term, add = src.comment_terminator(cont)
            ok = term is not None and add == len(term) and \
                pre.startswith(b'--[[') and term == b']]'
            res.check(ok, 'R-C07-multiline', where, 'block comment ' +
                      pre.decode(), 'opener {!r} closes at {!r}, skip {} == '
                      'len(terminator)'.format(pre, term, add),
                      'opener {!r} / terminator {!r} / skip {} do not '
                      'agree'.format(pre, term, add), loc)
            # the opener consumes exactly its own length
            consumed = {ast.unparse(p.ret) if p.ret is not None else None
                        for p in op['paths']}
            res.check(consumed == {str(len(pre))}, 'R-C07-multiline', where,
                      'block comment opener length',
                      'consumes {} bytes'.format(sorted(map(str, consumed))),
                      'opener {!r} consumes {} bytes'.format(
                          pre, sorted(map(str, consumed))), loc)
            emit_paths, _nf, _nd = src.found_split(cont)
        elif op['kind'] == 'regex':
            t = src.long_string_terminator(cont)
            pat = op['pattern']
            body_pat = op.get('pattern_body')
            lvl_ok = False
            if body_pat is not None:
                # group 1 must be =* and the two patterns the same language
                tree = rx.parse(body_pat)
                groups = [av for (o, av) in tree if str(o) == 'SUBPATTERN']
                if len(groups) == 1:
                    sub = list(groups[0][-1])
                    if len(sub) == 1 and str(sub[0][0]) == 'MAX_REPEAT':
                        lo, hi, inner = sub[0][1]
                        bs = rx._single_byteset(inner)
                        lvl_ok = bs == frozenset(b'=')
                a, b = rx.build(pat), rx.build(body_pat)
                same = rx.language_subset(a, b) is None and \
                    rx.language_subset(b, a) is None
                lvl_ok = lvl_ok and same
            res.check(lvl_ok, 'R-C07-multiline', where,
                      'long string level alphabet',
                      'opener captures =* only (no regex injection into the '
                      'terminator pattern)',
                      'captured level is not =* or the two opener patterns '
                      'differ', loc)
            ok = t is not None and t[1].endswith('_delim')
            ok = ok and _regex_lit(t[0]) == b']' and _regex_lit(t[2]) == b']'
            res.check(ok, 'R-C07-multiline', where, 'long string terminator',
                      'closes at "]" + level + "]"',
                      'terminator pattern is not ] level ]: {}'.format(t),
                      loc)
            emit_paths, _nf, _nd = src.found_split(cont)
        else:
            # quoted string: the closing test compares the current character
            # with the recorded opening quote; the opener records s[:1]
            sets = False
            delim_attr = None
            for p in op['paths']:
                for e in p.events:
                    if e[0] == 'set' and e[1].endswith('_delim') and \
                            isinstance(e[2], ast.Subscript) and \
                            isinstance(e[2].value, ast.Name) and \
                            e[2].value.id == s and \
                            isinstance(e[2].slice, ast.Slice):
                        lo, hi = e[2].slice.lower, e[2].slice.upper
                        if (lo is None or (isinstance(lo, ast.Constant) and
                                           lo.value == 0)) and \
                                isinstance(hi, ast.Constant) and \
                                hi.value == 1:
                            sets = True
                            delim_attr = e[1]
            closes = False
            emit_paths = []
            for (lp, lpaths, _env) in src.loop_paths(cont):
                for p in lpaths:
                    cmp_ok = any(
                        val and isinstance(t, ast.Compare) and
                        len(t.ops) == 1 and isinstance(t.ops[0], ast.Eq) and
                        delim_attr is not None and
                        delim_attr in (ast.unparse(t.left),
                                       ast.unparse(t.comparators[0]))
                        for (t, val) in p.conds)
                    if cmp_ok and _token_appends([p]):
                        closes = True
                    if _token_appends([p]):
                        emit_paths.append(p)
            res.check(closes and sets, 'R-C07-multiline', where,
                      'quoted string closes at its opening quote kind',
                      'delimiter recorded at the opener and compared at the '
                      'close', 'quote kind is not recorded/compared '
                      '(recorded={} compared={})'.format(sets, closes), loc)
        # typestate: state reset on the path that emits the token
        emitting = [p for (p, _c, _a) in _token_appends(emit_paths or [])]
        reset = bool(emitting) and all(_resets(p, state) for p in emitting)
        res.check(reset, 'R-C07-multiline', where,
                  'state {} cleared on close'.format(state),
                  'reset to None on every path that emits the token',
                  'the state is not reset when the token is emitted: the '
                  'lexer would stay inside the construct', loc)
    # unterminated states raise in process_lines
    pl = src.model.func('pico8.lua.lexer:Lexer.process_lines')
    states = [l['state'] for l in src.links if l['kind'] == 'state']
    # the tests may be spelled out or run as a loop over a table of
    # (state attribute, message ...) rows
    txt = ast.unparse(pl.node)
    cfg = cfg_of(pl)
    for stname in states:
        ok = False
        for n in cfg.nodes:
            if n.kind == 'test' and n.ast is not None and \
                    'is not None' in ast.unparse(n.ast):
                tr = cfg.succ_by_label(n, 'true')
                reach = cfg.reachable_from(tr, avoid={n})
                if cfg.raise_exit in reach and cfg.exit not in reach:
                    t = ast.unparse(n.ast)
                    if stname in t:
                        ok = True
                    elif 'getattr(self' in t and repr(stname) in txt:
                        ok = True
        res.check(ok, 'R-C07-multiline', pl.qual,
                  'unterminated {} raises'.format(stname),
                  'LexerError after the last line',
                  'an unterminated construct is accepted silently', pl.loc)
    res.require_min('R-C07-multiline', 9)


def _regex_lit(p):
    try:
        return leximpl._regex_literal(p)
    except AnalysisError:
        return None


def _enclosing_block(node):
    n = node
    while n is not None and not isinstance(n, ast.stmt):
        n = getattr(n, '_parent', None)
    p = getattr(n, '_parent', None)
    for fld in ('body', 'orelse', 'finalbody'):
        b = getattr(p, fld, None)
        if isinstance(b, list) and n in b:
            return b
    return []


def rule_chunk(ctx, res, src, impl, base):
    where = 'pico8.lua.lexer:_TOKEN_MATCHERS'
    n_ok = 0
    for i, (rg, cls) in enumerate(src.table):
        nfa = impl.rows[base + i].nfa
        _c, reps = rx.partition(nfa.bytesets())
        syms = [b for b in rx.symbols(reps) if b != rx.END]
        # subset construction tracking: seen a newline that is not last
        start = (frozenset([nfa.start]), None, False)
        seen = {start}
        queue = [start]
        bad = None
        while queue and bad is None:
            (S, prev, after_nl) = queue.pop(0)
            for b in syms:
                c = rx.closure(nfa, S, prev, b)
                ns = rx.step(nfa, c, b)
                if not ns:
                    continue
                nst = (ns, rx._prev_key(b), after_nl or prev == 10)
                acc_end = nfa.accept in rx.closure(nfa, ns, rx._prev_key(b),
                                                   rx.END)
                if (after_nl or prev == 10) and acc_end:
                    bad = 'accepts text that continues past a line end'
                if b == 10:
                    # look-ahead past the newline must not matter
                    for b2 in syms:
                        acc2 = nfa.accept in rx.closure(
                            nfa, ns, 10, b2)
                        if acc2 != acc_end:
                            bad = ('acceptance at a line end depends on the '
                                   'byte after it')
                if nst not in seen:
                    seen.add(nst)
                    queue.append(nst)
        inst = 'row {!r} is line-local'.format(rg.pattern.decode('latin-1'))
        if bad:
            res.violation('R-C07-chunk', where, inst, bad)
        else:
            n_ok += 1
    res.holds('R-C07-chunk', where, 'all rows line-local',
              '{} rows: none accepts an inner newline, none looks past a '
              'line end; cross-chunk carriers are only the explicit '
              'multi-line states'.format(n_ok))
    # the driver loop hands each chunk to _process_token until it returns 0
    # and raises on a non-empty remainder
    pl = src.model.func('pico8.lua.lexer:Lexer._process_line')
    cfg = cfg_of(pl)
    raises = [n for n in cfg.nodes if isinstance(n.ast, ast.Raise)]
    guard_ok = False
    for n in cfg.nodes:
        if n.kind != 'test' or not isinstance(n.stmt, ast.If):
            continue
        t, neg = n.ast, False
        while isinstance(t, ast.UnaryOp) and isinstance(t.op, ast.Not):
            t, neg = t.operand, not neg
        if not isinstance(t, ast.Name):
            continue
        # the branch taken when the remainder is non-empty must raise
        br = cfg.succ_by_label(n, 'false' if neg else 'true')
        reach = cfg.reachable_from(br, avoid={n})
        if any(r in reach for r in raises) and cfg.exit not in reach:
            guard_ok = True
    res.check(guard_ok, 'R-C07-chunk', pl.qual,
              'non-empty remainder raises',
              'LexerError when no row matches', 'unlexable text is dropped '
              'silently', pl.loc)


LINE, CHAR = 'self._cur_lineno', 'self._cur_charno'


def _spec_pos(x, line, char):
    for b in x:
        if b == 10:
            line, char = line + 1, 0
        else:
            char += 1
    return line, char


def _replace_text(e, text, name):
    from ..astutil import clone

    class T(ast.NodeTransformer):
        def generic_visit(self, n):
            if isinstance(n, ast.expr) and ast.unparse(n) == text:
                return ast.Name(id=name, ctx=ast.Load())
            return super().generic_visit(n)
    return T().visit(clone(e))


def rule_pos(ctx, res, src):
    """the position counters advance over exactly the consumed text, one
    line per newline, the column restarting after the last newline"""
    from ..absint import bytesval
    f = src.f
    where = f.qual
    s = src.s_name
    sym = src.sym
    n_loop = n_closed = 0
    problems = []
    undecided = []
    samples = [b'']
    for k in range(1, 5):
        samples += [bytes(t) for t in __import__('itertools').product(
            b'a\n', repeat=k)]
    for p in src.paths:
        if p.end != 'return' or p.ret is None:
            continue
        ret_t = ast.unparse(p.ret)
        sets = {}
        for e in p.events:
            if e[0] == 'set' and e[1] in (LINE, CHAR):
                sets[e[1]] = e[2]
        loops = [e for e in p.events if e[0] == 'loop' and any(
            isinstance(x, ast.Attribute) and x.attr in ('_cur_lineno',
                                                        '_cur_charno') and
            isinstance(x.ctx, ast.Store) for x in ast.walk(e[1]))]
        if loops:
            lp, env = loops[-1][1], loops[-1][2]
            if not isinstance(lp, ast.For) or len(loops) != 1 or sets:
                undecided.append('position bookkeeping mixes a loop with '
                                 'other updates')
                continue
            it = ast.unparse(sym.S(lp.iter, env))
            if it != '{}[:{}]'.format(s, ret_t):
                problems.append(
                    'the counting loop runs over {} but {} is consumed: the '
                    'counted extent differs from the consumed extent'.format(
                        it, ret_t))
                continue
            if not isinstance(lp.target, ast.Name):
                undecided.append('counting loop target')
                continue
            c = lp.target.id
            trans = {}
            for q in sym.run(lp.body, {}):
                isnl = None
                for (t, val) in q.conds:
                    tt = ast.unparse(t)
                    if tt in ('{} == 10'.format(c), '10 == {}'.format(c)):
                        isnl = val
                    elif tt in ('{} != 10'.format(c), '10 != {}'.format(c)):
                        isnl = not val
                if isnl is None:
                    isnl = 'other'
                st = {e[1]: ast.unparse(e[2]) for e in q.events
                      if e[0] == 'set'}
                trans[isnl] = (st.get(LINE, LINE), st.get(CHAR, CHAR))
            want = {True: (LINE + ' + 1', '0'), False: (LINE, CHAR + ' + 1')}
            if trans != want:
                problems.append(
                    'per-byte step is {}; expected newline: line += 1, '
                    'column = 0; other bytes: column += 1'.format(trans))
            n_loop += 1
            continue
        if not sets:
            problems.append('a path returning {} updates no position '
                            'counter'.format(ret_t))
            continue
        # closed form: compare with the per-byte specification on every
        # string over {x, newline} up to length 4
        L = sets.get(LINE, ast.parse(LINE, mode='eval').body)
        C = sets.get(CHAR, ast.parse(CHAR, mode='eval').body)
        const_len = p.ret.value if isinstance(p.ret, ast.Constant) and \
            isinstance(p.ret.value, int) else None
        pos_conds = []
        for (t, val) in p.conds:
            tt = ast.unparse(t)
            if '.count(' in tt or 'rfind(' in tt or (
                    const_len is None and ret_t in tt and
                    src._classify_cond(t) is None and
                    src._found_cond(t) is None):
                pos_conds.append((t, val))
        bad = None
        try:
            for x in samples:
                if const_len is not None and len(x) != const_len:
                    continue
                env = {s: x + b'\n?\n', LINE: 3, CHAR: 7, 'RET': len(x)}

                def E(e):
                    e2 = e if const_len is not None else _replace_text(
                        e, ret_t, 'RET')
                    return bytesval.ev(e2, env)
                if not all(bool(E(t)) == val for (t, val) in pos_conds):
                    continue
                got = (E(L), E(C))
                want = _spec_pos(x, 3, 7)
                if got != want and bad is None:
                    bad = (x, got, want)
        except AnalysisError as ex:
            undecided.append('position update outside the model: ' + str(ex))
            continue
        if bad is not None:
            problems.append(
                'after consuming {!r} from line 3 column 7 the counters are '
                '{} but the text ends at line {} column {}'.format(
                    bad[0], bad[1], bad[2][0], bad[2][1]))
        n_closed += 1
    for u_ in sorted(set(undecided))[:3]:
        res.undecided('R-C07-pos', where, 'position bookkeeping', u_, f.loc)
    res.check(not problems and (n_loop + n_closed) > 0, 'R-C07-pos', where,
              'counters advance over exactly the consumed text',
              '{} paths count byte by byte over s[:consumed], {} use a '
              'closed form that agrees with the per-byte rule on all strings '
              'over {{x, newline}} up to length 4'.format(n_loop, n_closed),
              '; '.join(sorted(set(problems))[:2]), f.loc)
    # positions are read before the counters advance
    late = []
    for p in src.paths:
        advanced = False
        for e in p.events:
            if e[0] == 'set' and e[1] in (LINE, CHAR):
                advanced = True
            elif e[0] == 'loop' and any(
                    isinstance(x, ast.Attribute) and
                    x.attr in ('_cur_lineno', '_cur_charno') and
                    isinstance(x.ctx, ast.Store) for x in ast.walk(e[1])):
                advanced = True
            elif advanced and e[0] in ('call', 'set', 'loop'):
                payload = e[1] if e[0] == 'loop' else e[2] if e[0] == 'set' \
                    else e[1]
                if any(isinstance(x, ast.Attribute) and
                       x.attr in ('_cur_lineno', '_cur_charno')
                       for x in ast.walk(payload)
                       if isinstance(x, ast.AST)):
                    late.append(e)
            elif not advanced and e[0] in ('call', 'set'):
                payload = e[2] if e[0] == 'set' else e[1]
                if e[0] == 'set' and e[1] in (LINE, CHAR):
                    continue
                for x in ast.walk(payload):
                    if isinstance(x, ast.Call) and \
                            ast.unparse(x.func).split('.')[-1].startswith(
                                'Tok') and len(x.args) >= 3:
                        for a in x.args[1:3]:
                            if not isinstance(a, ast.Attribute):
                                late.append(e)
    res.check(not late, 'R-C07-pos', where,
              'positions recorded before consumption',
              'every token / state start position is read before the '
              'counters advance', 'a position is read after the counters '
              'advanced', f.loc)


def rule_start_pos(ctx, res, src):
    """the line / column a token is created with: either the current
    counters (one-line tokens: the counters advance only after the token is
    made, R-C07-pos) or a pair of saved attributes <state>_lineno /
    <state>_charno of a multi-line construct -- and then every place that
    opens the construct (stores a non-None value into <state>) records both
    counters next to it, and nothing else writes them."""
    f = src.f
    where = f.qual
    u = ast.unparse
    ctors = []
    for n in walk_own(f.node):
        if isinstance(n, ast.Call) and len(n.args) >= 3 and (
                (isinstance(n.func, ast.Name) and (
                    n.func.id.startswith('Tok') or n.func.id == 'tok_class'))
                or (isinstance(n.func, ast.Attribute) and
                    n.func.attr.startswith('Tok'))):
            ctors.append(n)
    if not ctors:
        res.vanished('R-C07-pos', where, 'token constructors',
                     'no token is created with a position in '
                     '_process_token')
        return
    def pairs(st):
        """(target, value) of an assignment, a tuple assignment with as
        many values as targets taken apart"""
        out = []
        for t in st.targets:
            if isinstance(t, (ast.Tuple, ast.List)) and isinstance(
                    st.value, (ast.Tuple, ast.List)) and \
                    len(t.elts) == len(st.value.elts):
                out.extend(zip(t.elts, st.value.elts))
            else:
                out.append((t, st.value))
        return out

    class _One:
        """one (target, value) pair of an assignment, seen as a statement"""
        def __init__(self, st, value):
            self.st, self.value, self.lineno = st, value, st.lineno
    stores = {}
    for n in walk_own(f.node):
        if isinstance(n, ast.Assign):
            for (t, v) in pairs(n):
                if isinstance(t, ast.Attribute) and isinstance(
                        t.value, ast.Name) and t.value.id == 'self':
                    stores.setdefault(t.attr, []).append(_One(n, v))

    def block_of(st):
        par = getattr(st, '_parent', None)
        for fld in ('body', 'orelse', 'finalbody'):
            lst = getattr(par, fld, None)
            if isinstance(lst, list) and any(x is st for x in lst):
                return lst
        return None

    def is_none(e):
        return isinstance(e, ast.Constant) and e.value is None
    for c in ctors:
        L, C = u(c.args[1]), u(c.args[2])
        inst = 'token created by {}(..) starts at the recorded position' \
            .format(u(c.func))
        loc = f.module.loc(c)
        if (L, C) == ('self._cur_lineno', 'self._cur_charno'):
            res.holds('R-C07-pos', where, inst, 'the current counters', loc)
            continue
        if not (L.startswith('self.') and L.endswith('_lineno') and
                C.startswith('self.') and C.endswith('_charno') and
                L[:-7] == C[:-7]):
            res.undecided('R-C07-pos', where, inst,
                          'position arguments ({}, {}) are neither the '
                          'current counters nor a <state>_lineno / '
                          '<state>_charno pair'.format(L, C), loc)
            continue
        state = L[5:-7]
        la, ca = state + '_lineno', state + '_charno'
        opens = [st for st in stores.get(state, []) if not is_none(st.value)]
        if not opens:
            res.undecided('R-C07-pos', where, inst,
                          'no statement opens the state self.' + state, loc)
            continue
        problems = []
        for st in opens:
            blk = block_of(st.st) or []
            vals = {}
            for x in blk:
                if isinstance(x, ast.Assign):
                    for (t, v) in pairs(x):
                        if isinstance(t, ast.Attribute) and \
                                t.attr in (la, ca):
                            vals[t.attr] = u(v)
            if vals.get(la) != 'self._cur_lineno':
                problems.append('line {}: the construct is opened without '
                                'recording its start line ({} = {})'.format(
                                    st.lineno, la, vals.get(la)))
            if vals.get(ca) != 'self._cur_charno':
                problems.append('line {}: the construct is opened without '
                                'recording its start column ({} = {})'.format(
                                    st.lineno, ca, vals.get(ca)))
        open_blocks = [id(block_of(st.st)) for st in opens]
        for a in (la, ca):
            for st in stores.get(a, []):
                if not is_none(st.value) and id(block_of(st.st)) not in \
                        open_blocks:
                    problems.append('line {}: {} is written outside the '
                                    'place that opens the construct'.format(
                                        st.lineno, a))
        res.check(not problems, 'R-C07-pos', where, inst,
                  'self.{0}_lineno / _charno are recorded from the counters '
                  'wherever self.{0} is opened ({1} place(s))'.format(
                      state, len(opens)),
                  '; '.join(problems[:2]) + ': the token reports the '
                  'position of an earlier construct or None', loc)


def run(ctx, res):
    src = leximpl.LexerSource(ctx)
    impl, base = leximpl.build_impl(src)
    rule_rows(ctx, res, src, impl, base)
    rule_table(ctx, res, src, impl, base)
    rule_multiline(ctx, res, src)
    rule_chunk(ctx, res, src, impl, base)
    numvalue.rule_value(ctx, res, src, impl, base)
    rule_pos(ctx, res, src)
    rule_start_pos(ctx, res, src)
    # "the same decoded string bytes": the in-string escape decoder against
    # the reference escape forms, and its round trip with the re-encoder
    # (shared with C06)
    from . import c06
    c06.rule_escapes(ctx, res, src)
