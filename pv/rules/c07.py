"""C07 -- the lexer agrees with the PICO-8/Lua lexical grammar.

Rules: R-C07-rows (per-pattern obligations), R-C07-table (first-match table
vs reference maximal munch, all inputs), R-C07-multiline, R-C07-chunk,
R-C07-value, R-C07-pos.
"""
import ast
import re

from .. import rx, lexmodel, leximpl
from ..cfg import cfg_of
from ..core import AnalysisError
from ..refs import lexical as ref
from ..srcmodel import walk_own, const_str
from .common import unparse
from . import numvalue

EXPLANATION = (
    'The effective tokenizer is extracted from lexer.py: the procedural '
    'openers of Lexer._process_token in source order (block comment, long '
    'string levels 0-2, quoted strings with the escape skip set evaluated '
    'from _STRING_ESCAPES) followed by the ordered rows of _TOKEN_MATCHERS '
    '(evaluated; rows generated from the keyword *set* form an unordered '
    'segment). Every row pattern becomes an NFA (own construction from the '
    're._parser AST, with exact one-symbol look-ahead for \\b and (?!x)). '
    'R-C07-rows: each row never matches the empty string and its '
    'leftmost-first (backtracking) match length equals its longest match on '
    'every input (search over the pair automaton). R-C07-table: the product '
    'of all row automata and of the reference grammar\'s automata '
    '(refs/lexical.py: Lua 5.2 section 3.1 + the PICO-8 extensions picotool '
    'supports; commit rows then maximal munch, keyword over name) is '
    'searched exhaustively, with a nondeterministic cut position, for a byte '
    'string on which "first matching row wins" and the reference disagree '
    'on the first token (kind, length); an empty result is a proof for ALL '
    'inputs, a non-empty one gives the shortest witness per class. Inputs on '
    'which the reference is undefined (malformed numerals, --[=[, newer '
    'compound operators) are not compared. R-C07-multiline: opener and '
    'terminator of each multi-line state agree and every state is reset on '
    'close and reported when unterminated. R-C07-chunk: no row accepts a '
    'string with an inner newline and no look-ahead needs a byte beyond a '
    'line end, so splitting at line ends cannot change tokenisation. '
    'R-C07-value: regular-language dataflow through TokNumber.value: every '
    'spelling a number row accepts is routed to an int()/float() conversion '
    'whose input language contains it. R-C07-pos: every consumed byte '
    'advances exactly one position counter and positions are recorded before '
    'consumption.')

ASSUMPTIONS = [
    'refs/lexical.py is the lexical grammar of the supported dialect',
    're._parser parses patterns as re.compile does; Python int()/float() '
    'input grammars as documented',
    'long-bracket levels above 2 behave like levels 0-2 (level alphabet is '
    'checked to be {=} only)',
]


def _generalise(label, keywords):
    for kw in sorted(keywords, key=len, reverse=True):
        k = kw.decode('latin-1')
        if label.endswith(' \\b' + k + '\\b') or ('row' in label and
                                                   ' ' + k + '(?!' in label):
            return 'keyword-row <kw>'
    m = re.match(r'row\d+ (.*)$', label)
    return m.group(1) if m else label


def rule_rows(ctx, res, src, impl, base):
    where = 'pico8.lua.lexer:_TOKEN_MATCHERS'
    res.tables['_TOKEN_MATCHERS'] = len(src.table)
    res.tables['unordered_segments'] = src.unordered
    for i, (rg, cls) in enumerate(src.table):
        row = impl.rows[base + i]
        inst = 'row {!r}'.format(rg.pattern.decode('latin-1'))
        if cls is None:
            res.violation('R-C07-rows', where, inst + ' has a token class',
                          'row consumes text without emitting a token '
                          '(class None): characters of the source vanish '
                          'from the token list')
            continue
        r = rx.check_row(row.nfa)
        if r['empty'] is not None:
            res.violation('R-C07-rows', where, inst + ' non-empty',
                          'pattern matches the empty string: the lexer '
                          'would stop consuming input')
        elif r['priority'] is not None:
            res.violation('R-C07-rows', where, inst + ' greedy == longest',
                          'backtracking match is shorter than the longest '
                          'match on input {!r}'.format(r['priority']))
        else:
            res.holds('R-C07-rows', where, inst,
                      'never empty; leftmost-first == longest ({} pair '
                      'states)'.format(r['states']))
    res.require_min('R-C07-rows', 60)


def rule_table(ctx, res, src, impl, base):
    where = 'pico8.lua.lexer:_TOKEN_MATCHERS'
    reference = leximpl.build_reference()
    stats = {}
    dis, amb = lexmodel.compare(
        impl, reference,
        {'number': frozenset(ref.MALFORMED_AFTER_NUMBER)}, stats=stats)
    res.stats.update(stats)
    keywords = ref.KEYWORDS
    classes = {}
    for d in dis:
        iv, rv = d.impl_v, d.ref_v
        report = False
        if iv[0] == 'yes':
            report = True
        elif iv[0] == 'no' and (iv[1] == 'no row matches' or
                                'unterminated' in iv[1]):
            report = True
        if not report:
            continue
        il = _generalise(impl.rows[iv[2]].label, keywords) \
            if iv[2] is not None else 'no row'
        rl = reference.rows[rv[2]].label if rv[2] is not None else 'nothing'
        rl = re.sub(r'^ref (keyword|symbol) .*$', r'ref \1', rl)
        key = 'impl {} [{}] vs reference {} [{}]'.format(
            iv[1] if iv[0] == 'yes' else 'no-token', il,
            rv[1] if rv[0] == 'yes' else 'other-extent', rl)
        if key not in classes or len(d.witness) < len(classes[key].witness):
            classes[key] = d
    for key, d in sorted(classes.items()):
        res.violation(
            'R-C07-table', where, key,
            'first-match table and reference maximal munch disagree: ' +
            d.describe(), extra={'witness': repr(d.witness), 'cut': d.cut})
    for d in amb:
        res.violation('R-C07-table', where,
                      'order of an unordered segment matters',
                      'rows generated from a set have no defined order, yet '
                      'their order changes the result: ' + d.describe())
    if not classes and not amb:
        res.holds('R-C07-table', where, 'impl == reference on every input',
                  'product search exhausted: {} states over {} byte classes, '
                  'no (string, cut) on which first-match and reference '
                  'maximal munch differ'.format(
                      stats.get('product_states'),
                      stats.get('alphabet_classes')))
    if ctx.tier == 'thorough':
        # cross-check of the alphabet compression: every byte its own class
        st2 = {}
        dis2, amb2 = lexmodel.compare(
            impl, reference,
            {'number': frozenset(ref.MALFORMED_AFTER_NUMBER)}, stats=st2,
            uncompressed=True)
        k1 = {d.key(impl, reference) for d in dis}
        k2 = {d.key(impl, reference) for d in dis2}
        res.stats['product_states_uncompressed'] = st2.get('product_states')
        if k1 != k2 or len(amb) != len(amb2):
            res.undecided('R-C07-table', where, 'alphabet compression',
                          'compressed and uncompressed alphabets give '
                          'different disagreement classes: {} vs {}'.format(
                              sorted(k1 ^ k2)[:3], len(k2)))
        else:
            res.holds('R-C07-table', where,
                      'byte-class compression is exact',
                      'same result with all 256 byte values as separate '
                      'symbols ({} product states)'.format(
                          st2.get('product_states')))
    # structure facts the model relies on
    res.check(src.state_order_ok, 'R-C07-table',
              'pico8.lua.lexer:Lexer._process_token',
              'continuation states tested before openers',
              'in-string / in-comment states take precedence',
              'an opener is tested before a continuation state')
    res.check(src.table_last, 'R-C07-table',
              'pico8.lua.lexer:Lexer._process_token',
              'table is the last alternative', '',
              'the table-driven branch is not the final else')
    loop = [l for l in src.links if l['kind'] == 'table'][0]['loop']
    has_break = any(isinstance(n, ast.Break) for n in walk_own(loop))
    res.check(has_break, 'R-C07-table',
              'pico8.lua.lexer:Lexer._process_token',
              'first matching row wins', 'loop breaks at the first match',
              'the table loop does not stop at the first matching row')


def rule_multiline(ctx, res, src):
    where = 'pico8.lua.lexer:Lexer._process_token'
    mod = src.module
    for op in src.openers:
        cont = op.get('cont')
        loc = mod.loc(op['node'])
        if cont is None:
            res.violation('R-C07-multiline', where,
                          'opener {} has a continuation'.format(
                              op.get('prefixes') or op.get('pattern')),
                          'opener sets no state any branch continues', loc)
            continue
        state = cont['state']
        if op['kind'] == 'prefix' and len(op['prefixes']) == 1 and \
                len(op['prefixes'][0]) > 1:
            pre = op['prefixes'][0]
            term, add = src.comment_terminator(cont)
            ok = term is not None and add == len(term) and \
                pre.startswith(b'--[[') and term == b']]'
            res.check(ok, 'R-C07-multiline', where, 'block comment ' +
                      pre.decode(), 'opener {!r} closes at {!r}, skip {} == '
                      'len(terminator)'.format(pre, term, add),
                      'opener {!r} / terminator {!r} / skip {} do not '
                      'agree'.format(pre, term, add), loc)
            # the opener consumes exactly its own length
            consumed = None
            for st in op['body']:
                if isinstance(st, ast.Assign) and \
                        isinstance(st.targets[0], ast.Name) and \
                        st.targets[0].id == 'i' and \
                        isinstance(st.value, ast.Constant):
                    consumed = st.value.value
            res.check(consumed == len(pre), 'R-C07-multiline', where,
                      'block comment opener length',
                      'consumes {} bytes'.format(consumed),
                      'opener {!r} consumes {} bytes'.format(pre, consumed),
                      loc)
        elif op['kind'] == 'regex':
            t = src.long_string_terminator(cont)
            pat = op['pattern']
            body_pat = op.get('pattern_body')
            lvl_ok = False
            if body_pat is not None:
                # group 1 must be =* and the two patterns the same language
                tree = rx.parse(body_pat)
                groups = [av for (o, av) in tree if str(o) == 'SUBPATTERN']
                if len(groups) == 1:
                    sub = list(groups[0][-1])
                    if len(sub) == 1 and str(sub[0][0]) == 'MAX_REPEAT':
                        lo, hi, inner = sub[0][1]
                        bs = rx._single_byteset(inner)
                        lvl_ok = bs == frozenset(b'=')
                a, b = rx.build(pat), rx.build(body_pat)
                same = rx.language_subset(a, b) is None and \
                    rx.language_subset(b, a) is None
                lvl_ok = lvl_ok and same
            res.check(lvl_ok, 'R-C07-multiline', where,
                      'long string level alphabet',
                      'opener captures =* only (no regex injection into the '
                      'terminator pattern)',
                      'captured level is not =* or the two opener patterns '
                      'differ', loc)
            ok = t is not None and t[1] == '_in_multiline_string_delim' or (
                t is not None and t[1].endswith('_delim'))
            ok = ok and _regex_lit(t[0]) == b']' and _regex_lit(t[2]) == b']'
            res.check(ok, 'R-C07-multiline', where, 'long string terminator',
                      'closes at "]" + level + "]"',
                      'terminator pattern is not ] level ]: {}'.format(t),
                      loc)
        else:
            # quoted string: the closing test compares with the opening quote
            closes = False
            for st in cont['body']:
                for n in walk_own(st):
                    if isinstance(n, ast.Compare) and len(n.ops) == 1 and \
                            isinstance(n.ops[0], ast.Eq) and \
                            isinstance(n.comparators[0], ast.Attribute) and \
                            n.comparators[0].attr.endswith('_delim'):
                        closes = True
            sets = False
            for st in op['body']:
                for n in walk_own(st):
                    if isinstance(n, ast.Assign) and \
                            isinstance(n.targets[0], ast.Attribute) and \
                            n.targets[0].attr.endswith('_delim') and \
                            isinstance(n.value, ast.Subscript):
                        sets = True
            res.check(closes and sets, 'R-C07-multiline', where,
                      'quoted string closes at its opening quote kind',
                      'delimiter recorded at the opener and compared at the '
                      'close', 'quote kind is not recorded/compared', loc)
        # typestate: state reset where the token is appended
        reset = False
        for st in cont['body']:
            for n in walk_own(st):
                if isinstance(n, ast.Call) and isinstance(
                        n.func, ast.Attribute) and n.func.attr == 'append' \
                        and '_tokens' in ast.unparse(n.func.value):
                    blk = _enclosing_block(n)
                    for s2 in blk:
                        if isinstance(s2, ast.Assign) and any(
                                isinstance(t, ast.Attribute) and
                                t.attr == state for t in s2.targets) and \
                                isinstance(s2.value, ast.Constant) and \
                                s2.value.value is None:
                            reset = True
        res.check(reset, 'R-C07-multiline', where,
                  'state {} cleared on close'.format(state),
                  'reset to None next to the token emission',
                  'the state is not reset when the token is emitted: the '
                  'lexer would stay inside the construct', loc)
    # unterminated states raise in process_lines
    pl = src.model.func('pico8.lua.lexer:Lexer.process_lines')
    cfg = cfg_of(pl)
    states = [l['state'] for l in src.links if l['kind'] == 'state']
    for stname in states:
        ok = False
        for n in cfg.nodes:
            if n.kind == 'test' and stname in ast.unparse(n.ast) and \
                    'is not None' in ast.unparse(n.ast):
                tr = cfg.succ_by_label(n, 'true')
                reach = cfg.reachable_from(tr, avoid={n})
                if cfg.raise_exit in reach and cfg.exit not in reach:
                    # and it runs after the loop over lines
                    ok = True
        res.check(ok, 'R-C07-multiline', pl.qual,
                  'unterminated {} raises'.format(stname),
                  'LexerError after the last line',
                  'an unterminated construct is accepted silently', pl.loc)
    res.require_min('R-C07-multiline', 9)


def _regex_lit(p):
    try:
        return leximpl._regex_literal(p)
    except AnalysisError:
        return None


def _enclosing_block(node):
    n = node
    while n is not None and not isinstance(n, ast.stmt):
        n = getattr(n, '_parent', None)
    p = getattr(n, '_parent', None)
    for fld in ('body', 'orelse', 'finalbody'):
        b = getattr(p, fld, None)
        if isinstance(b, list) and n in b:
            return b
    return []


def rule_chunk(ctx, res, src, impl, base):
    where = 'pico8.lua.lexer:_TOKEN_MATCHERS'
    n_ok = 0
    for i, (rg, cls) in enumerate(src.table):
        nfa = impl.rows[base + i].nfa
        _c, reps = rx.partition(nfa.bytesets())
        syms = [b for b in rx.symbols(reps) if b != rx.END]
        # subset construction tracking: seen a newline that is not last
        start = (frozenset([nfa.start]), None, False)
        seen = {start}
        queue = [start]
        bad = None
        while queue and bad is None:
            (S, prev, after_nl) = queue.pop(0)
            for b in syms:
                c = rx.closure(nfa, S, prev, b)
                ns = rx.step(nfa, c, b)
                if not ns:
                    continue
                nst = (ns, rx._prev_key(b), after_nl or prev == 10)
                acc_end = nfa.accept in rx.closure(nfa, ns, rx._prev_key(b),
                                                   rx.END)
                if (after_nl or prev == 10) and acc_end:
                    bad = 'accepts text that continues past a line end'
                if b == 10:
                    # look-ahead past the newline must not matter
                    for b2 in syms:
                        acc2 = nfa.accept in rx.closure(
                            nfa, ns, 10, b2)
                        if acc2 != acc_end:
                            bad = ('acceptance at a line end depends on the '
                                   'byte after it')
                if nst not in seen:
                    seen.add(nst)
                    queue.append(nst)
        inst = 'row {!r} is line-local'.format(rg.pattern.decode('latin-1'))
        if bad:
            res.violation('R-C07-chunk', where, inst, bad)
        else:
            n_ok += 1
    res.holds('R-C07-chunk', where, 'all rows line-local',
              '{} rows: none accepts an inner newline, none looks past a '
              'line end; cross-chunk carriers are only the explicit '
              'multi-line states'.format(n_ok))
    # the driver loop hands each chunk to _process_token until it returns 0
    # and raises on a non-empty remainder
    pl = src.model.func('pico8.lua.lexer:Lexer._process_line')
    cfg = cfg_of(pl)
    raises = [n for n in cfg.nodes if isinstance(n.ast, ast.Raise)]
    guard_ok = False
    for n in cfg.nodes:
        if n.kind == 'test' and isinstance(n.stmt, ast.If) and \
                isinstance(n.ast, ast.Name):
            tr = cfg.succ_by_label(n, 'true')
            reach = cfg.reachable_from(tr, avoid={n})
            if any(r in reach for r in raises) and cfg.exit not in reach:
                guard_ok = True
    res.check(guard_ok, 'R-C07-chunk', pl.qual,
              'non-empty remainder raises',
              'LexerError when no row matches', 'unlexable text is dropped '
              'silently', pl.loc)


def rule_pos(ctx, res, src):
    f = src.f
    where = f.qual
    s = src.s_name
    loops = [n for n in f.node.body if isinstance(n, ast.For)]
    cnt = None
    for lp in loops:
        it = lp.iter
        if isinstance(it, ast.Subscript) and isinstance(it.value, ast.Name) \
                and it.value.id == s and isinstance(it.slice, ast.Slice) and \
                it.slice.lower is None and isinstance(it.slice.upper, ast.Name):
            cnt = lp
    if cnt is None:
        res.violation('R-C07-pos', where, 'position counting loop',
                      'no loop over the consumed extent s[:i] updates the '
                      'position counters', f.loc)
        return
    ret = [n for n in f.node.body if isinstance(n, ast.Return)]
    same_var = bool(ret) and isinstance(ret[-1].value, ast.Name) and \
        ret[-1].value.id == cnt.iter.slice.upper.id
    res.check(same_var, 'R-C07-pos', where, 'counts exactly what is consumed',
              'loop bound is the returned consumed length',
              'the counted extent differs from the consumed extent', f.loc)
    ok = False
    if len(cnt.body) == 1 and isinstance(cnt.body[0], ast.If):
        iff = cnt.body[0]
        t = ast.unparse(iff.test)
        nl = ("b'\\n'[0]" in t or '== 10' in t) and isinstance(
            iff.test, ast.Compare) and isinstance(iff.test.ops[0], ast.Eq)
        body = [ast.unparse(x) for x in iff.body]
        orelse = [ast.unparse(x) for x in iff.orelse]
        line_inc = any('_cur_lineno += 1' in x for x in body)
        char_reset = any(x.replace(' ', '') == 'self._cur_charno=0'
                         for x in body)
        char_inc = orelse == ['self._cur_charno += 1']
        ok = nl and line_inc and char_reset and char_inc and len(body) == 2
    res.check(ok, 'R-C07-pos', where, 'one counter step per byte',
              'newline: line += 1, column = 0; otherwise column += 1',
              'position bookkeeping changed: a byte advances zero or two '
              'counters', f.module.loc(cnt))
    # positions are read before the counting loop
    cfg = cfg_of(f)
    cnt_nodes = cfg.nodes_of(cnt)
    after = cfg.reachable_from(cnt_nodes)
    bad = []
    for n in cfg.nodes:
        if n in after and n not in cnt_nodes and n.ast is not None and \
                n.kind not in ('iter',) and \
                '_cur_lineno' in ast.unparse(n.ast) and n.stmt is not cnt \
                and not any(n.ast is x for x in walk_own(cnt)):
            bad.append(n)
    res.check(not bad, 'R-C07-pos', where,
              'positions recorded before consumption',
              'every token / state start position is read before the '
              'counters advance', 'a position is read after the counters '
              'advanced', f.loc)


def run(ctx, res):
    src = leximpl.LexerSource(ctx)
    impl, base = leximpl.build_impl(src)
    rule_rows(ctx, res, src, impl, base)
    rule_table(ctx, res, src, impl, base)
    rule_multiline(ctx, res, src)
    rule_chunk(ctx, res, src, impl, base)
    numvalue.rule_value(ctx, res, src, impl, base)
    rule_pos(ctx, res, src)
