"""C15 -- P8SCII <-> Unicode is a bijection on all byte strings.

Decided essentially whole: a 256-row table (evaluated from the source) plus
two ten-line converters.  Rules: R-C15-table, R-C15-converters, R-C15-use.
"""
import ast

from ..consteval import UNKNOWN
from ..srcmodel import walk_own, FuncInfo
from .common import assignments_to, unparse

EXPLANATION = (
    'R-C15-table: lua.P8SCII_CHARSET is evaluated from the source (three '
    'list displays and comprehensions) by the constant evaluator; '
    'exhaustively over the finite table: 256 rows, row i has code i, every '
    'spelling is non-empty, UTF-8 encodable, pairwise distinct and no '
    'spelling is a proper prefix of another (256*255 ordered pairs), all '
    'spellings sharing a first code point have equal length, the reverse '
    'map has 256 keys and the width table gives len(spelling) for each first '
    'code point. R-C15-converters: p8scii_to_unicode is the in-order '
    'concatenation of TABLE[b].p8string over the bytes with no filter; '
    'unicode_to_p8scii starts at 0, looks up the width by first code point, '
    'looks the slice of exactly that width up in the reverse map, appends '
    'one byte, advances by exactly that width, until len(s). With a '
    'prefix-free code the greedy parse is the unique parse, hence '
    'u2p(p2u(b)) == b for every byte string (argument, not enumeration). '
    'R-C15-use: the .p8 reader and writer apply exactly these two functions '
    'with UTF-8 on both sides.')

ASSUMPTIONS = [
    'the constant evaluator (pv/consteval.py) and Python str/dict semantics',
    'unique decodability of a prefix-free code (textbook argument)',
]


def rule_table(ctx, res):
    ev = ctx.consts
    where = 'pico8.lua.lua:P8SCII_CHARSET'
    tab = ev.module_const('pico8.lua.lua', 'P8SCII_CHARSET')
    if tab is UNKNOWN or not isinstance(tab, list):
        res.undecided('R-C15-table', where, 'table',
                      'table does not evaluate to a list')
        return
    res.tables['P8SCII_CHARSET'] = len(tab)
    res.check(len(tab) == 256, 'R-C15-table', where, 'row count',
              '256 rows', '{} rows (need 256: the decoder indexes by byte '
              'value)'.format(len(tab)))
    rows = []
    for i, r in enumerate(tab):
        try:
            code, s = r.p8scii, r.p8string
        except AttributeError:
            res.undecided('R-C15-table', where, 'row {}'.format(i),
                          'row is not a P8Char')
            return
        rows.append((code, s))
    bad_idx = [i for i, (c, s) in enumerate(rows) if c != i]
    res.check(not bad_idx, 'R-C15-table', where, 'row i has code i',
              'decoder index == code for all rows',
              'rows whose position differs from their code: {}'.format(
                  bad_idx[:8]))
    bad = []
    for i, (c, s) in enumerate(rows):
        if not isinstance(s, str) or not s:
            bad.append((i, 'empty'))
            continue
        try:
            s.encode('utf-8')
        except UnicodeEncodeError:
            bad.append((i, 'not UTF-8 encodable'))
    res.check(not bad, 'R-C15-table', where, 'spellings non-empty and UTF-8',
              'all {} spellings encodable'.format(len(rows)),
              'bad spellings: {}'.format(bad[:8]))
    strs = [s for (_c, s) in rows if isinstance(s, str)]
    dup = {}
    for i, s in enumerate(strs):
        dup.setdefault(s, []).append(i)
    dups = {repr(s): ix for s, ix in dup.items() if len(ix) > 1}
    res.check(not dups, 'R-C15-table', where, 'spellings pairwise distinct',
              '{} distinct spellings'.format(len(dup)),
              'duplicate spellings (two bytes decode to one text): '
              '{}'.format(dict(list(dups.items())[:5])))
    pre = []
    pairs = 0
    for i, a in enumerate(strs):
        for j, b in enumerate(strs):
            if i != j:
                pairs += 1
                if a != b and b.startswith(a):
                    pre.append((i, j, a, b))
    res.stats['prefix_pairs_examined'] = pairs
    res.check(not pre, 'R-C15-table', where, 'prefix-free',
              'no spelling is a proper prefix of another ({} ordered pairs '
              'examined)'.format(pairs),
              'spelling of row {} is a prefix of row {}: {!r} / {!r}'.format(
                  *(pre[0] if pre else (0, 0, '', ''))))
    firsts = {}
    for s in strs:
        if s:
            firsts.setdefault(s[0], set()).add(len(s))
    amb = {repr(k): sorted(v) for k, v in firsts.items() if len(v) > 1}
    res.check(not amb, 'R-C15-table', where,
              'equal length per first code point',
              'the width table is well defined',
              'first code points with several spelling lengths: {}'.format(
                  amb))
    rev = ev.module_const('pico8.lua.lua', 'UNICODE_TO_P8SCII')
    wid = ev.module_const('pico8.lua.lua', 'UNICODE_CHAR_WIDTHS')
    if rev is UNKNOWN or wid is UNKNOWN or not isinstance(rev, dict) or \
            not isinstance(wid, dict):
        res.undecided('R-C15-table', 'pico8.lua.lua:UNICODE_TO_P8SCII',
                      'reverse tables', 'do not evaluate')
        return
    res.tables['UNICODE_TO_P8SCII'] = len(rev)
    res.tables['UNICODE_CHAR_WIDTHS'] = len(wid)
    ok_rev = len(rev) == len(rows) and all(
        rev.get(s) == c for (c, s) in rows)
    res.check(ok_rev, 'R-C15-table', 'pico8.lua.lua:UNICODE_TO_P8SCII',
              'reverse map inverts the table',
              '{} keys, rev[spelling] == code for every row'.format(len(rev)),
              'reverse map has {} keys / does not invert the table'.format(
                  len(rev)))
    ok_w = all(s and wid.get(s[0]) == len(s) for s in strs)
    res.check(ok_w, 'R-C15-table', 'pico8.lua.lua:UNICODE_CHAR_WIDTHS',
              'width[first code point] == len(spelling)',
              'for all {} spellings'.format(len(strs)),
              'width table disagrees with the spellings')
    res.require_min('R-C15-table', 8)
    return True


def _resolves_to(model, f, expr, const_name):
    r = model.resolve_expr(f.module, expr)
    return bool(r and r[0] == 'const' and r[2] == const_name and
                r[1].name == 'pico8.lua.lua')


def rule_converters(ctx, res):
    model = ctx.model
    # ---- decoder bytes -> text
    q = 'pico8.lua.lua:p8scii_to_unicode'
    f = model.func(q)
    param = f.params()[0]
    rets = [n for n in walk_own(f.node) if isinstance(n, ast.Return)]
    ok = False
    detail = 'unrecognised shape'
    if len(rets) == 1 and isinstance(rets[0].value, ast.Call):
        c = rets[0].value
        if isinstance(c.func, ast.Attribute) and c.func.attr == 'join' and \
                isinstance(c.func.value, ast.Constant) and \
                c.func.value.value == '' and len(c.args) == 1 and \
                isinstance(c.args[0], (ast.GeneratorExp, ast.ListComp)):
            g = c.args[0]
            gen = g.generators[0]
            one = len(g.generators) == 1 and not gen.ifs
            it_ok = isinstance(gen.iter, ast.Name) and gen.iter.id == param
            e = g.elt
            elt_ok = (isinstance(e, ast.Attribute) and e.attr == 'p8string'
                      and isinstance(e.value, ast.Subscript)
                      and _resolves_to(model, f, e.value.value,
                                       'P8SCII_CHARSET')
                      and isinstance(e.value.slice, ast.Name)
                      and isinstance(gen.target, ast.Name)
                      and e.value.slice.id == gen.target.id)
            ok = one and it_ok and elt_ok
            detail = 'no-filter={} iterates-param={} elt-is-TABLE[b].p8string={}'.format(
                one, it_ok, elt_ok)
    if ok:
        rb = [x for x in walk_own(f.node) if isinstance(x, ast.Name) and
              x.id == param and isinstance(x.ctx, ast.Store)]
        if rb:
            ok = False
            detail = 'parameter {} is re-bound before the conversion'.format(
                param)
    if ok:
        res.holds('R-C15-converters', q, 'in-order concatenation',
                  "''.join(P8SCII_CHARSET[b].p8string for b in bs): every "
                  'byte, in order, no filter, no other table', f.loc)
    elif len(rets) == 1 and isinstance(rets[0].value, ast.Call) and \
            isinstance(rets[0].value.func, ast.Attribute) and \
            rets[0].value.func.attr == 'join':
        res.violation('R-C15-converters', q, 'in-order concatenation',
                      'decoder is not the plain concatenation of the table '
                      'spellings: ' + detail, f.loc)
    else:
        res.undecided('R-C15-converters', q, 'in-order concatenation',
                      'decoder written in an idiom outside the model', f.loc)

    # ---- encoder text -> bytes
    q = 'pico8.lua.lua:unicode_to_p8scii'
    f = model.func(q)
    s = f.params()[0]
    loops = [n for n in walk_own(f.node) if isinstance(n, ast.While)]
    if len(loops) != 1:
        res.undecided('R-C15-converters', q, 'greedy parse',
                      'expected one while loop', f.loc)
        return
    lp = loops[0]
    t = lp.test
    # while idx < len(s)
    idx = None
    if isinstance(t, ast.Compare) and len(t.ops) == 1 and \
            isinstance(t.ops[0], ast.Lt) and isinstance(t.left, ast.Name) and \
            isinstance(t.comparators[0], ast.Call) and \
            isinstance(t.comparators[0].func, ast.Name) and \
            t.comparators[0].func.id == 'len' and \
            isinstance(t.comparators[0].args[0], ast.Name) and \
            t.comparators[0].args[0].id == s:
        idx = t.left.id
    if idx is None:
        res.undecided('R-C15-converters', q, 'greedy parse',
                      'loop condition is not idx < len(s)', f.loc)
        return
    init = [v for (st, v) in assignments_to(f.node, idx)
            if isinstance(st, ast.Assign)]
    init_ok = len(init) == 1 and isinstance(init[0], ast.Constant) and \
        init[0].value == 0
    res.check(init_ok, 'R-C15-converters', q, 'parse starts at 0',
              'index initialised to 0', 'index not initialised to 0', f.loc)

    # substitute single-assignment locals of the loop body
    local = {}
    for st in lp.body:
        if isinstance(st, ast.Assign) and len(st.targets) == 1 and \
                isinstance(st.targets[0], ast.Name):
            local[st.targets[0].id] = st.value

    def width_expr(e, depth=0):
        """e denotes WIDTHS[s[idx]]"""
        if isinstance(e, ast.Name) and e.id in local and depth < 3:
            return width_expr(local[e.id], depth + 1)
        return (isinstance(e, ast.Subscript) and
                _resolves_to(model, f, e.value, 'UNICODE_CHAR_WIDTHS') and
                isinstance(e.slice, ast.Subscript) and
                isinstance(e.slice.value, ast.Name) and
                e.slice.value.id == s and
                isinstance(e.slice.slice, ast.Name) and
                e.slice.slice.id == idx)

    # idx += width
    incs = [st for st in walk_own(lp) if isinstance(st, ast.AugAssign) and
            isinstance(st.target, ast.Name) and st.target.id == idx]
    other_idx_stores = [st for st in walk_own(lp)
                        if isinstance(st, ast.Assign) and any(
                            isinstance(x, ast.Name) and x.id == idx
                            for tg in st.targets for x in walk_own(tg))]
    adv_ok = (len(incs) == 1 and not other_idx_stores and
              isinstance(incs[0].op, ast.Add) and width_expr(incs[0].value)
              and incs[0] in lp.body)
    res.check(adv_ok, 'R-C15-converters', q,
              'advance by the looked-up width',
              'idx += WIDTHS[s[idx]] exactly once per iteration',
              'the index does not advance by exactly the width of the '
              'spelling just consumed ({})'.format(
                  unparse(incs[0]) if incs else 'no increment'),
              f.module.loc(incs[0]) if incs else f.loc)
    # result.append(REV[s[idx:idx+width]])
    appends = [c for c in walk_own(lp) if isinstance(c, ast.Call) and
               isinstance(c.func, ast.Attribute) and c.func.attr == 'append']
    app_ok = False
    if len(appends) == 1 and appends[0].args:
        a = appends[0].args[0]
        if isinstance(a, ast.Subscript) and \
                _resolves_to(model, f, a.value, 'UNICODE_TO_P8SCII') and \
                isinstance(a.slice, ast.Subscript) and \
                isinstance(a.slice.value, ast.Name) and \
                a.slice.value.id == s and \
                isinstance(a.slice.slice, ast.Slice):
            sl = a.slice.slice
            lo_ok = isinstance(sl.lower, ast.Name) and sl.lower.id == idx
            hi = sl.upper
            hi_ok = (isinstance(hi, ast.BinOp) and isinstance(hi.op, ast.Add)
                     and isinstance(hi.left, ast.Name) and hi.left.id == idx
                     and width_expr(hi.right)) and sl.step is None
            app_ok = lo_ok and hi_ok
    # the append must precede the increment in the body
    order_ok = False
    if appends and incs:
        try:
            ia = [i for i, st in enumerate(lp.body)
                  if any(c is appends[0] for c in walk_own(st))][0]
            ii = lp.body.index(incs[0])
            order_ok = ia < ii
        except (IndexError, ValueError):
            order_ok = False
    res.check(app_ok and order_ok, 'R-C15-converters', q,
              'one byte per step from the same slice',
              'result.append(REV[s[idx:idx+width]]) before the advance',
              'the looked-up slice is not s[idx:idx+width] of the reverse '
              'map (or happens after the advance)',
              f.module.loc(appends[0]) if appends else f.loc)
    # the text parsed is the argument as given: no re-binding of it
    rebinds = [st for st in walk_own(f.node)
               if isinstance(st, (ast.Assign, ast.AugAssign, ast.AnnAssign,
                                  ast.For, ast.NamedExpr, ast.With))
               and any(isinstance(x, ast.Name) and x.id == s and
                       isinstance(x.ctx, ast.Store) for x in walk_own(st)
                       if x is not st)]
    res.check(not rebinds, 'R-C15-converters', q,
              'the text parsed is the argument as given',
              'parameter {} is never re-bound'.format(s),
              'the text is altered before it is parsed ({}): some text no '
              'longer converts back to the bytes it came from'.format(
                  unparse(rebinds[0], 60) if rebinds else ''),
              f.module.loc(rebinds[0]) if rebinds else f.loc)
    # the collected list starts empty and only the loop appends to it
    acc = None
    if appends and isinstance(appends[0].func.value, ast.Name):
        acc = appends[0].func.value.id
    acc_ok = False
    if acc:
        binds = assignments_to(f.node, acc)
        acc_ok = (len(binds) == 1 and isinstance(binds[0][1], ast.List) and
                  not binds[0][1].elts and binds[0][0] in f.node.body and
                  f.node.body.index(binds[0][0]) < f.node.body.index(lp))
        muts = [c for c in walk_own(f.node) if isinstance(c, ast.Call) and
                isinstance(c.func, ast.Attribute) and
                isinstance(c.func.value, ast.Name) and c.func.value.id == acc
                and c is not appends[0]]
        acc_ok = acc_ok and not muts
    res.check(acc_ok, 'R-C15-converters', q,
              'collected bytes start empty, one append site',
              'result = [] before the loop; no other mutation',
              'the collected byte list is not initialised empty or is '
              'changed outside the one append', f.loc)
    rets = [n for n in walk_own(f.node) if isinstance(n, ast.Return)]
    ret_ok = len(rets) == 1 and isinstance(rets[0].value, ast.Call) and \
        isinstance(rets[0].value.func, ast.Name) and \
        rets[0].value.func.id == 'bytes' and \
        len(rets[0].value.args) == 1 and \
        isinstance(rets[0].value.args[0], ast.Name) and \
        rets[0].value.args[0].id == acc and \
        rets[0] in f.node.body and f.node.body.index(rets[0]) > \
        f.node.body.index(lp)
    res.check(ret_ok, 'R-C15-converters', q, 'returns all collected bytes',
              'bytes(result) after the loop', 'return changed', f.loc)
    res.require_min('R-C15-converters', 7)


def rule_use(ctx, res):
    model = ctx.model
    q = 'pico8.game.formatter.p8:_get_raw_data_from_p8_file'
    f = model.func(q)
    found = False
    for n in model.own_nodes(f.node):
        if isinstance(n, ast.Call):
            kind, targets = model.resolve_call(f, n)
            if any(isinstance(t, FuncInfo) and
                   t.qual == 'pico8.lua.lua:unicode_to_p8scii'
                   for t in targets):
                a = n.args[0] if n.args else None
                utf8 = (isinstance(a, ast.Call) and
                        isinstance(a.func, ast.Name) and a.func.id == 'str'
                        and any(k.arg == 'encoding' and
                                isinstance(k.value, ast.Constant) and
                                k.value.value.lower().replace('-', '') ==
                                'utf8' for k in a.keywords))
                found = True
                res.check(utf8, 'R-C15-use', q,
                          'reader: UTF-8 decode then unicode_to_p8scii',
                          '', 'reader does not decode the line as UTF-8 '
                          'before converting', f.module.loc(n))
    if not found:
        res.violation('R-C15-use', q,
                      'reader: UTF-8 decode then unicode_to_p8scii',
                      'the .p8 reader no longer converts Unicode text to '
                      'P8SCII', f.loc)
    q = 'pico8.game.formatter.p8:P8Formatter.to_file'
    f = model.func(q)
    found = False
    for n in model.own_nodes(f.node):
        if isinstance(n, ast.Call):
            kind, targets = model.resolve_call(f, n)
            if any(isinstance(t, FuncInfo) and
                   t.qual == 'pico8.lua.lua:p8scii_to_unicode'
                   for t in targets):
                p = getattr(n, '_parent', None)
                utf8 = (isinstance(p, ast.Call) and
                        isinstance(p.func, ast.Name) and p.func.id == 'bytes'
                        and len(p.args) == 2 and
                        isinstance(p.args[1], ast.Constant) and
                        str(p.args[1].value).lower().replace('-', '') ==
                        'utf8')
                pp = getattr(p, '_parent', None)
                written = (isinstance(pp, ast.Call) and
                           isinstance(pp.func, ast.Attribute) and
                           pp.func.attr == 'write')
                found = True
                res.check(utf8 and written, 'R-C15-use', q,
                          'writer: p8scii_to_unicode then UTF-8 encode',
                          '', 'writer does not encode the converted line as '
                          'UTF-8 into the stream', f.module.loc(n))
    if not found:
        res.violation('R-C15-use', q,
                      'writer: p8scii_to_unicode then UTF-8 encode',
                      'the .p8 writer no longer converts P8SCII to Unicode '
                      'text', f.loc)
    res.require_min('R-C15-use', 2)


def extra_coverage(res):
    return {'exhaustive': True}


def run(ctx, res):
    rule_table(ctx, res)
    rule_converters(ctx, res)
    rule_use(ctx, res)
