"""C15 -- P8SCII <-> Unicode is a bijection on all byte strings.

Decided essentially whole: a 256-row table (evaluated from the source) plus
two ten-line converters.  Rules: R-C15-table, R-C15-converters, R-C15-use.
"""
import ast

from ..core import AnalysisError

from ..consteval import UNKNOWN
from ..srcmodel import walk_own, FuncInfo
from .common import assignments_to, unparse

EXPLANATION = (
    'R-C15-table: lua.P8SCII_CHARSET is evaluated from the source (three '
    'list displays and comprehensions) by the constant evaluator; '
    'exhaustively over the finite table: 256 rows, row i has code i, every '
    'spelling is non-empty, UTF-8 encodable, pairwise distinct and no '
    'spelling is a proper prefix of another (256*255 ordered pairs), all '
    'spellings sharing a first code point have equal length, the reverse '
    'map has 256 keys and the width table gives len(spelling) for each first '
    'code point. R-C15-converters: p8scii_to_unicode is the in-order '
    'concatenation of TABLE[b].p8string over the bytes with no filter; '
    'unicode_to_p8scii starts at 0, looks up the width by first code point, '
    'looks the slice of exactly that width up in the reverse map, appends '
    'one byte, advances by exactly that width, until len(s). With a '
    'prefix-free code the greedy parse is the unique parse, hence '
    'u2p(p2u(b)) == b for every byte string (argument, not enumeration). '
    'R-C15-use: the .p8 reader and writer apply exactly these two functions '
    'with UTF-8 on both sides.')

ASSUMPTIONS = [
    'the constant evaluator (pv/consteval.py) and Python str/dict semantics',
    'unique decodability of a prefix-free code (textbook argument)',
]


def rule_table(ctx, res):
    ev = ctx.consts
    where = 'pico8.lua.lua:P8SCII_CHARSET'
    tab = ev.module_const('pico8.lua.lua', 'P8SCII_CHARSET')
    if tab is UNKNOWN or not isinstance(tab, list):
        res.undecided('R-C15-table', where, 'table',
                      'table does not evaluate to a list')
        return
    res.tables['P8SCII_CHARSET'] = len(tab)
    res.check(len(tab) == 256, 'R-C15-table', where, 'row count',
              '256 rows', '{} rows (need 256: the decoder indexes by byte '
              'value)'.format(len(tab)))
    rows = []
    for i, r in enumerate(tab):
        try:
            code, s = r.p8scii, r.p8string
        except AttributeError:
            res.undecided('R-C15-table', where, 'row {}'.format(i),
                          'row is not a P8Char')
            return
        rows.append((code, s))
    bad_idx = [i for i, (c, s) in enumerate(rows) if c != i]
    res.check(not bad_idx, 'R-C15-table', where, 'row i has code i',
              'decoder index == code for all rows',
              'rows whose position differs from their code: {}'.format(
                  bad_idx[:8]))
    bad = []
    for i, (c, s) in enumerate(rows):
        if not isinstance(s, str) or not s:
            bad.append((i, 'empty'))
            continue
        try:
            s.encode('utf-8')
        except UnicodeEncodeError:
            bad.append((i, 'not UTF-8 encodable'))
    res.check(not bad, 'R-C15-table', where, 'spellings non-empty and UTF-8',
              'all {} spellings encodable'.format(len(rows)),
              'bad spellings: {}'.format(bad[:8]))
    strs = [s for (_c, s) in rows if isinstance(s, str)]
    dup = {}
    for i, s in enumerate(strs):
        dup.setdefault(s, []).append(i)
    dups = {repr(s): ix for s, ix in dup.items() if len(ix) > 1}
    res.check(not dups, 'R-C15-table', where, 'spellings pairwise distinct',
              '{} distinct spellings'.format(len(dup)),
              'duplicate spellings (two bytes decode to one text): '
              '{}'.format(dict(list(dups.items())[:5])))
    pre = []
    pairs = 0
    for i, a in enumerate(strs):
        for j, b in enumerate(strs):
            if i != j:
                pairs += 1
                if a != b and b.startswith(a):
                    pre.append((i, j, a, b))
    res.stats['prefix_pairs_examined'] = pairs
    res.check(not pre, 'R-C15-table', where, 'prefix-free',
              'no spelling is a proper prefix of another ({} ordered pairs '
              'examined)'.format(pairs),
              'spelling of row {} is a prefix of row {}: {!r} / {!r}'.format(
                  *(pre[0] if pre else (0, 0, '', ''))))
    firsts = {}
    for s in strs:
        if s:
            firsts.setdefault(s[0], set()).add(len(s))
    amb = {repr(k): sorted(v) for k, v in firsts.items() if len(v) > 1}
    res.check(not amb, 'R-C15-table', where,
              'equal length per first code point',
              'the width table is well defined',
              'first code points with several spelling lengths: {}'.format(
                  amb))
    rev = ev.module_const('pico8.lua.lua', 'UNICODE_TO_P8SCII')
    wid = ev.module_const('pico8.lua.lua', 'UNICODE_CHAR_WIDTHS')
    if rev is UNKNOWN or wid is UNKNOWN or not isinstance(rev, dict) or \
            not isinstance(wid, dict):
        res.undecided('R-C15-table', 'pico8.lua.lua:UNICODE_TO_P8SCII',
                      'reverse tables', 'do not evaluate')
        return
    res.tables['UNICODE_TO_P8SCII'] = len(rev)
    res.tables['UNICODE_CHAR_WIDTHS'] = len(wid)
    ok_rev = len(rev) == len(rows) and all(
        rev.get(s) == c for (c, s) in rows)
    res.check(ok_rev, 'R-C15-table', 'pico8.lua.lua:UNICODE_TO_P8SCII',
              'reverse map inverts the table',
              '{} keys, rev[spelling] == code for every row'.format(len(rev)),
              'reverse map has {} keys / does not invert the table'.format(
                  len(rev)))
    ok_w = all(s and wid.get(s[0]) == len(s) for s in strs)
    res.check(ok_w, 'R-C15-table', 'pico8.lua.lua:UNICODE_CHAR_WIDTHS',
              'width[first code point] == len(spelling)',
              'for all {} spellings'.format(len(strs)),
              'width table disagrees with the spellings')
    res.require_min('R-C15-table', 8)
    return True


def _resolves_to(model, f, expr, const_name):
    r = model.resolve_expr(f.module, expr)
    return bool(r and r[0] == 'const' and r[2] == const_name and
                r[1].name == 'pico8.lua.lua')


def rule_converters(ctx, res):
    from ..absint.symbody import SymBody
    model = ctx.model
    u = ast.unparse
    # ---- decoder bytes -> text ------------------------------------------------
    q = 'pico8.lua.lua:p8scii_to_unicode'
    f = model.func(q)
    param = f.params()[0]
    paths = SymBody(ctx, f).run(f.node.body)
    ok = False
    detail = 'unrecognised shape'
    if len(paths) == 1 and paths[0].end == 'return' and \
            paths[0].ret is not None and not paths[0].conds:
        c = paths[0].ret
        if isinstance(c, ast.Call) and isinstance(c.func, ast.Attribute) and \
                c.func.attr == 'join' and \
                isinstance(c.func.value, ast.Constant) and \
                c.func.value.value == '' and len(c.args) == 1 and \
                isinstance(c.args[0], (ast.GeneratorExp, ast.ListComp)):
            g = c.args[0]
            gen = g.generators[0]
            one = len(g.generators) == 1 and not gen.ifs
            it_ok = u(gen.iter) == param
            e = g.elt
            elt_ok = (isinstance(e, ast.Attribute) and e.attr == 'p8string'
                      and isinstance(e.value, ast.Subscript)
                      and _resolves_to(model, f, e.value.value,
                                       'P8SCII_CHARSET')
                      and isinstance(e.value.slice, ast.Name)
                      and isinstance(gen.target, ast.Name)
                      and e.value.slice.id == gen.target.id)
            ok = one and it_ok and elt_ok
            detail = 'no-filter={} iterates-param={} ' \
                     'elt-is-TABLE[b].p8string={}'.format(one, it_ok, elt_ok)
            if any(ev[0] not in ('bind',) for ev in paths[0].events):
                ok = False
                detail = 'the decoder does something besides building the text'
            if ok:
                res.holds('R-C15-converters', q, 'in-order concatenation',
                          "''.join(P8SCII_CHARSET[b].p8string for b in bs): "
                          'every byte, in order, no filter, no other table',
                          f.loc)
            else:
                res.violation('R-C15-converters', q, 'in-order concatenation',
                              'decoder is not the plain concatenation of the '
                              'table spellings: ' + detail, f.loc)
            detail = None
    if detail == 'unrecognised shape':
        res.undecided('R-C15-converters', q, 'in-order concatenation',
                      'decoder written in an idiom outside the model', f.loc)

    # ---- encoder text -> bytes ------------------------------------------------
    q = 'pico8.lua.lua:unicode_to_p8scii'
    f = model.func(q)
    s = f.params()[0]
    loops = [n for n in f.node.body if isinstance(n, ast.While)]
    if len(loops) != 1:
        res.undecided('R-C15-converters', q, 'greedy parse',
                      'expected one while loop at the top level', f.loc)
        return
    lp = loops[0]
    sym = SymBody(ctx, f)
    i_lp = f.node.body.index(lp)
    pre = sym.run(f.node.body[:i_lp])
    rebinds0 = [x for x in walk_own(f.node) if isinstance(x, ast.Name) and
                x.id == s and isinstance(x.ctx, ast.Store)]
    if len(pre) != 1:
        if rebinds0:
            res.violation('R-C15-converters', q,
                          'the text parsed is the argument as given',
                          'the text is altered before it is parsed: some '
                          'text no longer converts back to the bytes it came '
                          'from', f.module.loc(rebinds0[0]))
            return
        res.undecided('R-C15-converters', q, 'greedy parse',
                      'branches before the loop', f.loc)
        return
    env0 = pre[0].env
    carried = {x.id for x in ast.walk(lp) if isinstance(x, ast.Name) and
               isinstance(x.ctx, ast.Store)}
    t = sym.S(lp.test, {k: v for k, v in env0.items() if k not in carried})
    idx = None
    if isinstance(t, ast.Compare) and len(t.ops) == 1 and \
            isinstance(t.ops[0], ast.Lt) and isinstance(t.left, ast.Name) and \
            u(t.comparators[0]) == 'len({})'.format(s):
        idx = t.left.id
    if idx is None:
        res.undecided('R-C15-converters', q, 'greedy parse',
                      'loop condition is not idx < len(s): ' + u(t)[:50],
                      f.loc)
        return
    # the text parsed is the argument as given
    rebinds = [x for x in walk_own(f.node) if isinstance(x, ast.Name) and
               x.id == s and isinstance(x.ctx, ast.Store)]
    res.check(not rebinds, 'R-C15-converters', q,
              'the text parsed is the argument as given',
              'parameter {} is never re-bound'.format(s),
              'the text is altered before it is parsed: some text no longer '
              'converts back to the bytes it came from',
              f.module.loc(rebinds[0]) if rebinds else f.loc)
    init = env0.get(idx)
    res.check(isinstance(init, ast.Constant) and init.value == 0 and
              not isinstance(init.value, bool), 'R-C15-converters', q,
              'parse starts at 0', 'index initialised to 0',
              'index not initialised to 0 ({})'.format(
                  u(init) if init is not None else None), f.loc)
    env = {k: v for k, v in env0.items() if k not in carried}
    acc = [e[1] for e in pre[0].events if e[0] == 'bind' and
           isinstance(e[2], ast.List) and not e[2].elts]
    body = sym.run(lp.body, {k: v for k, v in env.items() if k not in acc})
    W = 'UNICODE_CHAR_WIDTHS[{}[{}]]'.format(s, idx)
    want_adv = '{} + {}'.format(idx, W)
    want_app = 'UNICODE_TO_P8SCII[{0}[{1}:{1} + {2}]]'.format(s, idx, W)
    adv_ok = app_ok = len(body) == 1 and not body[0].conds and \
        body[0].end == 'fall'
    got_adv = got_app = None
    accname = None
    if adv_ok:
        p = body[0]
        got_adv = u(p.env[idx]) if idx in p.env else idx
        adv_ok = got_adv == want_adv
        calls = [e for e in p.events if e[0] == 'call']
        others = [e for e in p.events if e[0] not in ('call',)]
        app_ok = len(calls) == 1 and not others and \
            isinstance(calls[0][1], ast.Call) and \
            isinstance(calls[0][1].func, ast.Attribute) and \
            calls[0][1].func.attr == 'append' and \
            isinstance(calls[0][1].func.value, ast.Name) and \
            len(calls[0][1].args) == 1
        if app_ok:
            accname = calls[0][1].func.value.id
            got_app = u(calls[0][1].args[0])
            app_ok = got_app == want_app and accname in acc
    res.check(adv_ok, 'R-C15-converters', q,
              'advance by the looked-up width',
              'idx += WIDTHS[s[idx]] exactly once per iteration',
              'the index does not advance by exactly the width of the '
              'spelling just consumed ({})'.format(got_adv), f.loc)
    res.check(app_ok, 'R-C15-converters', q,
              'one byte per step from the same slice',
              'result.append(REV[s[idx:idx+width]]) with idx as it was at '
              'the start of the step',
              'the looked-up slice is not s[idx:idx+width] of the reverse '
              'map ({})'.format(got_app), f.loc)
    res.check(accname is not None and accname in acc, 'R-C15-converters', q,
              'collected bytes start empty, one append site',
              'result = [] before the loop; no other mutation',
              'the collected byte list is not initialised empty or is '
              'changed outside the one append', f.loc)
    post = sym.run(f.node.body[i_lp + 1:], {})
    ret_ok = len(post) == 1 and post[0].end == 'return' and \
        post[0].ret is not None and not post[0].events and \
        u(post[0].ret) == 'bytes({})'.format(accname)
    res.check(ret_ok, 'R-C15-converters', q, 'returns all collected bytes',
              'bytes(result) after the loop', 'return changed', f.loc)
    res.require_min('R-C15-converters', 7)


def rule_use(ctx, res):
    model = ctx.model
    q = 'pico8.game.formatter.p8:_get_raw_data_from_p8_file'
    f = model.func(q)
    found = False
    for n in model.own_nodes(f.node):
        if isinstance(n, ast.Call):
            kind, targets = model.resolve_call(f, n)
            if any(isinstance(t, FuncInfo) and
                   t.qual == 'pico8.lua.lua:unicode_to_p8scii'
                   for t in targets):
                a = n.args[0] if n.args else None
                from .. import norm as _norm
                if a is not None:
                    a = _norm.subst_locals(f.node, a)
                if isinstance(a, ast.Call) and \
                        isinstance(a.func, ast.Attribute) and \
                        a.func.attr == 'decode' and (
                            not a.args or (isinstance(a.args[0], ast.Constant)
                                           and str(a.args[0].value).lower()
                                           .replace('-', '') == 'utf8')):
                    found = True
                    res.holds('R-C15-use', q,
                              'reader: UTF-8 decode then unicode_to_p8scii',
                              '', f.module.loc(n))
                    continue
                utf8 = (isinstance(a, ast.Call) and
                        isinstance(a.func, ast.Name) and a.func.id == 'str'
                        and any(k.arg == 'encoding' and
                                isinstance(k.value, ast.Constant) and
                                k.value.value.lower().replace('-', '') ==
                                'utf8' for k in a.keywords))
                found = True
                res.check(utf8, 'R-C15-use', q,
                          'reader: UTF-8 decode then unicode_to_p8scii',
                          '', 'reader does not decode the line as UTF-8 '
                          'before converting', f.module.loc(n))
    if not found:
        res.violation('R-C15-use', q,
                      'reader: UTF-8 decode then unicode_to_p8scii',
                      'the .p8 reader no longer converts Unicode text to '
                      'P8SCII', f.loc)
    from .c03 import rule_reader_lines
    rule_reader_lines(ctx, res, 'R-C15-use')
    q = 'pico8.game.formatter.p8:P8Formatter.to_file'
    f = model.func(q)
    from .c03 import _is_utf8_of_conversion
    from .. import norm
    conv_calls = []
    for (g, n) in norm.region_nodes(ctx, f):
        if isinstance(n, ast.Call):
            kind, targets = model.resolve_call(g, n)
            if any(isinstance(t, FuncInfo) and
                   t.qual == 'pico8.lua.lua:p8scii_to_unicode'
                   for t in targets):
                conv_calls.append((g, n))
    if not conv_calls:
        res.violation('R-C15-use', q,
                      'writer: p8scii_to_unicode then UTF-8 encode',
                      'the .p8 writer no longer converts P8SCII to Unicode '
                      'text', f.loc)
    for (g, n) in conv_calls:
        var = n.args[0].id if n.args and isinstance(n.args[0], ast.Name) \
            else None
        ok = False
        for w_ in walk_own(g.node):
            if isinstance(w_, ast.Call) and \
                    isinstance(w_.func, ast.Attribute) and \
                    w_.func.attr == 'write' and len(w_.args) == 1 and \
                    var is not None and \
                    _is_utf8_of_conversion(model, g, w_.args[0], var):
                ok = True
        res.check(ok, 'R-C15-use', q,
                  'writer: p8scii_to_unicode then UTF-8 encode',
                  '', 'writer does not encode the converted line as '
                  'UTF-8 into the stream', g.module.loc(n))
    res.require_min('R-C15-use', 2)


def extra_coverage(res):
    return {'exhaustive': True}


def rule_converters_evaluated(ctx, res):
    """both converters evaluated (absint/cx.py) on inputs of unknown content:
    p8scii_to_unicode on three symbolic bytes must be the three table
    spellings in order; unicode_to_p8scii on three unknown code points must,
    for every way the width table can classify them, look up exactly the
    consecutive slices of those widths in the reverse table, in order, from
    position 0 to the end.  -> set of directions decided"""
    from ..absint import cx as CX
    from ..absint.symx import BV
    L = 'pico8.lua.lua'
    done = set()
    cxi = CX.Cx(ctx.model, ctx.consts)
    mod = ctx.model.module(L)
    dec = ctx.model.func(L + ':p8scii_to_unicode')
    enc = ctx.model.func(L + ':unicode_to_p8scii')
    # ---- decoder --------------------------------------------------------------
    try:
        table = ctx.consts.module_const(L, 'P8SCII_CHARSET')
        want_tab = [getattr(x, 'p8string') for x in table]
        problem = None
        for n in (0, 1, 3):
            bs = [BV.source(('in', k), 8) for k in range(n)]
            paths = cxi.explore(lambda: cxi.call_function(
                dec, [CX.Seq('bytes', list(bs))], {}))
            if len(paths) != 1 or paths[0][0]:
                raise CX.CxError('decoder branches on the bytes')
            kind, val = paths[0][1]
            if kind == 'raise':
                problem = 'raises {} on {} bytes'.format(val.tname, n)
                break
            items = cxi.items(val) if not isinstance(val, str) else list(val)
            if cxi.kind_of(val) != 'str' and val != '':
                problem = 'returns a {}'.format(cxi.kind_of(val))
                break
            if len(items) != n:
                problem = '{} bytes give {} pieces of text'.format(
                    n, len(items))
                break
            for k, it in enumerate(items):
                if not (isinstance(it, CX.SymSel) and it.index == bs[k] and
                        list(it.table) == want_tab):
                    problem = ('piece {} of the text is {} instead of the '
                               'table spelling of byte {}'.format(k, it, k))
                    break
            if problem:
                break
        res.check(problem is None, 'R-C15-converters', dec.qual,
                  'in-order concatenation (evaluated)',
                  'p8scii_to_unicode on 0, 1 and 3 symbolic bytes: the text '
                  'is P8SCII_CHARSET[b].p8string for each byte, in order',
                  'decoder is not the plain concatenation of the table '
                  'spellings: {}'.format(problem), dec.loc, semantic=True)
        done.add('decoder')
    except AnalysisError as e:
        res.info('R-C15-converters', dec.qual, 'decoder not followed by the '
                 'evaluation', str(e)[:160])
    # ---- encoder --------------------------------------------------------------
    try:
        widths = cxi.global_name(mod, 'UNICODE_CHAR_WIDTHS')
        reverse = cxi.global_name(mod, 'UNICODE_TO_P8SCII')
        if not isinstance(widths, dict) or not isinstance(reverse, dict):
            raise CX.CxError('width / reverse tables are not dictionaries')
        problem = None
        n_paths = 0
        for n in (0, 1, 3):
            cps = [CX.SymCp(k) for k in range(n)]
            paths = cxi.explore(lambda: cxi.call_function(
                enc, [CX.Seq('str', list(cps)) if n else ''], {}))
            for conds, (kind, val) in paths:
                n_paths += 1
                # the widths this path assumed, per first code point
                w_of = {}
                known = {}          # code point index -> decided character
                ok_path = True
                for (desc, v) in conds:
                    if desc[0] == 'code point':
                        if v:
                            known[desc[1]] = desc[3]
                        continue
                    if desc[0] != 'dict value':
                        ok_path = False
                        continue
                    if v and desc[1] == id(widths):
                        w_of[desc[2]] = int(desc[3])
                if kind == 'raise':
                    if val.tname != 'KeyError':
                        problem = 'raises {} on unknown text'.format(
                            val.tname)
                    continue
                if not ok_path:
                    problem = 'branches on something other than the width ' \
                              'table and the code points'
                    break
                items = cxi.items(val)
                # the text as this path knows it
                text = [known.get(k, cps[k]) for k in range(n)]
                when = ''
                if known:
                    when = ' when ' + ', '.join(
                        'code point {} is {!r}'.format(k, c)
                        for k, c in sorted(known.items()))
                # expected greedy parse under this path's widths
                want = []
                pos = 0
                bad_w = False
                while pos < n:
                    first = text[pos]
                    if isinstance(first, str):
                        w = widths.get(first)
                    else:
                        w = w_of.get(repr((first,)))
                    if w is None:
                        bad_w = True
                        break
                    piece = tuple(text[pos:pos + w])
                    if all(isinstance(x, str) for x in piece):
                        piece = reverse.get(''.join(piece), piece)
                    want.append(piece)
                    pos += w
                if bad_w:
                    problem = ('a glyph at position {} is converted without '
                               'its width being looked up under its first '
                               'code point'.format(pos))
                    break
                got = []
                for it in items:
                    if isinstance(it, CX.SymDictVal) and it.d is reverse:
                        got.append(tuple(it.key))
                    else:
                        got.append(it)
                if got != want:
                    problem = ('with glyph widths {}{} the bytes come from '
                               'the text pieces {} instead of {}'.format(
                                   sorted(w_of.values()), when, got, want))
                    break
            if problem:
                break
        res.check(problem is None, 'R-C15-converters', enc.qual,
                  'greedy width-directed parse from 0 to the end (evaluated)',
                  'unicode_to_p8scii on 0, 1 and 3 unknown code points, {} '
                  'paths over the width table: every byte is '
                  'UNICODE_TO_P8SCII[<the next width-many code points>], no '
                  'piece skipped, repeated or altered'.format(n_paths),
                  'encoder is not the width-directed parse of its argument: '
                  '{}'.format(problem), enc.loc, semantic=True)
        done.add('encoder')
    except AnalysisError as e:
        res.info('R-C15-converters', enc.qual, 'encoder not followed by the '
                 'evaluation', str(e)[:160])
    return done


def run(ctx, res):
    rule_table(ctx, res)
    done = set()
    try:
        done = rule_converters_evaluated(ctx, res)
    except AnalysisError as e:
        res.info('R-C15-converters', 'rule_converters_evaluated', 'analysis',
                 str(e)[:160])
    if done != {'decoder', 'encoder'}:
        rule_converters(ctx, res)
    rule_use(ctx, res)
