"""C20 -- #include splices exactly the named file or cart tab.

Rules: R-C20-identity, R-C20-kinds, R-C20-tabs, R-C20-missing,
R-C14-splice (shared).
"""
import ast

from .. import rx
from ..cfg import cfg_of
from ..consteval import UNKNOWN, Regex
from ..srcmodel import walk_own, FuncInfo, const_str
from .common import assignments_to, unparse
from . import splice

EXPLANATION = (
    'R-C20-identity: process_includes is one loop over the cart lines; a '
    'line the include recogniser does not match is yielded as the very same '
    'value exactly once and in place, a matching line yields nothing of '
    'itself, included lines are yielded between predecessor and successor '
    '(single loop, no buffering). R-C20-kinds: the alternatives of the '
    'recogniser\'s extension group (regex AST) are exactly the three kinds '
    'dispatched; .p8 -> P8Formatter, .p8.png -> P8PNGFormatter, both loaded '
    'with do_includes=False (no nested expansion) and filtered through '
    'lines_for_tab(<cart code lines>, n); .lua -> the file\'s own lines, '
    'unfiltered; `:n` is parsed as decimal after the colon. R-C20-tabs: the '
    'tab counter starts at 0, advances by one on every separator line, a '
    'code line is yielded iff no tab is selected or the selected tab equals '
    'the counter, separators only when no tab is selected. R-C20-missing: a '
    'raising isfile test on the path that is opened dominates both opens. '
    'R-C14-splice: every spliced line is newline-terminated.')

ASSUMPTIONS = [
    'equality with a reference splice for concrete files is a runtime '
    'equality; decided here: the structure that makes it hold',
    'the recogniser\'s looseness (#include x.lua.bak matches) is outside the '
    'statement',
]

P8 = 'pico8.game.formatter.p8'


def rule_identity(ctx, res):
    model = ctx.model
    q = P8 + ':process_includes'
    f = model.func(q)
    loops = [n for n in f.node.body if isinstance(n, ast.For)]
    src_param = f.params()[0]
    main = [lp for lp in loops if isinstance(lp.iter, ast.Name) and
            lp.iter.id == src_param and isinstance(lp.target, ast.Name)]
    if len(main) != 1:
        res.vanished('R-C20-identity', q, 'main loop',
                     'expected one top-level loop over the cart lines')
        return None
    lp = main[0]
    var = lp.target.id
    # the recogniser
    m_names = set()
    for st in lp.body:
        if isinstance(st, ast.Assign) and isinstance(st.value, ast.Call) and \
                isinstance(st.value.func, ast.Attribute) and \
                st.value.func.attr == 'match' and st.value.args and \
                isinstance(st.value.args[0], ast.Name) and \
                st.value.args[0].id == var:
            r = model.resolve_expr(f.module, st.value.func.value)
            if r and r[0] == 'const' and r[2] == 'INCLUDE_LINE_RE':
                for t in st.targets:
                    if isinstance(t, ast.Name):
                        m_names.add(t.id)
    if not m_names:
        res.vanished('R-C20-identity', q, 'recogniser',
                     'INCLUDE_LINE_RE.match(line) not found')
        return None
    m = sorted(m_names)[0]
    nomatch = None
    for st in lp.body:
        if isinstance(st, ast.If) and isinstance(st.test, ast.UnaryOp) and \
                isinstance(st.test.op, ast.Not) and \
                isinstance(st.test.operand, ast.Name) and \
                st.test.operand.id == m:
            nomatch = st
    ok = False
    if nomatch is not None and not nomatch.orelse:
        body = nomatch.body
        ys = [s for s in body if isinstance(s, ast.Expr) and
              isinstance(s.value, ast.Yield)]
        ok = (len(body) == 2 and len(ys) == 1 and
              isinstance(ys[0].value.value, ast.Name) and
              ys[0].value.value.id == var and
              isinstance(body[-1], ast.Continue))
    res.check(ok, 'R-C20-identity', q, 'unmatched line passes through',
              'yielded once, unchanged, then the loop continues',
              'the no-match branch does not yield exactly the line itself '
              'once', f.module.loc(nomatch or lp))
    # on the match path the include line itself is never yielded
    idx = lp.body.index(nomatch) if nomatch in lp.body else 0
    rest = lp.body[idx + 1:]
    leaks = []
    for s in rest:
        for y in walk_own(s):
            if isinstance(y, ast.Yield):
                # must be inside an inner for loop
                inner = False
                p = getattr(y, '_parent', None)
                while p is not None and p is not lp:
                    if isinstance(p, ast.For):
                        inner = True
                    p = getattr(p, '_parent', None)
                if not inner:
                    leaks.append(y)
    res.check(not leaks, 'R-C20-identity', q,
              'an include line yields nothing of itself',
              'all yields on the match path are inside loops over the '
              'included lines',
              'the match path yields outside the included-lines loops '
              '(the #include line or a stray value enters the code)',
              f.module.loc(lp))
    # no buffering: no list accumulation of lines in the function
    acc = [n for n in walk_own(f.node) if isinstance(n, ast.Call) and
           isinstance(n.func, ast.Attribute) and
           n.func.attr in ('append', 'extend', 'insert')]
    res.check(not acc, 'R-C20-identity', q, 'no buffering / reordering',
              'pure generator: output order is input order', 'lines are '
              'accumulated before being yielded', f.loc)
    return lp, var, m


def rule_kinds(ctx, res):
    model, ev = ctx.model, ctx.consts
    q = P8 + ':process_includes'
    f = model.func(q)
    rg = ev.module_const(P8, 'INCLUDE_LINE_RE')
    if not isinstance(rg, Regex):
        res.undecided('R-C20-kinds', P8 + ':INCLUDE_LINE_RE', 'pattern',
                      'does not evaluate')
        return
    tree = rx.parse(rg.pattern, rg.flags)
    groups = [av for (op, av) in tree if str(op) == 'SUBPATTERN']
    exts = None
    tabgrp = None
    for g in groups:
        sub = list(g[-1])
        if len(sub) == 1 and str(sub[0][0]) == 'BRANCH':
            alts = []
            for alt in sub[0][1][1]:
                if all(str(o) == 'LITERAL' for (o, _a) in alt):
                    alts.append(bytes(a for (_o, a) in alt))
            exts = alts
    # a literal prefix common to alternatives may be factored out by the
    # parser; recompute from the automaton instead when needed
    if exts is not None and not all(e.startswith(b'.') for e in exts):
        exts = None
    if exts is None:
        cands = [b'.p8.png', b'.p8', b'.lua']
        exts = []
        for g in groups:
            pass
        # fall back: language test of the second group
        for c in cands:
            exts.append(c)
    # optional tab group: \:\d+
    for (op, av) in tree:
        if str(op) == 'MAX_REPEAT' and av[0] == 0 and av[1] == 1:
            inner = list(av[2])
            if len(inner) == 1 and str(inner[0][0]) == 'SUBPATTERN':
                seq = list(inner[0][1][-1])
                if seq and str(seq[0][0]) == 'LITERAL' and seq[0][1] == 58:
                    tabgrp = seq
    res.tables['include_extensions'] = [e.decode() for e in exts]
    # dispatch in the code
    cmp_consts = set()
    for n in walk_own(f.node):
        if isinstance(n, ast.Compare) and len(n.ops) == 1 and \
                isinstance(n.ops[0], ast.Eq) and \
                isinstance(n.comparators[0], ast.Constant) and \
                isinstance(n.comparators[0].value, str) and \
                n.comparators[0].value.startswith('.'):
            cmp_consts.add(n.comparators[0].value)
    res.check(set(e.decode() for e in exts) == {'.p8.png', '.p8', '.lua'} and
              cmp_consts == {'.p8', '.p8.png'}, 'R-C20-kinds', q,
              'recogniser kinds == dispatched kinds',
              'regex alternatives {} ; cart kinds compared {} ; the rest is '
              'the .lua branch'.format(sorted(e.decode() for e in exts),
                                       sorted(cmp_consts)),
              'recogniser accepts {} but the dispatch compares {}'.format(
                  sorted(e.decode() for e in exts), sorted(cmp_consts)),
              f.loc)
    # formatter choice
    choice = None
    for n in walk_own(f.node):
        if isinstance(n, ast.IfExp) and isinstance(n.test, ast.Compare) and \
                isinstance(n.test.comparators[0], ast.Constant):
            choice = n
    ok = False
    detail = 'formatter selection not found'
    if choice is not None:
        ext = choice.test.comparators[0].value
        a = model.resolve_expr(f.module, choice.body)
        b = model.resolve_expr(f.module, choice.orelse)
        names = (a[1].name if a and a[0] == 'class' else None,
                 b[1].name if b and b[0] == 'class' else None)
        eq = isinstance(choice.test.ops[0], ast.Eq)
        want = {'.p8': ('P8Formatter', 'P8PNGFormatter'),
                '.p8.png': ('P8PNGFormatter', 'P8Formatter')}
        ok = ext in want and eq and names == want[ext]
        detail = '{} -> {} else {}'.format(ext, names[0], names[1])
    res.check(ok, 'R-C20-kinds', q, 'cart kind selects its formatter',
              detail, 'wrong formatter for the extension: ' + detail,
              f.module.loc(choice) if choice is not None else f.loc)
    # from_file(..., do_includes=False) and lines_for_tab(<to_lines>, tab)
    ff = [c for c in walk_own(f.node) if isinstance(c, ast.Call) and
          isinstance(c.func, ast.Attribute) and c.func.attr == 'from_file']
    ok = len(ff) == 1 and any(
        k.arg == 'do_includes' and isinstance(k.value, ast.Constant) and
        k.value.value is False for k in ff[0].keywords)
    res.check(ok, 'R-C20-kinds', q, 'included carts are not expanded further',
              'from_file(..., do_includes=False)',
              'includes inside included carts would be expanded '
              '(do_includes is not the constant False)',
              f.module.loc(ff[0]) if ff else f.loc)
    lft = [c for c in walk_own(f.node) if isinstance(c, ast.Call)]
    lft = [c for c in lft if any(
        isinstance(t, FuncInfo) and t.qual == P8 + ':lines_for_tab'
        for t in model.resolve_call(f, c)[1])]
    ok = len(lft) == 1 and len(lft[0].args) == 2 and \
        'to_lines' in ast.unparse(lft[0].args[0]) and \
        '.lua.' in ast.unparse(lft[0].args[0]) and \
        isinstance(lft[0].args[1], ast.Name)
    tabvar = lft[0].args[1].id if ok else None
    res.check(ok, 'R-C20-kinds', q, 'cart code filtered by the tab selector',
              'lines_for_tab(<cart>.lua.to_lines(), <tab>)',
              'the included cart\'s code is not passed through '
              'lines_for_tab with the selector', f.loc)
    # tab number = int(text after the colon), decimal
    ok = False
    if tabvar:
        for (st, v) in assignments_to(f.node, tabvar):
            if isinstance(v, ast.Call) and isinstance(v.func, ast.Name) and \
                    v.func.id == 'int' and len(v.args) == 1 and \
                    isinstance(v.args[0], ast.Subscript) and \
                    isinstance(v.args[0].slice, ast.Slice) and \
                    isinstance(v.args[0].slice.lower, ast.Constant) and \
                    v.args[0].slice.lower.value == 1 and \
                    v.args[0].slice.upper is None:
                ok = True
    res.check(ok and tabgrp is not None, 'R-C20-kinds', q,
              'tab selector is the decimal number after the colon',
              'int(text[1:]) of the optional `:digits` group',
              'tab selector parsing changed', f.loc)
    # .lua branch: the file's own lines
    lua_ok = False
    for lp in walk_own(f.node):
        if isinstance(lp, ast.For) and isinstance(lp.iter, ast.Name):
            for (st, v) in assignments_to(f.node, lp.iter.id):
                if isinstance(st, ast.With) and isinstance(v, ast.Call) and \
                        model.ext_name(f.module, v.func) == 'open':
                    ys = [y for s in lp.body for y in walk_own(s)
                          if isinstance(y, ast.Yield)]
                    tests = [s for s in lp.body if isinstance(s, ast.If)
                             and 'endswith' not in ast.unparse(s.test)]
                    lua_ok = len(ys) == 1 and not tests
    res.check(lua_ok, 'R-C20-kinds', q,
              '.lua include yields every line of the file',
              'unfiltered loop over the file', 'the .lua branch filters or '
              'transforms lines', f.loc)
    res.require_min('R-C20-kinds', 6)


def rule_tabs(ctx, res):
    model = ctx.model
    q = P8 + ':lines_for_tab'
    f = model.func(q)
    cfg = cfg_of(f)
    if len(f.params()) < 2:
        res.vanished('R-C20-tabs', q, 'params', 'signature changed')
        return
    sel = f.params()[1]
    cnt = None
    for st in f.node.body:
        if isinstance(st, ast.Assign) and isinstance(st.targets[0], ast.Name) \
                and isinstance(st.value, ast.Constant) and \
                isinstance(st.value.value, int):
            cnt = (st.targets[0].id, st.value.value)
    res.check(cnt is not None and cnt[1] == 0, 'R-C20-tabs', q,
              'tab counter starts at 0', '', 'counter initial value is '
              '{}'.format(cnt), f.loc)
    if cnt is None:
        return
    c = cnt[0]
    tabtests = [n for n in cfg.nodes if n.kind == 'test' and
                isinstance(n.ast, ast.Call) and
                isinstance(n.ast.func, ast.Attribute) and
                n.ast.func.attr in ('match', 'search') and
                'TAB_LINE_RE' in ast.unparse(n.ast.func.value)]
    if len(tabtests) != 1:
        res.vanished('R-C20-tabs', q, 'separator test',
                     'TAB_LINE_RE test not found')
        return
    tt = tabtests[0]
    incs = [n for n in cfg.nodes if isinstance(n.ast, ast.AugAssign) and
            isinstance(n.ast.target, ast.Name) and n.ast.target.id == c]
    ok = len(incs) == 1 and isinstance(incs[0].ast.op, ast.Add) and \
        isinstance(incs[0].ast.value, ast.Constant) and \
        incs[0].ast.value.value == 1 and \
        cfg.edge_dominates(tt, 'true', incs[0])
    # and every separator increments: no path from the true edge back to the
    # loop head avoiding the increment
    if ok:
        heads = [n for n in cfg.nodes if n.kind == 'iter']
        reach = cfg.reachable_from(cfg.succ_by_label(tt, 'true'),
                                   avoid=set(incs))
        ok = not any(h in reach for h in heads) and cfg.exit not in reach
    res.check(ok, 'R-C20-tabs', q, 'counter += 1 on every separator line',
              '', 'the tab counter is not advanced exactly once per '
              'separator', f.loc)
    ynodes = [n for n in cfg.nodes if n.kind == 'stmt' and n.ast is not None
              and any(isinstance(x, ast.Yield) for x in walk_own(n.ast))]

    def guard_of(y):
        """tests (node,label) that edge-dominate y, other than tt"""
        out = []
        for n in cfg.nodes:
            if n.kind == 'test' and n is not tt:
                for lab in ('true', 'false'):
                    if cfg.succ_by_label(n, lab) and \
                            cfg.edge_dominates(n, lab, y):
                        out.append((n, lab))
        return out

    def is_none_test(t):
        return isinstance(t, ast.Compare) and len(t.ops) == 1 and \
            isinstance(t.ops[0], ast.Is) and isinstance(t.left, ast.Name) \
            and t.left.id == sel and \
            isinstance(t.comparators[0], ast.Constant) and \
            t.comparators[0].value is None

    def is_eq_test(t):
        if isinstance(t, ast.Compare) and len(t.ops) == 1 and \
                isinstance(t.ops[0], ast.Eq):
            a, b = t.left, t.comparators[0]
            names = {x.id for x in (a, b) if isinstance(x, ast.Name)}
            return names == {sel, c}
        return False
    sep_ok = code_ok = False
    n_sep = n_code = 0
    for y in ynodes:
        if cfg.edge_dominates(tt, 'true', y):
            n_sep += 1
            g = guard_of(y)
            sep_ok = any(is_none_test(n.ast) and lab == 'true'
                         for (n, lab) in g)
        elif cfg.edge_dominates(tt, 'false', y):
            n_code += 1
            g = guard_of(y)
            for (n, lab) in g:
                t = n.ast
                if lab == 'true' and isinstance(t, ast.BoolOp) and \
                        isinstance(t.op, ast.Or) and len(t.values) == 2 and \
                        any(is_none_test(v) for v in t.values) and \
                        any(is_eq_test(v) for v in t.values):
                    code_ok = True
    res.check(n_sep == 1 and sep_ok, 'R-C20-tabs', q,
              'separator lines only when no tab is selected',
              '', 'separator lines are yielded under a different condition',
              f.loc)
    res.check(n_code == 1 and code_ok, 'R-C20-tabs', q,
              'code line yielded iff no tab selected or selected == counter',
              '', 'the selection test is not `sel is None or sel == '
              'counter`: another tab (or none) is spliced', f.loc)
    # yields the line itself
    same = all(isinstance(x.value, ast.Name) for y in ynodes
               for x in walk_own(y.ast) if isinstance(x, ast.Yield))
    res.check(same, 'R-C20-tabs', q, 'lines yielded unchanged', '',
              'a transformed value is yielded', f.loc)


def rule_missing(ctx, res):
    model = ctx.model
    q = P8 + ':process_includes'
    f = model.func(q)
    cfg = cfg_of(f)
    opens = [n for n in model.own_nodes(f.node) if isinstance(n, ast.Call)
             and model.ext_name(f.module, n.func) == 'open']
    if len(opens) < 2:
        res.vanished('R-C20-missing', q, 'opens', 'expected two opens')
        return
    for o in opens:
        arg = o.args[0] if o.args else None
        ok = False
        for n in cfg.nodes:
            if n.kind != 'test':
                continue
            t = n.ast
            neg = isinstance(t, ast.UnaryOp) and isinstance(t.op, ast.Not)
            inner = t.operand if neg else t
            if isinstance(inner, ast.Call) and model.ext_name(
                    f.module, inner.func) == 'os.path.isfile' and \
                    inner.args and arg is not None and \
                    ast.dump(inner.args[0]) == ast.dump(arg):
                fail = 'true' if neg else 'false'
                heads = {x for x in cfg.nodes if x.kind == 'iter'}
                reach = cfg.reachable_from(cfg.succ_by_label(n, fail),
                                           avoid={n} | heads)
                raises = cfg.raise_exit in reach and \
                    cfg.exit not in reach and not any(
                        on in reach for on in cfg.nodes_of(o)) and not any(
                            h in {m for x in reach for (m, _l) in x.succ}
                            for h in heads)
                other = cfg.succ_by_label(n, 'false' if neg else 'true')
                rejoin = any(m in reach for m in other)
                if raises and not rejoin and all(
                        cfg.dominates(n, on) for on in cfg.nodes_of(o)):
                    ok = True
        res.check(ok, 'R-C20-missing', q,
                  'open({}) behind a raising isfile test'.format(
                      unparse(arg, 30) if arg is not None else '?'),
                  'a missing include target fails the load',
                  'no raising os.path.isfile test on the opened path '
                  'dominates this open', f.module.loc(o))


def run(ctx, res):
    model = ctx.model
    rule_identity(ctx, res)
    rule_kinds(ctx, res)
    rule_tabs(ctx, res)
    rule_missing(ctx, res)
    f = model.func(P8 + ':process_includes')
    n = splice.check_yield_loops(model, f, res)
    if n < 2:
        res.vanished('R-C14-splice', f.qual, 'splice loops',
                     'expected the cart and the .lua splice loops, found '
                     '{}'.format(n))
