"""C20 -- #include splices exactly the named file or cart tab.

Rules: R-C20-identity, R-C20-kinds, R-C20-tabs, R-C20-missing,
R-C14-splice (shared).
"""
import ast

from .. import rx
from ..cfg import cfg_of
from ..consteval import UNKNOWN, Regex
from ..srcmodel import walk_own, FuncInfo, const_str
from .common import assignments_to, unparse
from . import splice

EXPLANATION = (
    'R-C20-identity: process_includes is one loop over the cart lines; a '
    'line the include recogniser does not match is yielded as the very same '
    'value exactly once and in place, a matching line yields nothing of '
    'itself, included lines are yielded between predecessor and successor '
    '(single loop, no buffering). R-C20-kinds: the alternatives of the '
    'recogniser\'s extension group (regex AST) are exactly the three kinds '
    'dispatched; .p8 -> P8Formatter, .p8.png -> P8PNGFormatter, both loaded '
    'with do_includes=False (no nested expansion) and filtered through '
    'lines_for_tab(<cart code lines>, n); .lua -> the file\'s own lines, '
    'unfiltered; `:n` is parsed as decimal after the colon. R-C20-tabs: the '
    'tab counter starts at 0, advances by one on every separator line, a '
    'code line is yielded iff no tab is selected or the selected tab equals '
    'the counter, separators only when no tab is selected. R-C20-missing: a '
    'raising isfile test on the path that is opened dominates both opens. '
    'R-C14-splice: every spliced line is newline-terminated.')

ASSUMPTIONS = [
    'equality with a reference splice for concrete files is a runtime '
    'equality; decided here: the structure that makes it hold',
    'the recogniser\'s looseness (#include x.lua.bak matches) is outside the '
    'statement',
]

P8 = 'pico8.game.formatter.p8'


def _main_loop(ctx, f):
    loops = [n for n in f.node.body if isinstance(n, ast.For)]
    src_param = f.params()[0]
    main = [lp for lp in loops if isinstance(lp.iter, ast.Name) and
            lp.iter.id == src_param and isinstance(lp.target, ast.Name)]
    return main[0] if len(main) == 1 else None


def _include_paths(ctx, f, lp):
    """per-line paths of process_includes with the state at loop entry"""
    from ..absint.symbody import SymBody
    sym = SymBody(ctx, f, max_paths=3000)
    i_lp = f.node.body.index(lp)
    pre = sym.run(f.node.body[:i_lp])
    env0 = pre[0].env if len(pre) == 1 else {}
    env0 = {k: v for k, v in env0.items() if k != lp.target.id}
    return sym, sym.run(lp.body, env0)


def _is_match_cond(t, var):
    """INCLUDE_LINE_RE.match(line) (however spelled) as a test"""
    tt = ast.unparse(t)
    return 'match({})'.format(var) in tt or \
        (', {})'.format(var) in tt and 're.match(' in tt)


def rule_identity(ctx, res):
    model = ctx.model
    u = ast.unparse
    q = P8 + ':process_includes'
    f = model.func(q)
    lp = _main_loop(ctx, f)
    if lp is None:
        res.vanished('R-C20-identity', q, 'main loop',
                     'expected one top-level loop over the cart lines')
        return None
    var = lp.target.id
    sym, paths = _include_paths(ctx, f, lp)
    nomatch, match = [], []
    for p in paths:
        m = None
        for (t, val) in p.conds:
            t2, v2 = t, val
            while isinstance(t2, ast.UnaryOp) and isinstance(t2.op, ast.Not):
                t2, v2 = t2.operand, not v2
            if isinstance(t2, ast.Compare) and len(t2.ops) == 1 and \
                    isinstance(t2.comparators[0], ast.Constant) and \
                    t2.comparators[0].value is None and \
                    _is_match_cond(t2.left, var):
                m = v2 if isinstance(t2.ops[0], ast.IsNot) else not v2
                break
            if _is_match_cond(t2, var):
                m = v2
                break
        if m is None:
            res.undecided('R-C20-identity', q, 'recogniser',
                          'a path through the line loop does not test '
                          'INCLUDE_LINE_RE.match(line)', f.module.loc(lp))
            return None
        (match if m else nomatch).append(p)
    ok = bool(nomatch)
    for p in nomatch:
        ev = [e for e in p.events if e[0] != 'assert']
        if not (len(ev) == 1 and ev[0][0] == 'yield' and
                u(ev[0][1]) == var and p.end in ('continue', 'fall')):
            ok = False
    res.check(ok, 'R-C20-identity', q, 'unmatched line passes through',
              'yielded once, unchanged, then the loop continues',
              'the no-match branch does not yield exactly the line itself '
              'once', f.module.loc(lp))
    # on the match path the include line itself is never yielded: every
    # yield happens inside a loop over the included lines
    leaks = [p for p in match if any(e[0] == 'yield' for e in p.events)]
    res.check(not leaks and bool(match), 'R-C20-identity', q,
              'an include line yields nothing of itself',
              'all yields on the match path are inside loops over the '
              'included lines',
              'the match path yields outside the included-lines loops '
              '(the #include line or a stray value enters the code)',
              f.module.loc(lp))
    # a one-shot iterator of included lines must not be kept across include
    # lines (a second include of the same target would get nothing)
    from .. import norm
    i_lp = f.node.body.index(lp)
    persistent = {t.id for st in f.node.body[:i_lp]
                  if isinstance(st, ast.Assign) for t in st.targets
                  if isinstance(t, ast.Name)}
    cached = []
    for n in walk_own(lp):
        if isinstance(n, ast.Assign) and len(n.targets) == 1 and \
                isinstance(n.targets[0], ast.Subscript) and \
                isinstance(n.targets[0].value, ast.Name) and \
                n.targets[0].value.id in persistent:
            for g in _one_shot_sources(ctx, f, n.value):
                cached.append((n, g))
    res.check(not cached, 'R-C20-identity', q,
              'included lines are not kept as a one-shot iterator', '',
              'a generator / file iterator ({}) is stored in a table that '
              'outlives the include line and is iterated again by a later '
              'include of the same target: the second include yields '
              'nothing'.format(cached[0][1] if cached else ''),
              f.module.loc(cached[0][0]) if cached else f.loc)
    # no buffering: no list accumulation of lines in the function
    acc = [n for n in walk_own(f.node) if isinstance(n, ast.Call) and
           isinstance(n.func, ast.Attribute) and
           n.func.attr in ('append', 'extend', 'insert')]
    res.check(not acc, 'R-C20-identity', q, 'no buffering / reordering',
              'pure generator: output order is input order', 'lines are '
              'accumulated before being yielded', f.loc)
    return lp, var, (sym, match)


def _one_shot_sources(ctx, f, e, depth=0):
    """generator calls / file handles the expression may evaluate to (through
    the returns of package helpers)"""
    model = ctx.model
    out = []
    if depth > 2:
        return out
    if isinstance(e, ast.Call):
        if isinstance(e.func, ast.Attribute) and e.func.attr == 'to_lines':
            out.append(ast.unparse(e)[:50])
            return out
        kind, targets = model.resolve_call(f, e)
        for t in targets or []:
            if not hasattr(t, 'node'):
                continue
            if any(isinstance(x, (ast.Yield, ast.YieldFrom))
                   for x in walk_own(t.node)):
                out.append(t.qual + '() (a generator)')
                continue
            for r in walk_own(t.node):
                if isinstance(r, ast.Return) and r.value is not None:
                    out.extend(_one_shot_sources(ctx, t, r.value, depth + 1))
    elif isinstance(e, ast.IfExp):
        out.extend(_one_shot_sources(ctx, f, e.body, depth))
        out.extend(_one_shot_sources(ctx, f, e.orelse, depth))
    elif isinstance(e, ast.GeneratorExp):
        out.append('a generator expression')
    return out


EXTS = ('.lua', '.p8', '.p8.png')


def _ext_feasible(p, ext_expr_texts, e):
    """can the path be taken when the extension text is e?"""
    for (t, val) in p.conds:
        t2, v2 = t, val
        while isinstance(t2, ast.UnaryOp) and isinstance(t2.op, ast.Not):
            t2, v2 = t2.operand, not v2
        if isinstance(t2, ast.Compare) and len(t2.ops) == 1 and \
                isinstance(t2.comparators[0], ast.Constant) and \
                isinstance(t2.comparators[0].value, str) and \
                ast.unparse(t2.left) in ext_expr_texts:
            c = t2.comparators[0].value
            if isinstance(t2.ops[0], ast.Eq):
                if (e == c) != v2:
                    return False
            elif isinstance(t2.ops[0], ast.NotEq):
                if (e != c) != v2:
                    return False
            elif isinstance(t2.ops[0], (ast.In, ast.NotIn)):
                pass
        elif isinstance(t2, ast.Compare) and len(t2.ops) == 1 and \
                isinstance(t2.ops[0], (ast.In, ast.NotIn)) and \
                ast.unparse(t2.left) in ext_expr_texts and \
                isinstance(t2.comparators[0], (ast.Tuple, ast.List)):
            vals = [x.value for x in t2.comparators[0].elts
                    if isinstance(x, ast.Constant)]
            r = e in vals
            if isinstance(t2.ops[0], ast.NotIn):
                r = not r
            if r != v2:
                return False
    return True


def rule_kinds(ctx, res, ident=None):
    model, ev = ctx.model, ctx.consts
    u = ast.unparse
    q = P8 + ':process_includes'
    f = model.func(q)
    rg = ev.module_const(P8, 'INCLUDE_LINE_RE')
    if not isinstance(rg, Regex):
        res.undecided('R-C20-kinds', P8 + ':INCLUDE_LINE_RE', 'pattern',
                      'does not evaluate')
        return
    # the extension alternatives the recogniser accepts: group 2 literals
    tree = rx.parse(rg.pattern, rg.flags)
    groups = [av for (op, av) in tree if str(op) == 'SUBPATTERN']
    exts = None
    tabgrp = None
    for g in groups:
        sub = list(g[-1])
        if len(sub) == 1 and str(sub[0][0]) == 'BRANCH':
            alts = []
            for alt in sub[0][1][1]:
                if all(str(o) == 'LITERAL' for (o, _a) in alt):
                    alts.append(bytes(a for (_o, a) in alt))
            exts = alts
    if exts is None or not all(e.startswith(b'.') for e in exts):
        exts = [b'.p8.png', b'.p8', b'.lua']
    for (op, av) in tree:
        if str(op) == 'MAX_REPEAT' and av[0] == 0 and av[1] == 1:
            inner = list(av[2])
            if len(inner) == 1 and str(inner[0][0]) == 'SUBPATTERN':
                seq = list(inner[0][1][-1])
                if seq and str(seq[0][0]) == 'LITERAL' and seq[0][1] == 58:
                    tabgrp = seq
    res.tables['include_extensions'] = [e.decode() for e in exts]
    res.check(set(e.decode() for e in exts) == set(EXTS), 'R-C20-kinds', q,
              'recogniser accepts exactly .lua / .p8 / .p8.png', '',
              'recogniser accepts {}'.format(sorted(e.decode()
                                                    for e in exts)), f.loc)
    if ident is None:
        return
    lp, var, (sym, match) = ident
    # texts by which the extension (group 2, decoded) is known on a path
    ext_texts = set()
    for p in match:
        for (t, _v) in p.conds:
            for n in ast.walk(t):
                if isinstance(n, ast.Compare) and \
                        isinstance(n.comparators[0], ast.Constant) and \
                        n.comparators[0].value in EXTS:
                    ext_texts.add(u(n.left))
                if isinstance(n, ast.Compare) and isinstance(
                        n.comparators[0], (ast.Tuple, ast.List)) and any(
                        isinstance(x, ast.Constant) and x.value in EXTS
                        for x in n.comparators[0].elts):
                    ext_texts.add(u(n.left))
    live = [p for p in match if p.end != 'raise']
    per_ext = {e: [p for p in live if _ext_feasible(p, ext_texts, e)]
               for e in EXTS}
    want_cls = {'.p8': 'P8Formatter', '.p8.png': 'P8PNGFormatter'}
    kinds_ok = True
    detail = []
    undec = []
    ff_ok = True
    tab_ok = True
    lua_ok = True
    tab_exprs = set()
    tab_on_path = []
    for e in EXTS:
        if not per_ext[e]:
            kinds_ok = False
            detail.append('no path handles ' + e)
        for p in per_ext[e]:
            inner = [x for x in p.events if x[0] == 'loop']
            if len(inner) != 1 or not isinstance(inner[0][1], ast.For):
                kinds_ok = False
                detail.append('{}: {} loops over included lines'.format(
                    e, len(inner)))
                continue
            it = sym.S(inner[0][1].iter, inner[0][2])
            itt = u(it)
            ffs = [c for c in ast.walk(it) if isinstance(c, ast.Call) and
                   isinstance(c.func, ast.Attribute) and
                   c.func.attr == 'from_file']
            if e == '.lua':
                # the file's own lines: the handle of the opened target
                opened = [x for x in p.events if x[0] == 'with' and
                          u(x[1]).startswith('open(')]
                if not opened:
                    undec.append('.lua: the open of the target was not '
                                 'found on the path')
                    continue
                if ffs or 'lines_for_tab' in itt:
                    lua_ok = False
                # no filtering inside the loop other than the newline fix
                for st in inner[0][1].body:
                    if isinstance(st, ast.If) and \
                            'endswith' not in u(st.test):
                        lua_ok = False
                continue
            if len(ffs) != 1:
                undec.append('{}: the cart loader call was not found in {}'
                             .format(e, itt[:60]))
                continue
            r = model.resolve_expr(f.module, ffs[0].func.value)
            cname = r[1].name if r and r[0] == 'class' else u(
                ffs[0].func.value)
            if cname != want_cls[e]:
                kinds_ok = False
                detail.append('{} is loaded with {}'.format(e, cname))
            if not any(k.arg == 'do_includes' and
                       isinstance(k.value, ast.Constant) and
                       k.value.value is False for k in ffs[0].keywords):
                ff_ok = False
            # lines_for_tab(<cart>.lua.to_lines(), <tab>)
            if not (isinstance(it, ast.Call) and
                    u(it.func).endswith('lines_for_tab') and
                    len(it.args) == 2 and '.lua.to_lines()' in u(it.args[0])
                    and 'from_file' in u(it.args[0])):
                tab_ok = False
            else:
                tab_exprs.add(u(it.args[1]))
                tab_on_path.append((p, u(it.args[1])))
    for msg in sorted(set(undec))[:2]:
        res.undecided('R-C20-kinds', q, 'cart kind selects its formatter',
                      msg, f.module.loc(lp))
    res.check(kinds_ok, 'R-C20-kinds', q, 'cart kind selects its formatter',
              '.p8 -> P8Formatter, .p8.png -> P8PNGFormatter, .lua -> the '
              'file itself', 'wrong dispatch: ' + '; '.join(
                  sorted(set(detail))[:3]), f.module.loc(lp))
    res.check(ff_ok, 'R-C20-kinds', q,
              'included carts are not expanded further',
              'from_file(..., do_includes=False)',
              'includes inside included carts would be expanded '
              '(do_includes is not the constant False)', f.module.loc(lp))
    res.check(tab_ok, 'R-C20-kinds', q,
              'cart code filtered by the tab selector',
              'lines_for_tab(<cart>.lua.to_lines(), <tab>)',
              'the included cart\'s code is not passed through '
              'lines_for_tab with the selector', f.loc)
    # tab number = int(text after the colon), decimal; None without selector
    sel_ok = (tabgrp is not None) if tab_on_path else None
    sel_detail = 'no cart path hands a tab selector to lines_for_tab'
    for (p, te) in tab_on_path:
        has_sel = None
        for (t, val) in p.conds:
            tt = u(t)
            t2, v2 = t, val
            while isinstance(t2, ast.UnaryOp) and isinstance(t2.op, ast.Not):
                t2, v2 = t2.operand, not v2
            tt = u(t2)
            if tt.endswith('groups()[2]') or tt.endswith('group(3)'):
                has_sel = v2
            elif (tt.endswith('groups()[2] is None') or
                  tt.endswith('group(3) is None')):
                has_sel = not v2
            elif (tt.endswith('groups()[2] is not None') or
                  tt.endswith('group(3) is not None')):
                has_sel = v2
        if has_sel is None:
            sel_ok = None if sel_ok else sel_ok
            sel_detail = 'no test of the selector group on a cart path'
        elif has_sel:
            good = te.startswith('int(') and '[1:]' in te and (
                'group(3)' in te or 'groups()[2]' in te)
            if not good:
                sel_ok = False
                sel_detail = 'with a selector the tab handed on is ' + te
        elif te != 'None':
            sel_ok = False
            sel_detail = 'without a selector the tab handed on is ' + te
    if sel_ok is None:
        res.undecided('R-C20-kinds', q,
                      'tab selector is the decimal number after the colon',
                      sel_detail, f.loc)
    else:
        res.check(sel_ok, 'R-C20-kinds', q,
                  'tab selector is the decimal number after the colon',
                  'int(text[1:]) of the optional `:digits` group, None '
                  'without it', 'tab selector parsing changed: ' + sel_detail,
                  f.loc)
    res.check(lua_ok, 'R-C20-kinds', q,
              '.lua include yields every line of the file',
              'unfiltered loop over the file', 'the .lua branch filters or '
              'transforms lines', f.loc)
    res.require_min('R-C20-kinds', 6)


def rule_tabs(ctx, res):
    """lines_for_tab from its per-line paths: the counter advances on every
    separator line; a separator is yielded only when no tab is selected; a
    code line is yielded iff no tab is selected or the counter equals it."""
    from ..absint.symbody import SymBody
    model = ctx.model
    u = ast.unparse
    q = P8 + ':lines_for_tab'
    f = model.func(q)
    if len(f.params()) < 2:
        res.vanished('R-C20-tabs', q, 'params', 'signature changed')
        return
    src, sel = f.params()[0], f.params()[1]
    loops = [n for n in f.node.body if isinstance(n, ast.For) and
             isinstance(n.iter, ast.Name) and n.iter.id == src and
             isinstance(n.target, ast.Name)]
    if len(loops) != 1:
        res.vanished('R-C20-tabs', q, 'line loop', 'loop over the lines')
        return
    lp = loops[0]
    line = lp.target.id
    sym = SymBody(ctx, f)
    pre = sym.run(f.node.body[:f.node.body.index(lp)])
    if len(pre) != 1:
        res.undecided('R-C20-tabs', q, 'prologue', 'branches before the loop')
        return
    env0 = pre[0].env
    counters = [k for k, v in env0.items() if isinstance(v, ast.Constant) and
                isinstance(v.value, int) and not isinstance(v.value, bool)]
    cnt = None
    for k in counters:
        if any(isinstance(x, ast.Name) and x.id == k and
               isinstance(x.ctx, ast.Store) for x in ast.walk(lp)):
            cnt = k
    res.check(cnt is not None and env0[cnt].value == 0, 'R-C20-tabs', q,
              'tab counter starts at 0', '', 'counter initial value is '
              '{}'.format(u(env0[cnt]) if cnt else None), f.loc)
    if cnt is None:
        return
    env = {k: v for k, v in env0.items() if k not in (cnt, line)}
    problems = []
    n_paths = 0
    for p in sym.run(lp.body, env):
        n_paths += 1
        sep = none = eq = None
        seps = set()
        unrec = []
        for (t, val) in p.conds:
            t2, v2 = t, val
            while isinstance(t2, ast.UnaryOp) and isinstance(t2.op, ast.Not):
                t2, v2 = t2.operand, not v2
            tt = u(t2)
            if 'match({})'.format(line) in tt or \
                    ('re.match(' in tt and ', {})'.format(line) in tt):
                if tt.endswith(' is not None'):
                    sep = v2
                elif tt.endswith(' is None'):
                    sep = not v2
                else:
                    sep = v2
                seps.add(sep)
            elif tt == sel + ' is None':
                none = v2
            elif tt == sel + ' is not None':
                none = not v2
            elif tt in ('{} == {}'.format(sel, cnt),
                        '{} == {}'.format(cnt, sel)):
                eq = v2
            elif tt in ('{} != {}'.format(sel, cnt),
                        '{} != {}'.format(cnt, sel)):
                eq = not v2
            else:
                unrec.append('unrecognised test ' + tt[:50])
        if len(seps) > 1:
            # the same (pure) match on the same line decided both ways: not a
            # path of the function
            n_paths -= 1
            continue
        problems.extend(unrec)
        if sep is None:
            problems.append('a line is handled without the separator test')
            continue
        ys = [e for e in p.events if e[0] == 'yield']
        if any(u(e[1]) != line for e in ys) or len(ys) > 1:
            problems.append('something other than the line is yielded')
        new = u(p.env[cnt]) if cnt in p.env else cnt
        if sep:
            if new != cnt + ' + 1':
                problems.append('a separator line sets the counter to ' + new)
            if ys and none is not True:
                problems.append('a separator line is yielded although a tab '
                                'may be selected')
            if not ys and none is not False:
                problems.append('a separator line is dropped although no '
                                'tab may be selected')
        else:
            if new != cnt:
                problems.append('a code line changes the counter to ' + new)
            if ys and not (none is True or eq is True):
                problems.append('a code line is yielded without `no tab '
                                'selected` or `counter == tab`')
            if not ys and not (none is False and eq is False):
                problems.append('a code line is dropped although it may '
                                'belong to the selected tab')
    res.check(not problems and n_paths >= 3, 'R-C20-tabs', q,
              'counter += 1 on every separator; separators only without a '
              'selector; code lines iff no selector or counter == tab',
              '{} per-line paths'.format(n_paths),
              '; '.join(sorted(set(problems))[:3]), f.loc)


def rule_missing(ctx, res, ident=None):
    model = ctx.model
    u = ast.unparse
    q = P8 + ':process_includes'
    f = model.func(q)
    if ident is None:
        res.undecided('R-C20-missing', q, 'opens', 'main loop not analysed')
        return
    lp, var, (sym, match) = ident
    n_open = 0
    ok = True
    for p in match:
        for k, e in enumerate(p.events):
            if e[0] == 'with' and u(e[1]).startswith('open('):
                n_open += 1
                arg = u(e[1].args[0]) if e[1].args else ''
                tested = any(
                    p.conds.at[i] <= k and (
                        (u(t) == 'os.path.isfile({})'.format(arg) and v) or
                        (u(t) == 'not os.path.isfile({})'.format(arg)
                         and not v))
                    for i, (t, v) in enumerate(p.conds))
                if not tested:
                    ok = False
    raised = any(p.end == 'raise' and any(
        u(t).startswith('os.path.isfile(') and not v for (t, v) in p.conds)
        for p in match)
    if n_open == 0:
        res.undecided('R-C20-missing', q, 'opens',
                      'no open() of the include target on the match paths')
        return
    res.check(ok and raised, 'R-C20-missing', q,
              'open(<target>) behind a raising isfile test',
              'a missing include target fails the load ({} opening '
              'path(s))'.format(n_open),
              'no raising os.path.isfile test on the opened path precedes '
              'an open', f.module.loc(lp))


def run(ctx, res):
    model = ctx.model
    ident = rule_identity(ctx, res)
    rule_kinds(ctx, res, ident)
    rule_tabs(ctx, res)
    rule_missing(ctx, res, ident)
    from . import memo
    memo.rule_no_incomplete_memo(ctx, res, 'R-C20-identity', P8,
                                 '#include expansion')
    f = model.func(P8 + ':process_includes')
    n = splice.check_yield_loops(model, f, res)
    if n < 1:
        res.vanished('R-C14-splice', f.qual, 'splice loops',
                     'expected the loop(s) splicing included lines, found '
                     '{}'.format(n))
