"""C13: `build.do_build` decided by evaluation.

do_build is evaluated (concrete-control abstract interpreter, absint/cx.py)
with the file system, the cart reader / writer, the empty-cart factory and
the require machinery replaced by stand-ins.  Every cart the stand-ins hand
out carries six section objects that are identified by where they came from,
so for every argument configuration the sections of the cart handed to
`file.to_file` are read off by identity and compared with the statement of
the property:

    --X SRC        -> section X of SRC            (--lua SRC.lua: the built Lua)
    --empty-X      -> section X of an empty cart
    neither        -> section X of the previous OUT, or of an empty cart

and: conflicting / unusable arguments return non-zero WITHOUT calling the
writer; success writes exactly once, to args.filename, and returns 0.

Configurations: each section x {unspecified, .p8, .p8.png, empty, (lua) .lua}
with the others unspecified, x {OUT exists, OUT absent}; mixed assignments;
the error cases.  Sampled in the configuration space (the loop over sections
treats them alike except for `.lua`), exhaustive in cart contents (opaque)."""
from ..absint import cx as CX
from ..core import AnalysisError

B = 'pico8.build.build'
SECTIONS = ('lua', 'gfx', 'gff', 'map', 'sfx', 'music')


class Build:
    def __init__(self, ctx):
        self.ctx = ctx
        self.model = ctx.model
        self.f = self.model.func(B + ':do_build')
        self.game_cls = CX.StubClass('Game')
        self.ns_cls = CX.StubClass('Namespace')

    def _game(self, origin):
        g = CX.Obj(self.game_cls)
        for s in SECTIONS:
            g.attrs[s] = CX.Opaque('section {} of {}'.format(s, origin),
                                   attrs={'origin': (origin, s)})
        g.attrs['label'] = CX.Opaque('label of ' + origin)
        g.attrs['origin'] = origin
        return g

    def run(self, out, exists, given, empty, extra=None):
        """given: {section: source filename}; empty: set of sections
        -> dict(rc=, writes=[(origin map, filename)], errors=n)"""
        cxi = CX.Cx(self.model, self.ctx.consts)
        args = CX.Obj(self.ns_cls)
        args.attrs['filename'] = out
        for s in SECTIONS:
            args.attrs[s] = given.get(s)
            args.attrs['empty_' + s] = s in empty
        for k, v in (('lua_path', None), ('optimize_tokens', False),
                     ('lua_format', False), ('lua_minify', False),
                     ('keep_all_names', False),
                     ('keep_names_from_file', None), ('indentwidth', 2)):
            args.attrs[k] = v
        args.attrs.update(extra or {})
        rec = {'writes': [], 'errors': 0, 'empties': [], 'loaded': []}

        def make_empty(cx, a, k, bound=None):
            g = self._game('empty#{}'.format(len(rec['empties'])))
            rec['empties'].append(g)
            return g

        def from_file(cx, a, k, bound=None):
            fn = a[0] if a else k.get('filename')
            g = self._game('file ' + str(fn))
            rec['loaded'].append(fn)
            return g

        def to_file(cx, a, k, bound=None):
            g = a[0] if a else k.get('game')
            fn = k.get('filename', a[1] if len(a) > 1 else None)
            secs = {}
            for s in SECTIONS:
                v = g.attrs.get(s) if isinstance(g, CX.Obj) else None
                secs[s] = getattr(v, 'attrs', {}).get('origin') \
                    if isinstance(v, CX.Opaque) else ('?', repr(v))
            rec['writes'].append((secs, fn, getattr(g, 'attrs', {}).get(
                'origin')))
            rec['writer'] = (k.get('lua_writer_cls'), k.get('lua_writer_args'))
            return None

        def error(cx, a, k, bound=None):
            rec['errors'] += 1
            return None

        def lua_from_lines(cx, a, k, bound=None):
            return CX.Opaque('parsed lua source', attrs={
                'origin': ('parsed', 'lua'), 'tokens': [], 'root': None})

        def prepend(cx, a, k, bound=None):
            return CX.Opaque('built lua', attrs={'origin': ('built', 'lua')})

        fileobj = CX.Opaque('file', {
            'read': lambda c, a, k: b'', 'close': lambda c, a, k: None})
        fileobj.methods['__enter__'] = lambda c, a, k: fileobj
        fileobj.methods['__exit__'] = lambda c, a, k: None
        cxi.hooks = {
            'pico8.game.game:Game.make_empty_game': make_empty,
            'pico8.game.file:from_file': from_file,
            'pico8.game.file:to_file': to_file,
            'pico8.util:error': error,
            'pico8.lua.lua:Lua.from_lines': lua_from_lines,
            B + ':_evaluate_require': lambda c, a, k, bound=None: None,
            B + ':_prepend_package_lua': prepend,
            B + ':_remove_global_return': lambda c, a, k, bound=None: None,
        }
        cxi.ext_hooks = {
            'os.path.exists': lambda c, a, k: a[0] in exists,
            'os.path.isfile': lambda c, a, k: a[0] in exists,
            'open': lambda c, a, k: fileobj,
        }
        paths = cxi.explore(lambda: cxi.call_function(self.f, [args], {}))
        if len(paths) != 1 or paths[0][0]:
            raise CX.CxError('do_build forks on opaque contents')
        kind, val = paths[0][1]
        rec['rc'] = ('raise', val.tname) if kind == 'raise' else val
        return rec


def _cases():
    out8, outp = 'out.p8', 'out.p8.png'
    cases = []
    for out in (out8, outp):
        for prev in (True, False):
            ex = {out} if prev else set()
            # nothing given at all
            cases.append(('no section arguments', out, set(ex), {}, set()))
            for s in SECTIONS:
                for src in ('src.p8', 'src.p8.png'):
                    cases.append(('--{} {}'.format(s, src), out,
                                  ex | {src}, {s: src}, set()))
                cases.append(('--empty-{}'.format(s), out, set(ex), {},
                              {s}))
            cases.append(('--lua main.lua', out, ex | {'main.lua'},
                          {'lua': 'main.lua'}, set()))
            # mixed
            cases.append(('mixed', out, ex | {'a.p8', 'b.p8.png', 'm.lua'},
                          {'lua': 'm.lua', 'gfx': 'a.p8', 'sfx': 'b.p8.png'},
                          {'map', 'music'}))
    return cases


def _errors():
    out = 'out.p8'
    return [
        ('--gfx and --empty-gfx together', out, {out, 'a.p8'},
         {'gfx': 'a.p8'}, {'gfx'}),
        ('--lua and --empty-lua together', out, {'a.p8'},
         {'lua': 'a.p8'}, {'lua'}),
        ('missing source file', out, {out}, {'sfx': 'gone.p8'}, set()),
        ('source with an unsupported extension', out, {out, 'a.txt'},
         {'map': 'a.txt'}, set()),
        ('.lua source for a data section', out, {out, 'a.lua'},
         {'gfx': 'a.lua'}, set()),
        ('a later section conflicts after an earlier one was accepted', out,
         {out, 'a.p8'}, {'gfx': 'a.p8', 'music': 'a.p8'}, {'music'}),
        ('output name without .p8 / .p8.png', 'out.png', {'a.p8'},
         {'gfx': 'a.p8'}, set()),
    ]


def report(ctx, res, rule='R-C13-select'):
    """-> True when do_build could be followed"""
    q = B + ':do_build'
    try:
        b = Build(ctx)
    except Exception as e:
        res.vanished(rule, q, 'do_build', str(e)[:80])
        return False
    f = b.f
    bad = []
    n = 0
    try:
        for (what, out, exists, given, empty) in _cases():
            r = b.run(out, exists, given, empty)
            n += 1
            tag = '{} -> {} ({})'.format(
                what, out, 'OUT exists' if out in exists else 'OUT absent')
            if r['rc'] != 0:
                bad.append('{}: returns {} instead of 0'.format(tag, r['rc']))
                continue
            if len(r['writes']) != 1 or r['writes'][0][1] != out:
                bad.append('{}: the result is written {} time(s) to {}'
                           .format(tag, len(r['writes']),
                                   [w[1] for w in r['writes']]))
                continue
            secs = r['writes'][0][0]
            wcls, wargs = r.get('writer', (None, None))
            if wcls is not None or wargs is not None:
                bad.append('{}: without --lua-format / --lua-minify the cart '
                           'is written through {} with {}: the Lua section is '
                           'not the source\'s text'.format(tag, wcls, wargs))
            for s in SECTIONS:
                org = secs[s]
                if s in given and given[s].endswith('.lua'):
                    ok = org == ('built', 'lua')
                    want = 'the Lua built from ' + given[s]
                elif s in given:
                    ok = org == ('file ' + given[s], s)
                    want = 'section {} of {}'.format(s, given[s])
                elif s in empty:
                    ok = isinstance(org, tuple) and str(org[0]).startswith(
                        'empty#') and org[1] == s
                    want = 'the empty ' + s
                elif out in exists:
                    ok = org == ('file ' + out, s)
                    want = 'the previous {} of {}'.format(s, out)
                else:
                    ok = isinstance(org, tuple) and str(org[0]).startswith(
                        'empty#') and org[1] == s
                    want = 'the empty ' + s
                if not ok:
                    bad.append('{}: section {} of the written cart is {} '
                               'instead of {}'.format(tag, s, org, want))
        for (what, out, exists, given, empty) in _errors():
            r = b.run(out, exists, given, empty)
            n += 1
            if r['rc'] == 0 or r['rc'] is None or r['writes']:
                bad.append('{}: returns {} and writes {} time(s) -- must '
                           'fail and leave OUT untouched'.format(
                               what, r['rc'], len(r['writes'])))
    except AnalysisError as e:
        res.info(rule, q, 'do_build evaluated', 'not followed: ' +
                 str(e)[:140], f.loc)
        return False
    res.check(not bad, rule, q,
              'every section of the written cart comes from the source the '
              'arguments name; unusable arguments fail without writing '
              '(evaluated)',
              '{} argument configurations evaluated with identity-tagged '
              'stand-in carts'.format(n), '; '.join(bad[:3]) + (
                  ' (+{} more)'.format(len(bad) - 3) if len(bad) > 3 else ''),
              f.loc, semantic=True)
    return True
