"""C17 -- section accessors read back what was set and touch nothing else.

Rules: R-C17-bounds, R-C17-frame, R-C17-inverse.
"""
import ast

from ..absint.symx import (Aff, BV, NONE, ObjRef, Path, atom, ZERO, ONE, TOP,
                           Evaluator)
from ..core import AnalysisError
from ..refs import formats as ref
from ..srcmodel import walk_own
from . import layouts as LY
from .c18 import _region_sizes

EXPLANATION = (
    'Each accessor is evaluated over a bit-provenance / affine-index '
    'abstract domain (absint/symx.py): memory bytes, parameters and hex '
    'digits are sources; & | ^ ~ << >> and disjoint + act cell-wise, index '
    'arithmetic stays affine over symbols with interval ranges; `if`s split '
    'paths and refine ranges / record constraints on guarded affine forms. '
    'R-C17-bounds: for every region load/store, under the dominating guards, '
    'asserts and the documented argument ranges, 0 <= index < region size '
    'and, for row-major forms, the column part stays inside its row (no wrap '
    'into the next row); a callee\'s leading asserts must hold under the '
    'guards of a caller that documents clipping. R-C17-frame: a setter '
    'stores only at the addressed byte(s) and every bit outside the '
    'addressed field is, by provenance, the old bit at the same position. '
    'R-C17-inverse: the getter\'s field<-memory bit map is the inverse of the '
    'setter\'s memory<-field bit map (sfx notes and properties, music '
    'channels and flags, gff flag truth tables, sprite nibbles by pixel '
    'parity, map cells incl. rows 32-63 in gfx memory at 4096 + (y-32)*128 '
    '+ x).')

ASSUMPTIONS = [
    'documented argument ranges (table DOC_RANGES): ids, note numbers, '
    'pixel values 0-15, offsets and enumerate indices >= 0',
    'sequences of calls against a model are not enumerated: each call is '
    'decided, the composition is trivial but not mechanised',
]

DOC_RANGES = {
    # symbol -> (lo, hi) taken from the docstrings; listed, not inferred
    'sfx_id': (0, 63), 'note': (0, 31), 'music_id': (0, 63),
    'channel': (0, 3), 'gff_id': (0, 255), 'sprite_id': (0, 255),
}


def region_size_of(ctx, sizes, f, arr):
    if arr == 'self._gfx._data':
        return sizes['gfx'], 'gfx'
    name = {'Gfx': 'gfx', 'Map': 'map', 'Gff': 'gff', 'Music': 'music',
            'Sfx': 'sfx'}.get(f.cls.name if f.cls else '')
    return sizes.get(name), name


def check_bounds(ctx, res, ev, f, sizes, label, stride=None):
    n = 0
    for (arr, idx, node, kind, assumes, (lo, hi), path) in getattr(
            ev, 'accesses', []):
        size, rname = region_size_of(ctx, sizes, f, arr)
        if size is None:
            res.undecided('R-C17-bounds', f.qual, label + ' ' + arr,
                          'unknown region array')
            continue
        n += 1
        inst = '{}: {} {}[{}]'.format(label, kind, rname, idx)
        tag = [a for a in assumes if len(a) == 2 and '%' in a[0]]
        if tag:
            inst += ' when {} is {}'.format(tag[-1][0], tag[-1][1])
        loc = f.module.loc(node)
        if lo is None or lo < 0:
            res.violation('R-C17-bounds', f.qual, inst,
                          'index can be negative / unbounded below '
                          '(lower bound {})'.format(lo), loc)
            continue
        if hi is None or hi >= size:
            res.violation(
                'R-C17-bounds', f.qual, inst,
                'index reaches {} under the guards {} but the {} region has '
                '{} bytes: the access falls outside the region '
                '(IndexError) instead of being clipped'.format(
                    hi, [a for a in assumes if a != ('continue',)][-3:],
                    rname, size), loc)
            continue
        ok_row = True
        detail = ''
        if stride:
            ev.cur = path
            col = Aff({s: c for s, c in idx.coeffs.items()
                       if c % stride != 0}, idx.const % stride)
            clo, chi = ev.bounds(col)
            if clo is None or clo < 0 or chi is None or chi >= stride:
                ok_row = False
                detail = 'column part {} ranges over [{}, {}]'.format(
                    col, clo, chi)
        if ok_row:
            res.holds('R-C17-bounds', f.qual, inst,
                      'index in [{}, {}] within {} bytes'.format(lo, hi, size),
                      loc)
        else:
            res.violation(
                'R-C17-bounds', f.qual, inst,
                '{} but a row has {} bytes: the access wraps into the next '
                'row instead of being clipped'.format(detail, stride), loc)
    return n


# ------------------------------------------------------------------- sfx ---

def rule_sfx(ctx, res, sizes):
    S = 'pico8.sfx.sfx:Sfx'
    r = {'id': DOC_RANGES['sfx_id'], 'note': DOC_RANGES['note']}
    base = Aff({'id': 68, 'note': 2}, 0)
    env0 = {'id': Aff.sym('id'), 'note': Aff.sym('note')}
    ev, ps = LY.run_method(ctx, S + '.get_note', env0, r)
    live = [p for p in ps if not p.raised]
    if len(live) != 1 or not isinstance(live[0].ret, tuple) or \
            len(live[0].ret) != 4:
        res.undecided('R-C17-inverse', S + '.get_note', 'shape',
                      'expected one path returning a 4-tuple')
        return
    f = ctx.model.func(S + '.get_note')
    check_bounds(ctx, res, ev, f, sizes, 'get_note')
    fields = ['pitch', 'waveform', 'volume', 'effect']
    widths = {'pitch': 6, 'waveform': 4, 'volume': 3, 'effect': 3}
    get_map = {}
    for name, bv in zip(fields, live[0].ret):
        bv = ev.to_bv(bv)
        pos = LY.bv_positions(bv, base, max(bv.width, widths[name]))
        get_map[name] = pos
    res.tables['sfx_get_note'] = {k: [str(x) for x in v]
                                  for k, v in get_map.items()}
    fs = ctx.model.func(S + '.set_note')
    for name in fields:
        env = dict(env0)
        for o in fields:
            env[o] = NONE
        env[name] = Aff.sym(name)
        rr = dict(r)
        rr[name] = (0, (1 << widths[name]) - 1)
        ev2, ps2 = LY.run_method(ctx, S + '.set_note', env, rr)
        live2 = [p for p in ps2 if not p.raised]
        if len(live2) != 1:
            res.undecided('R-C17-frame', fs.qual, 'set ' + name,
                          '{} live paths'.format(len(live2)))
            continue
        check_bounds(ctx, res, ev2, fs, sizes, 'set_note(' + name + ')')
        stores = live2[0].stores
        placed = {}
        frame_bad = []
        offs = set()
        for (arr, idx, bv, node) in stores:
            d = idx - base
            if not d.is_const() or d.const not in (0, 1) or \
                    arr != 'self._data':
                frame_bad.append('store at {}'.format(idx))
                continue
            offs.add(d.const)
            for k in range(8):
                c = bv.cell(k)
                a = LY.cell_single(c)
                if a is None:
                    if c is TOP or not c.is_const():
                        frame_bad.append('byte+{} bit {} is {}'.format(
                            d.const, k, c))
                    else:
                        frame_bad.append('byte+{} bit {} forced to {}'.format(
                            d.const, k, c.const()))
                    continue
                mp = LY.mem_atom_pos(a, base)
                if mp is not None:
                    if mp != ('self._data', d.const, k):
                        frame_bad.append('byte+{} bit {} <- {}'.format(
                            d.const, k, mp))
                elif a[0] == ('sym', name):
                    placed[(d.const, k)] = a[1]
                else:
                    frame_bad.append('byte+{} bit {} <- {}'.format(
                        d.const, k, a))
        res.check(not frame_bad and len(stores) <= 2, 'R-C17-frame', fs.qual,
                  'set_note({}) keeps every other bit'.format(name),
                  '{} field bits placed, all other bits are the old bits at '
                  'the same position'.format(len(placed)),
                  'set_note({}) changes bits outside the field: {}'.format(
                      name, frame_bad[:4]), fs.loc)
        # inverse
        want = {}
        for j, pos in enumerate(get_map[name][:widths[name]]):
            if pos is not None and pos[0] == 'self._data':
                want[(pos[1], pos[2])] = j
        res.check(placed == want, 'R-C17-inverse', fs.qual,
                  'get_note/set_note agree on ' + name,
                  'field bit j <-> (byte, bit): {}'.format(sorted(
                      (v, k) for k, v in placed.items())),
                  'setter places {} but getter reads {}: a note that was '
                  'set is read back differently'.format(
                      sorted((v, k) for k, v in placed.items()),
                      sorted((v, k) for k, v in want.items())), fs.loc)
    # properties
    gp = ctx.model.func(S + '.get_properties')
    ev3, ps3 = LY.run_method(ctx, S + '.get_properties',
                             {'id': Aff.sym('id')}, {'id': (0, 63)})
    check_bounds(ctx, res, ev3, gp, sizes, 'get_properties')
    names = ['editor_mode', 'note_duration', 'loop_start', 'loop_end']
    got = []
    live3 = [p for p in ps3 if not p.raised]
    if len(live3) == 1 and isinstance(live3[0].ret, tuple):
        for bv in live3[0].ret:
            pos = LY.bv_positions(ev3.to_bv(bv), Aff({'id': 68}, 0), 8)
            offs = {p[1] for p in pos if p and p[0] == 'self._data'}
            bits = [p[2] if p and p[0] == 'self._data' else None
                    for p in pos]
            got.append((offs.pop() if len(offs) == 1 else None,
                        bits == list(range(8))))
    sp = ctx.model.func(S + '.set_properties')
    for i, nm in enumerate(names):
        env = {'id': Aff.sym('id')}
        for o in names:
            env[o] = NONE
        env[nm] = BV.source(('sym', nm), 8)
        ev4, ps4 = LY.run_method(ctx, S + '.set_properties', env,
                                 {'id': (0, 63)})
        check_bounds(ctx, res, ev4, sp, sizes, 'set_properties(' + nm + ')')
        live4 = [p for p in ps4 if not p.raised]
        ok = False
        off = None
        if len(live4) == 1 and len(live4[0].stores) == 1:
            (arr, idx, bv, node) = live4[0].stores[0]
            d = idx - Aff({'id': 68}, 0)
            whole = all(LY.cell_single(bv.cell(k)) == (('sym', nm), k)
                        for k in range(8))
            if d.is_const() and whole and arr == 'self._data':
                off = d.const
                ok = True
        res.check(ok, 'R-C17-frame', sp.qual,
                  'set_properties({}) stores one byte'.format(nm),
                  'offset {}'.format(off),
                  'set_properties({}) stores elsewhere / more than the '
                  'value'.format(nm), sp.loc)
        g = got[i] if i < len(got) else (None, False)
        res.check(ok and g == (off, True), 'R-C17-inverse', sp.qual,
                  'get/set_properties agree on ' + nm,
                  'byte offset {}'.format(off),
                  'set_properties writes {} at offset {} but '
                  'get_properties reads position {} from offset {}'.format(
                      nm, off, i, g[0]), sp.loc)


# ----------------------------------------------------------------- music ---

def rule_music(ctx, res, sizes):
    M = 'pico8.music.music:Music'
    r = {'id': DOC_RANGES['music_id'], 'channel': DOC_RANGES['channel']}
    base = Aff({'id': 4, 'channel': 1}, 0)
    gc = ctx.model.func(M + '.get_channel')
    ev, ps = LY.run_method(ctx, M + '.get_channel',
                           {'id': Aff.sym('id'),
                            'channel': Aff.sym('channel')}, r)
    check_bounds(ctx, res, ev, gc, sizes, 'get_channel')
    rets = [p for p in ps if not p.raised]
    val_paths = [p for p in rets if p.ret is not NONE]
    none_paths = [p for p in rets if p.ret is NONE]
    get_bits = None
    if len(val_paths) == 1:
        bv = ev.to_bv(val_paths[0].ret)
        get_bits = LY.bv_positions(bv, base, 8)
    thr_ok = len(none_paths) == 1 and any(
        a[0].replace(' ', '') == 'pattern>63' and a[1] is True
        for a in none_paths[0].assume if len(a) == 2)
    sc = ctx.model.func(M + '.set_channel')
    # pattern given
    ev2, ps2 = LY.run_method(ctx, M + '.set_channel',
                             {'id': Aff.sym('id'),
                              'channel': Aff.sym('channel'),
                              'pattern': Aff.sym('pattern')},
                             dict(r, pattern=(0, 63)))
    check_bounds(ctx, res, ev2, sc, sizes, 'set_channel')
    live = [p for p in ps2 if not p.raised]
    ok_frame = ok_inv = False
    detail = ''
    if len(live) == 1 and len(live[0].stores) == 1:
        (arr, idx, bv, node) = live[0].stores[0]
        same_idx = (idx - base).is_const() and (idx - base).const == 0
        b7 = LY.cell_single(bv.cell(7))
        keep7 = b7 is not None and LY.mem_atom_pos(b7, base) == (
            'self._data', 0, 7)
        lowbits = [LY.cell_single(bv.cell(k)) for k in range(6)]
        low_ok = all(a == (('sym', 'pattern'), k)
                     for k, a in enumerate(lowbits))
        b6 = bv.cell(6)
        ok_frame = same_idx and keep7
        want_get = [('self._data', 0, k) for k in range(7)] + [
            ('const', 0)]
        ok_inv = low_ok and b6 == ZERO and get_bits == want_get and thr_ok
        detail = 'index-same={} keeps-bit7={} low6=pattern:{} bit6-zero={} ' \
                 'getter-reads-low7={} silent-threshold->63:{}'.format(
                     same_idx, keep7, low_ok, b6 == ZERO,
                     get_bits == want_get, thr_ok)
    res.check(ok_frame, 'R-C17-frame', sc.qual,
              'set_channel keeps the loop-flag bit', detail,
              'set_channel disturbs bit 7 (a loop flag) or another byte: ' +
              detail, sc.loc)
    res.check(ok_inv, 'R-C17-inverse', sc.qual,
              'get_channel/set_channel agree', detail,
              'channel value is not read back as set: ' + detail, sc.loc)
    # silent channel
    ev3, ps3 = LY.run_method(ctx, M + '.set_channel',
                             {'id': Aff.sym('id'),
                              'channel': Aff.sym('channel'),
                              'pattern': NONE}, dict(r))
    live3 = [p for p in ps3 if not p.raised]
    ok = False
    if len(live3) == 1 and len(live3[0].stores) == 1:
        # value = 0x40 + channel + 1 in 65..68: > 63 and < 128
        st = live3[0].stores[0]
        srcs = [LY.cell_single(st[2].cell(k)) for k in range(7)]
        names = {a[0] for a in srcs if a}
        if len(names) == 1:
            (tag, expr) = names.pop()
            ok = tag == 'expr' and expr.replace(' ', '') in (
                'channel+65', '65+channel')
    res.check(ok and thr_ok, 'R-C17-inverse', sc.qual,
              'silent channel is stored as 0x41+channel and read as None',
              '', 'the silent encoding and the getter\'s > 63 test disagree',
              sc.loc)
    # properties
    gp = ctx.model.func(M + '.get_properties')
    ev4, ps4 = LY.run_method(ctx, M + '.get_properties',
                             {'id': Aff.sym('id')}, {'id': (0, 63)})
    check_bounds(ctx, res, ev4, gp, sizes, 'get_properties')
    b4 = Aff({'id': 4}, 0)
    got = []
    live4 = [p for p in ps4 if not p.raised]
    if len(live4) == 1 and isinstance(live4[0].ret, tuple):
        for bv in live4[0].ret:
            a = LY.cell_single(ev4.to_bv(bv).cell(0))
            got.append(LY.mem_atom_pos(a, b4) if a else None)
    sp = ctx.model.func(M + '.set_properties')
    for i, nm in enumerate(['begin', 'end', 'stop']):
        env = {'id': Aff.sym('id'), 'begin': NONE, 'end': NONE, 'stop': NONE}
        env[nm] = BV.source(('sym', nm), 1)
        ev5, ps5 = LY.run_method(ctx, M + '.set_properties', env,
                                 {'id': (0, 63)})
        check_bounds(ctx, res, ev5, sp, sizes, 'set_properties(' + nm + ')')
        live5 = [p for p in ps5 if not p.raised]
        okf = oki = False
        if len(live5) == 1 and len(live5[0].stores) == 1:
            (arr, idx, bv, node) = live5[0].stores[0]
            d = idx - b4
            if d.is_const():
                keep = all(
                    (LY.cell_single(bv.cell(k)) is not None and
                     LY.mem_atom_pos(LY.cell_single(bv.cell(k)), b4) ==
                     ('self._data', d.const, k)) for k in range(7))
                flag = LY.cell_single(bv.cell(7)) == (('sym', nm), 0)
                okf = keep and flag
                oki = okf and i < len(got) and got[i] == (
                    'self._data', d.const, 7) and d.const == \
                    {v: k for k, v in ref.MUSIC_FLAG_OF_BYTE.items()}[i]
        res.check(okf, 'R-C17-frame', sp.qual,
                  'set_properties({}) changes bit 7 only'.format(nm), '',
                  'set_properties({}) disturbs the channel value'.format(nm),
                  sp.loc)
        res.check(oki, 'R-C17-inverse', sp.qual,
                  'get/set_properties agree on ' + nm, '',
                  'flag {} is not read back from the byte it was written '
                  'to'.format(nm), sp.loc)


# ------------------------------------------------------------------- gff ---

def rule_gff(ctx, res, sizes):
    G = 'pico8.gff.gff:Gff'
    r = {'id': DOC_RANGES['gff_id']}
    base = Aff({'id': 1}, 0)
    flags = BV.source(('sym', 'flags'), 10)
    env = {'id': Aff.sym('id'), 'flags': flags}

    def table_of(cell, k):
        """truth table over (old_k, flags_k) as a dict, or None"""
        if cell is TOP:
            return None
        old = (('mem', 'self._data', base.key()), k)
        fl = (('sym', 'flags'), k)
        if not set(cell.vars) <= {old, fl}:
            return None
        out = {}
        for o in (0, 1):
            for f_ in (0, 1):
                idx = 0
                for j, v in enumerate(cell.vars):
                    idx |= (o if v == old else f_) << j
                out[(o, f_)] = (cell.table >> idx) & 1
        return out
    want = {
        'set_flags': lambda o, f_: o | f_,
        'clear_flags': lambda o, f_: o & (1 - f_),
        'reset_flags': lambda o, f_: f_,
    }
    for name, fn in want.items():
        m = ctx.model.func(G + '.' + name)
        ev, ps = LY.run_method(ctx, G + '.' + name, env, r)
        check_bounds(ctx, res, ev, m, sizes, name)
        live = [p for p in ps if not p.raised]
        ok = False
        detail = ''
        if len(live) == 1 and len(live[0].stores) == 1:
            (arr, idx, bv, node) = live[0].stores[0]
            same = (idx - base).is_const() and (idx - base).const == 0
            good = same and bv.width <= 8
            for k in range(8):
                t = table_of(bv.cell(k), k)
                if t is None or any(t[(o, f_)] != fn(o, f_)
                                    for o in (0, 1) for f_ in (0, 1)):
                    good = False
                    detail = 'bit {}: {}'.format(k, bv.cell(k))
            ok = good
        res.check(ok, 'R-C17-frame', m.qual,
                  name + ': per-bit truth table, no cross-bit effect',
                  '8 bits, each a function of the same bit of old value and '
                  'argument', name + ' computes something else: ' + detail,
                  m.loc)
    m = ctx.model.func(G + '.get_flags')
    ev, ps = LY.run_method(ctx, G + '.get_flags', env, r)
    check_bounds(ctx, res, ev, m, sizes, 'get_flags')
    live = [p for p in ps if not p.raised]
    ok = False
    if len(live) == 1 and isinstance(live[0].ret, BV):
        bv = live[0].ret
        ok = bv.width <= 8
        for k in range(8):
            t = table_of(bv.cell(k), k)
            if t is None or any(t[(o, f_)] != (o & f_)
                                for o in (0, 1) for f_ in (0, 1)):
                ok = False
    res.check(ok, 'R-C17-inverse', m.qual,
              'get_flags returns stored AND requested, bit for bit', '',
              'get_flags is not the bitwise AND of the stored byte and the '
              'mask', m.loc)


# ------------------------------------------------------------------- gfx ---

def _loop_parts(f):
    outer = [n for n in f.node.body if isinstance(n, ast.For)]
    if not outer:
        raise AnalysisError('outer loop not found in ' + f.qual)
    outer = outer[0]
    pre = f.node.body[:f.node.body.index(outer)]
    return pre, outer


def _break_monotone(cond, loopvars):
    """cond = (('affcmp', op, d), val): true once => true for every larger
    value of the loop variables"""
    if not cond or not isinstance(cond[0], tuple) or cond[0][0] != 'affcmp':
        return False
    (_k, op, d), val = cond
    co = [d.coeffs.get(v, 0) for v in loopvars]
    if not any(co):
        return True               # does not depend on the loop position
    up = {ast.Gt: True, ast.GtE: True, ast.Lt: False, ast.LtE: False}.get(op)
    if up is None:
        return False
    if not val:
        up = not up
    return all(c >= 0 for c in co) if up else all(c <= 0 for c in co)


def rule_gfx(ctx, res, sizes):
    """symbolic analysis (all arguments) first; when the loops are written in
    a form it cannot follow, whole-function evaluation on symbolic sheet
    memory for a fixed set of calls"""
    mark = len(res.instances)
    G = 'pico8.gfx.gfx:Gfx'
    try:
        _rule_gfx_symbolic(ctx, res, sizes)
        if not any(i.verdict == 'UNDECIDED' for i in res.instances[mark:]):
            # the symbolic rule bounds every index and fixes the nibble
            # parity for ALL arguments; WHICH pixel lands in which nibble
            # (sprite id -> sheet position, offsets, the clip at 128) is
            # decided by evaluating listed calls on symbolic sheet memory
            _set_sprite_evaluated(
                ctx, res, ctx.model.func(G + '.set_sprite'), sizes,
                'addressing clause (the symbolic rule covers bounds and '
                'parity for all arguments)')
            _get_sprite_evaluated(ctx, res,
                                  ctx.model.func(G + '.get_sprite'), sizes,
                                  {True: 'low', False: 'high'})
            return
        why = next(i.detail for i in res.instances[mark:]
                   if i.verdict == 'UNDECIDED')
    except AnalysisError as e:
        why = str(e)
    # drop the partial results of the symbolic attempt; evaluate instead
    kept = [i for i in res.instances[mark:] if i.verdict != 'UNDECIDED'
            and 'set_sprite' not in i.where and 'get_sprite' not in i.where]
    del res.instances[mark:]
    res.instances.extend(kept)
    ok = _set_sprite_evaluated(ctx, res, ctx.model.func(G + '.set_sprite'),
                               sizes, why)
    _get_sprite_evaluated(ctx, res, ctx.model.func(G + '.get_sprite'), sizes,
                          {True: 'low', False: 'high'})


SET_SPRITE_SHAPES = {
    'rect 8x8': [8] * 8, 'rect 9x9': [9] * 9, 'ragged 3,8,12,1': [3, 8, 12, 1],
    'first row short 4,8,12': [4, 8, 12], 'tall 1x12': [1] * 12,
    'empty rows 0,5,0': [0, 5, 0], 'wide 20': [20, 20]}


def _set_sprite_evaluated(ctx, res, f, sizes, why):
    from ..absint import cx as CX
    G = 'pico8.gfx.gfx:Gfx'
    size = sizes.get('gfx', 8192)
    mem = [BV.source(('mem', 'gfx', k), 8) for k in range(size)]
    cxi = CX.Cx(ctx.model, ctx.consts)
    cls = ctx.model.cls(G)
    try:
        transparent = ctx.consts.module_const('pico8.gfx.gfx', 'TRANSPARENT')
    except AnalysisError:
        transparent = None
    cases = []
    for sid in (0, 15, 17, 100, 240, 255):
        for name, lens in SET_SPRITE_SHAPES.items():
            for (xo, yo) in ((0, 0), (2, 0), (5, 7)):
                cases.append((sid, name, lens, xo, yo))
    bad = None
    raised = None
    try:
        for (sid, name, lens, xo, yo) in cases:
            rows = []
            for r, n in enumerate(lens):
                row = []
                for c in range(n):
                    if isinstance(transparent, int) and (r + c) % 5 == 4:
                        row.append(transparent)
                    else:
                        row.append(BV.source(('pix', r, c), 4))
                rows.append(row)
            state = {}

            def go():
                o = CX.Obj(cls)
                o.attrs['_data'] = CX.Seq('bytearray', list(mem))
                o.attrs['_version'] = 8
                state['o'] = o
                return cxi.call(cxi.getattr(o, 'set_sprite'),
                                [sid, [list(r) for r in rows]],
                                {'tile_x_offset': xo, 'tile_y_offset': yo})
            paths = cxi.explore(go)
            if len(paths) != 1 or paths[0][0]:
                raise CX.CxError('set_sprite branches on pixel values')
            kind, val = paths[0][1]
            call = 'set_sprite({}, <{}>, tile_x_offset={}, tile_y_offset={})' \
                .format(sid, name, xo, yo)
            if kind == 'raise':
                raised = bad = '{} raises {}'.format(call, val.tname)
                break
            want = list(mem)
            for r, row in enumerate(rows):
                for c, v in enumerate(row):
                    if not isinstance(v, BV):
                        continue
                    px = (sid % 16) * 8 + xo + c
                    py = (sid // 16) * 8 + yo + r
                    if px > 127 or py > 127:
                        continue
                    b = want[py * 64 + px // 2]
                    cells = list(b.cells) + [ZERO] * (8 - len(b.cells))
                    for k in range(4):
                        cells[k + (4 if px % 2 else 0)] = v.cell(k)
                    want[py * 64 + px // 2] = BV(cells)
            got = state['o'].attrs['_data'].items
            if len(got) != size:
                bad = '{} changes the size of the region to {}'.format(
                    call, len(got))
                break
            for i in range(size):
                g = got[i] if isinstance(got[i], BV) else BV.const(got[i], 8)
                if g != want[i]:
                    bad = ('{}: byte {} (pixel row {}, x {}..{}) becomes {} '
                           'instead of {}'.format(
                               call, i, i // 64, (i % 64) * 2,
                               (i % 64) * 2 + 1, g, want[i]))
                    break
            if bad:
                break
    except AnalysisError as e:
        res.undecided('R-C17-frame', f.qual, 'set_sprite loops',
                      'loops not in the recognised form ({}) and whole-'
                      'function evaluation could not follow them: {}'.format(
                          why[:80], str(e)[:100]), f.loc)
        return False
    n = len(cases)
    res.check(bad is None, 'R-C17-frame', f.qual,
              'set_sprite changes the addressed nibbles and nothing else '
              '(evaluated)',
              '{} calls on symbolic sheet memory and symbolic pixels: 6 ids '
              'x {} shapes (rectangular, ragged, crossing the right and '
              'bottom edges, with TRANSPARENT holes) x 3 offsets'.format(
                  n, len(SET_SPRITE_SHAPES)),
              bad or '', f.loc, semantic=True)
    res.check(raised is None, 'R-C17-bounds', f.qual,
              'set_sprite: every sheet access in bounds (evaluated)',
              '{} calls evaluated, none raises'.format(n), raised or '',
              f.loc, semantic=True)
    return bad is None


def _rule_gfx_symbolic(ctx, res, sizes):
    G = 'pico8.gfx.gfx:Gfx'
    # ---- set_sprite -------------------------------------------------------
    f = ctx.model.func(G + '.set_sprite')
    pre, outer = _loop_parts(f)
    inner = [n for n in outer.body if isinstance(n, ast.For)]
    if len(inner) != 1:
        res.undecided('R-C17-bounds', f.qual, 'loops', 'inner loop not found')
        return

    def enum_targets(lp):
        if isinstance(lp.iter, ast.Call) and isinstance(
                lp.iter.func, ast.Name) and lp.iter.func.id == 'enumerate' \
                and isinstance(lp.target, ast.Tuple) and \
                len(lp.target.elts) == 2:
            return lp.target.elts[0].id, lp.target.elts[1].id
        raise AnalysisError('loop is not `for i, v in enumerate(...)`')
    try:
        yv, _row = enum_targets(outer)
        xv, valv = enum_targets(inner[0])
    except AnalysisError as e:
        res.undecided('R-C17-bounds', f.qual, 'loops', str(e))
        return
    r = {'id': DOC_RANGES['sprite_id'], 'tile_x_offset': (0, None),
         'tile_y_offset': (0, None), xv: (0, None), yv: (0, None)}
    env = {'id': Aff.sym('id'), 'tile_x_offset': Aff.sym('tile_x_offset'),
           'tile_y_offset': Aff.sym('tile_y_offset'), xv: Aff.sym(xv),
           yv: Aff.sym(yv), valv: BV.source(('sym', 'val'), 4)}
    k_in = outer.body.index(inner[0])
    if outer.body[k_in + 1:]:
        res.undecided('R-C17-bounds', f.qual, 'loops',
                      'statements after the pixel loop in the row loop')
        return
    n_outer = len(pre) + k_in
    ev, ps = LY.run_method(ctx, G + '.set_sprite', env, r,
                           body=pre + outer.body[:k_in] + inner[0].body)
    # a `break` ends this and every later iteration: it only equals "skip
    # this pixel" when its condition, once true, stays true as the loop
    # variable grows
    for p in ps:
        for a in p.assume:
            if a and a[0] == 'break':
                mono = _break_monotone(a[1], (xv, yv))
                res.check(mono, 'R-C17-frame', f.qual,
                          'set_sprite: break condition is monotone in the '
                          'loop variable', '',
                          'a break under a condition that can become false '
                          'again skips pixels that lie inside the sheet',
                          f.loc)
    n = check_bounds(ctx, res, ev, f, sizes, 'set_sprite', stride=64)
    if n == 0:
        res.vanished('R-C17-bounds', f.qual, 'accesses', 'no region access')
    storing = [p for p in ps if p.stores]
    skipped = [p for p in ps if not p.stores and not p.raised]
    # frame + parity
    parity = {}
    for p in storing:
        par = [a for a in p.assume if len(a) == 2 and '% 2' in a[0]]
        if len(par) != 1 or len(p.stores) != 1:
            res.undecided('R-C17-frame', f.qual, 'set_sprite path',
                          'unexpected path shape')
            continue
        even = par[0][1] if '== 0' in par[0][0] else not par[0][1]
        (arr, idx, bv, node) = p.stores[0]
        lo_src = [LY.cell_single(bv.cell(k)) for k in range(4)]
        hi_src = [LY.cell_single(bv.cell(k)) for k in range(4, 8)]

        def is_val(srcs):
            return all(a == (('sym', 'val'), k) for k, a in enumerate(srcs))

        def is_old(srcs, off):
            return all(a is not None and a[0][0] == 'mem' and
                       Aff(dict(a[0][2][0]), a[0][2][1]) == idx and
                       a[1] == k + off for k, a in enumerate(srcs))
        if is_val(lo_src) and is_old(hi_src, 4):
            parity[even] = 'low'
        elif is_val(hi_src) and is_old(lo_src, 0):
            parity[even] = 'high'
        else:
            parity[even] = 'other'
    res.check(parity == {True: 'low', False: 'high'}, 'R-C17-frame', f.qual,
              'set_sprite writes one nibble and keeps the other',
              'even x -> low nibble, odd x -> high nibble, other nibble is '
              'the old one',
              'nibble placement is {}'.format(parity), f.loc)
    # transparent pixels store nothing
    tr = [p for p in skipped if any(len(a) == 2 and 'TRANSPARENT' in a[0]
                                    and a[1] is True for a in p.assume)]
    res.check(bool(tr), 'R-C17-frame', f.qual,
              'TRANSPARENT pixels store nothing', '',
              'no skipping path for TRANSPARENT', f.loc)
    # ---- get_sprite ---------------------------------------------------------
    g = ctx.model.func(G + '.get_sprite')
    # innermost body: locate the statement list containing the data_loc
    target = None
    for n_ in walk_own(g.node):
        if isinstance(n_, ast.For) and isinstance(n_.target, ast.Name) and \
                n_.target.id == 'x_offset':
            target = n_
    if target is None:
        _get_sprite_evaluated(ctx, res, g, sizes, parity)
        return
    r2 = {'ty': (0, 15), 'tx': (0, 15), 'y_offset': (0, 7),
          'x_offset': (0, 7)}
    env2 = {k: Aff.sym(k) for k in r2}
    env2['row'] = LY.SymArray('row')
    hooks = {'append': lambda ev_, e, en, pa: (pa.yields.append(
        ev_.ev(e.args[0], en, pa)) or NONE)}
    ev2, ps2 = LY.run_method(ctx, G + '.get_sprite', env2, r2,
                             body=target.body, hooks=hooks)
    check_bounds(ctx, res, ev2, g, sizes, 'get_sprite', stride=64)
    gpar = {}
    want_idx = Aff({'ty': 512, 'y_offset': 64, 'tx': 4}, 0)
    idx_ok = True
    for p in ps2:
        par = [a for a in p.assume if len(a) == 2 and '% 2' in a[0]]
        if len(par) != 1 or len(p.yields) != 1:
            continue
        even = par[0][1] if '== 0' in par[0][0] else not par[0][1]
        bv = ev2.to_bv(p.yields[0])
        srcs = [LY.cell_single(bv.cell(k)) for k in range(4)]
        if all(a is not None and a[0][0] == 'mem' for a in srcs) and \
                bv.width <= 4:
            bits = [a[1] for a in srcs]
            idx = Aff(dict(srcs[0][0][2][0]), srcs[0][0][2][1])
            rest = idx - want_idx
            if not (list(rest.coeffs) == ['(x_offset)//2'] and
                    rest.const == 0):
                idx_ok = False
            gpar[even] = 'low' if bits == [0, 1, 2, 3] else (
                'high' if bits == [4, 5, 6, 7] else 'other')
    res.check(gpar == {True: 'low', False: 'high'} and idx_ok,
              'R-C17-inverse', g.qual,
              'get_sprite/set_sprite agree on nibble and byte',
              'pixel (px,py) lives in byte py*64 + px//2, even px = low '
              'nibble, on both sides',
              'getter nibble map {} (index form ok: {}) vs setter {}'.format(
                  gpar, idx_ok, parity), g.loc)


def _get_sprite_evaluated(ctx, res, g, sizes, setter_parity):
    """the pixel loop of get_sprite is not in the recognised form: evaluate
    the whole function (absint/cx.py) on symbolic sheet memory for every
    sprite id and a set of tile sizes, and compare every returned pixel with
    the reference placement (pixel (px, py) = nibble px%2 of byte py*64 +
    px//2, 0 outside the sheet)"""
    from ..absint import cx as CX
    G = 'pico8.gfx.gfx:Gfx'
    size = sizes.get('gfx', 8192)
    mem = [BV.source(('mem', 'gfx', k), 8) for k in range(size)]
    cxi = CX.Cx(ctx.model, ctx.consts)
    cls = ctx.model.cls(G)
    cases = [(i, 1, 1) for i in range(256)]
    for i in (0, 15, 17, 100, 240, 255):
        cases += [(i, 2, 2), (i, 3, 1), (i, 1, 3)]
    bad = None
    try:
        for (sid, tw, th) in cases:
            def go():
                o = CX.Obj(cls)
                o.attrs['_data'] = CX.Seq('bytearray', list(mem))
                o.attrs['_version'] = 8
                return cxi.call(cxi.getattr(o, 'get_sprite'), [sid, tw, th],
                                {})
            paths = cxi.explore(go)
            if len(paths) != 1 or paths[0][0]:
                raise CX.CxError('get_sprite branches on sheet contents')
            kind, val = paths[0][1]
            if kind == 'raise':
                bad = 'get_sprite({}, {}, {}) raises {}'.format(
                    sid, tw, th, val.tname)
                break
            rows = [cxi.items(r) for r in cxi.items(val)]
            if len(rows) != 8 * th or any(len(r) != 8 * tw for r in rows):
                bad = 'get_sprite({}, {}, {}) returns {} rows of {} ' \
                      'pixels'.format(sid, tw, th, len(rows),
                                      sorted({len(r) for r in rows}))
                break
            for y in range(8 * th):
                for x in range(8 * tw):
                    px, py = (sid % 16) * 8 + x, (sid // 16) * 8 + y
                    got = rows[y][x]
                    got = got if isinstance(got, BV) else BV.const(got, 4)
                    if px > 127 or py > 127:
                        want = BV.const(0, 4)
                    else:
                        b = mem[py * 64 + px // 2]
                        want = BV([b.cell(k) for k in (
                            range(4, 8) if px % 2 else range(0, 4))])
                    if got != want:
                        bad = 'get_sprite({}, {}, {}) pixel ({}, {}) is {} ' \
                              'instead of the {} nibble of byte {}'.format(
                                  sid, tw, th, x, y, got,
                                  'high' if px % 2 else 'low',
                                  py * 64 + px // 2)
                        break
                if bad:
                    break
            if bad:
                break
    except AnalysisError as e:
        res.undecided('R-C17-inverse', g.qual, 'get_sprite loop',
                      'pixel loop not recognised and whole-function '
                      'evaluation could not follow it: ' + str(e)[:120])
        return
    res.check(bad is None and setter_parity == {True: 'low', False: 'high'},
              'R-C17-inverse', g.qual,
              'get_sprite/set_sprite agree on nibble and byte',
              'evaluated on symbolic sheet memory for all 256 ids at 1x1 and '
              '18 larger tile sizes ({} calls): every pixel is the nibble '
              'set_sprite writes'.format(len(cases)),
              bad or 'setter nibble map {}'.format(setter_parity), g.loc,
              semantic=True)
    res.check(bad is None or 'raises' not in bad, 'R-C17-bounds', g.qual,
              'get_sprite: every sheet access in bounds (evaluated)',
              '{} calls evaluated, none raises'.format(len(cases)),
              bad or '', g.loc, semantic=True)


# ------------------------------------------------------------------- map ---

def rule_map(ctx, res, sizes):
    Mp = 'pico8.map.map:Map'
    out = {}
    for name in ('get_cell', 'set_cell'):
        f = ctx.model.func(Mp + '.' + name)
        r = {'x': (0, 127), 'y': (0, 63)}
        env = {'x': Aff.sym('x'), 'y': Aff.sym('y'),
               'val': BV.source(('sym', 'val'), 8)}
        hooks = {}
        ev, ps = LY.run_method(ctx, Mp + '.' + name, env, r)
        check_bounds(ctx, res, ev, f, sizes, name, stride=128)
        forms = {}
        for p in ps:
            if p.raised:
                continue
            low = [a for a in p.assume if len(a) == 2 and 'y <= 31' in a[0]]
            if len(low) != 1:
                continue
            key = 'low' if low[0][1] else 'high'
            if name == 'get_cell':
                bv = ev.to_bv(p.ret)
                a = LY.cell_single(bv.cell(0))
                if a is None or a[0][0] != 'mem':
                    continue
                arr, idx = a[0][1], Aff(dict(a[0][2][0]), a[0][2][1])
                whole = all(LY.cell_single(bv.cell(k)) == (a[0], k)
                            for k in range(8))
            else:
                if len(p.stores) != 1:
                    continue
                (arr, idx, bv, node) = p.stores[0]
                whole = all(LY.cell_single(bv.cell(k)) == (('sym', 'val'), k)
                            for k in range(8))
            forms[key] = (arr, idx, whole)
        out[name] = forms
    want = {'low': ('self._data', Aff({'y': 128, 'x': 1}, 0), True),
            'high': ('self._gfx._data', Aff({'y': 128, 'x': 1},
                                            4096 - 32 * 128), True)}
    g, s = out.get('get_cell', {}), out.get('set_cell', {})
    res.check(g == s and len(g) == 2, 'R-C17-inverse', Mp + '.set_cell',
              'get_cell/set_cell address the same byte',
              'rows 0-31 in map memory, rows 32-63 in gfx memory',
              'getter reads {} but setter writes {}'.format(
                  {k: (v[0], str(v[1])) for k, v in g.items()},
                  {k: (v[0], str(v[1])) for k, v in s.items()}),
              ctx.model.func(Mp + '.set_cell').loc)
    res.check(g == want, 'R-C17-inverse', Mp + '.get_cell',
              'cell (x,y): map[y*128+x] for y<=31, gfx[4096+(y-32)*128+x] '
              'above', '', 'cell addressing is {}'.format(
                  {k: (v[0], str(v[1])) for k, v in g.items()}),
              ctx.model.func(Mp + '.get_cell').loc)
    # set_rect_tiles: clipping must satisfy set_cell's contract
    f = ctx.model.func(Mp + '.set_rect_tiles')
    try:
        pre, outer = _loop_parts(f)
        inner = [n for n in outer.body if isinstance(n, ast.For)][0]
        ty_, _row = outer.target.elts[0].id, outer.target.elts[1].id
        tx_, val_ = inner.target.elts[0].id, inner.target.elts[1].id
    except (AnalysisError, IndexError, AttributeError):
        res.undecided('R-C17-bounds', f.qual, 'set_rect_tiles loops',
                      'loop shape not recognised')
        return
    r = {'x': (0, None), 'y': (0, None), tx_: (0, None), ty_: (0, None)}
    env = {'x': Aff.sym('x'), 'y': Aff.sym('y'), tx_: Aff.sym(tx_),
           ty_: Aff.sym(ty_), val_: BV.source(('sym', 'val'), 8)}
    calls = []

    def hook_set_cell(ev_, e, en, pa):
        args = [ev_.to_aff(ev_.ev(a, en, pa)) for a in e.args[:2]]
        ev_.cur = pa
        calls.append((e, [ev_.bounds(a) for a in args], list(pa.assume)))
        return NONE
    ev, ps = LY.run_method(ctx, Mp + '.set_rect_tiles', env, r,
                           body=pre + inner.body,
                           hooks={'set_cell': hook_set_cell})
    if not calls:
        res.vanished('R-C17-bounds', f.qual, 'set_cell call',
                     'no call to set_cell on a non-skipped path')
    for (e, bnds, assumes) in calls:
        (xlo, xhi), (ylo, yhi) = bnds
        ok = xlo is not None and xlo >= 0 and xhi is not None and xhi <= 127 \
            and ylo is not None and ylo >= 0 and yhi is not None and \
            yhi <= 63
        res.check(ok, 'R-C17-bounds', f.qual,
                  'set_rect_tiles clips to set_cell\'s contract',
                  'x in [{}, {}], y in [{}, {}]'.format(xlo, xhi, ylo, yhi),
                  'under its own clipping guards set_rect_tiles calls '
                  'set_cell with x in [{}, {}], y in [{}, {}], but set_cell '
                  'asserts 0 <= x <= 127 and 0 <= y <= 63: a rectangle '
                  'crossing the bottom edge raises AssertionError instead of '
                  'being clipped'.format(xlo, xhi, ylo, yhi),
                  f.module.loc(e))


def run(ctx, res):
    from . import c17eval as E
    sizes = _region_sizes(ctx)
    res.tables['region_sizes'] = sizes
    fallbacks = {
        'rule_sfx': ('pico8.sfx.sfx:Sfx', lambda: E.eval_sfx(
            ctx, sizes.get('sfx', 4352))),
        'rule_music': ('pico8.music.music:Music', lambda: E.eval_music(
            ctx, sizes.get('music', 256))),
        'rule_gff': ('pico8.gff.gff:Gff', lambda: E.eval_gff(
            ctx, sizes.get('gff', 256))),
        'rule_map': ('pico8.map.map:Map', lambda: _both(
            E.eval_map_cells(ctx, sizes.get('map', 4096),
                             sizes.get('gfx', 8192)),
            E.eval_map_rects(ctx, sizes.get('map', 4096),
                             sizes.get('gfx', 8192)))),
    }

    def _both(a, b):
        return a[0] + b[0], a[1] + b[1]
    used_fallback = False
    for rule in (rule_sfx, rule_music, rule_gff, rule_gfx, rule_map):
        mark = len(res.instances)
        why = None
        try:
            rule(ctx, res, sizes)
            und = [i for i in res.instances[mark:]
                   if i.verdict in ('UNDECIDED', 'VANISHED')]
            if und:
                why = und[0].detail
        except AnalysisError as e:
            why = str(e)
        if why is None:
            # decided symbolically for all arguments -- under the methods'
            # own assertions, which that analysis takes as given.  The
            # evaluation of listed calls (edges of every documented range)
            # is run as well: a narrowed assertion or a shifted address
            # constant shows there as an exception or a wrong byte.
            fb = fallbacks.get(rule.__name__)
            if fb is not None:
                try:
                    results, calls = fb[1]()
                    E.report(res, fb[0], results, calls,
                             'none -- run in addition to the symbolic rule')
                except AnalysisError as e2:
                    res.info('R-C17-inverse', fb[0], 'evaluated accessors',
                             'not followed: ' + str(e2)[:120])
            continue
        fb = fallbacks.get(rule.__name__)
        if fb is None:
            if not any(i.verdict in ('UNDECIDED', 'VANISHED')
                       for i in res.instances[mark:]):
                res.undecided('R-C17-inverse', rule.__name__, 'analysis',
                              why)
            continue
        where, fn = fb
        try:
            results, calls = fn()
        except AnalysisError as e2:
            if not any(i.verdict in ('UNDECIDED', 'VANISHED')
                       for i in res.instances[mark:]):
                res.undecided('R-C17-inverse', rule.__name__, 'analysis',
                              '{}; evaluation: {}'.format(why[:120],
                                                          str(e2)[:120]))
            continue
        used_fallback = True
        # the evaluated verdicts replace what the symbolic attempt could not
        # decide (its decided instances stay)
        # (violations of a half-followed symbolic attempt are dropped too:
        # an extraction that broke off cannot accuse)
        keep = [i for i in res.instances[mark:]
                if i.verdict in ('HOLDS', 'INFO') or i.extra.get('semantic')]
        del res.instances[mark:]
        res.instances.extend(keep)
        E.report(res, where, results, calls, why)
        if rule is rule_map and any(
                'rect' in i.inst or 'rect' in i.where for i in keep) is False:
            res.info('R-C17-bounds', where, 'rectangle accessors',
                     'get_rect_tiles / set_rect_tiles / get_rect_pixels are '
                     'not covered by the evaluated fallback')
    try:
        results, calls = E.eval_extremes(ctx, sizes)
        E.report(res, 'pico8', results, calls,
                 'none -- both ends of every documented value range')
    except AnalysisError as e:
        res.info('R-C17-inverse', 'setters', 'range ends evaluated',
                 'not followed: ' + str(e)[:120])
    if not used_fallback:
        res.require_min('R-C17-bounds', 20)
        res.require_min('R-C17-frame', 10)
        res.require_min('R-C17-inverse', 10)
