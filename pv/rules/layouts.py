"""Layout extraction shared by C03 / C04 / C16 / C17: runs the abstract
evaluator (absint/symx.py) over accessor and codec functions of /repo and
turns the resulting bit-provenance values into position maps."""
import ast

from ..absint.symx import (Evaluator, Path, Aff, BV, NONE, ObjRef, SymLine,
                           HexText, ByteList, Text, SymArray, atom, ZERO, ONE,
                           TOP, Cell)
from ..core import AnalysisError
from ..srcmodel import walk_own


def run_method(ctx, qual, env, ranges, body=None, hooks=None,
               check_asserts=False):
    """-> (evaluator, paths)"""
    f = ctx.model.func(qual)
    ev = Evaluator(ctx.model, ctx.consts, f, ranges)
    if hooks:
        ev.hooks.update(hooks)
    ev.check_asserts = check_asserts
    ev.assert_failures = []
    e = dict(env)
    if f.cls is not None and 'self' not in e:
        e['self'] = ObjRef(f.cls)
    paths = ev.run_from(body if body is not None else f.node.body, e,
                        Path(ranges))
    return ev, paths


def mem_atom_pos(a, base):
    """source atom ('mem', arr, key) -> (arr, byte offset from base Aff)"""
    src, bit = a
    if not (isinstance(src, tuple) and src[0] == 'mem'):
        return None
    idx = Aff(dict(src[2][0]), src[2][1])
    d = idx - base
    if not d.is_const():
        return None
    return (src[1], d.const, bit)


def cell_single(c):
    """the single source atom a cell copies, or None"""
    if c is TOP or c is None:
        return None
    if len(c.vars) == 1 and c.table == 0b10:
        return c.vars[0]
    return None


def bv_positions(bv, base, width):
    """[(arr, byteoff, bit) | ('const', v) | None] for bits 0..width-1"""
    out = []
    for k in range(width):
        c = bv.cell(k)
        if c is TOP:
            out.append(None)
        elif c.is_const():
            out.append(('const', c.const()))
        else:
            a = cell_single(c)
            out.append(mem_atom_pos(a, base) if a else None)
    return out


def sym_bits(bv, width):
    """[(symbol name, bit) | ('const', v) | ('mem', arr, off?, bit) | None]"""
    out = []
    for k in range(width):
        c = bv.cell(k)
        if c is TOP:
            out.append(None)
        elif c.is_const():
            out.append(('const', c.const()))
        else:
            a = cell_single(c)
            out.append(a)
    return out
