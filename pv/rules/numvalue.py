"""R-C07-value -- regular-language dataflow through TokNumber.value.

For each number row of the lexer table the language of its spellings is
pushed through the body of `TokNumber.value` (filters `c in data`, .lower(),
slices, split at '.', `x or default`); at every int(e, base) / float(e) call
the language of e must be inside the input grammar of that conversion,
otherwise the shortest offending spelling is reported.  Nothing is executed:
the function body is interpreted over languages, not over strings.
"""
import ast

from ..core import AnalysisError
from ..lang import Lang
from ..srcmodel import walk_own, const_str
from .common import unparse

WS = br'[ \t\n\r\f\v]*'
INT_GRAMMAR = {
    16: WS + br'[+-]?(0[xX]_?)?[0-9a-fA-F]+(_[0-9a-fA-F]+)*' + WS,
    2: WS + br'[+-]?(0[bB]_?)?[01]+(_[01]+)*' + WS,
    10: WS + br'[+-]?[0-9]+(_[0-9]+)*' + WS,
    8: WS + br'[+-]?(0[oO]_?)?[0-7]+(_[0-7]+)*' + WS,
}
_D = br'[0-9]+(_[0-9]+)*'
FLOAT_GRAMMAR = (WS + br'[+-]?((' + _D + br')(\.(' + _D + br')?)?|\.' + _D +
                 br')([eE][+-]?' + _D + br')?' + WS)


class _Val:
    """A bytes value as an image of the token spelling under a chain of
    operations."""

    def __init__(self, ops=()):
        self.ops = tuple(ops)

    def then(self, op):
        return _Val(self.ops + (op,))

    def lang(self, region):
        L = region
        for op in self.ops:
            if op[0] == 'lower':
                L = L.lower()
            elif op[0] == 'upper':
                L = L.upper()
            elif op[0] == 'drop':
                L = L.drop_prefix(op[1])
            elif op[0] == 'part':
                L = L.split_part(op[1], op[2])
            elif op[0] == 'ordefault':
                L = L.or_default(op[1])
            else:
                raise AnalysisError('value op ' + op[0])
        return L

    def preimage_bytes(self, c):
        """bytes b of the ORIGINAL spelling that map to c (only for
        byte-wise ops)."""
        cand = {c}
        for op in reversed(self.ops):
            if op[0] == 'lower':
                cand = {b for b in range(256)
                        if (b + 32 if 65 <= b <= 90 else b) in cand}
            elif op[0] == 'upper':
                cand = {b for b in range(256)
                        if (b - 32 if 97 <= b <= 122 else b) in cand}
            else:
                return None
        return cand


class _Interp:
    def __init__(self, f, model):
        self.f = f
        self.model = model
        self.obligations = []     # (call node, Lang, grammar name, region tag)

    def eval(self, e, env):
        if isinstance(e, ast.Attribute) and isinstance(e.value, ast.Name) \
                and e.value.id == 'self' and e.attr == '_data':
            return _Val()
        if isinstance(e, ast.Name) and e.id in env:
            return env[e.id]
        if isinstance(e, ast.Call) and isinstance(e.func, ast.Attribute) and \
                e.func.attr in ('lower', 'upper') and not e.args:
            v = self.eval(e.func.value, env)
            return v.then((e.func.attr,)) if isinstance(v, _Val) else None
        if isinstance(e, ast.Subscript) and isinstance(e.slice, ast.Slice):
            v = self.eval(e.value, env)
            sl = e.slice
            if isinstance(v, _Val) and sl.upper is None and sl.step is None \
                    and isinstance(sl.lower, ast.Constant) and \
                    isinstance(sl.lower.value, int) and sl.lower.value >= 0:
                return v.then(('drop', sl.lower.value))
            return None
        if isinstance(e, ast.BoolOp) and isinstance(e.op, ast.Or) and \
                len(e.values) == 2 and isinstance(const_str(e.values[1]),
                                                  bytes):
            v = self.eval(e.values[0], env)
            if isinstance(v, _Val):
                return v.then(('ordefault', const_str(e.values[1])))
        return None

    def collect(self, e, env, region, tag):
        """Record int()/float() conversions inside a returned expression."""
        for c in walk_own(e):
            if isinstance(c, ast.Call) and isinstance(c.func, ast.Name) and \
                    c.func.id in ('int', 'float') and c.args:
                arg = c.args[0]
                v = self.eval(arg, env)
                if v is None:
                    if isinstance(arg, (ast.Call, ast.BinOp, ast.Constant)):
                        continue            # float(int(..)), arithmetic
                    raise AnalysisError('conversion argument outside the '
                                        'model: ' + unparse(arg))
                if c.func.id == 'int':
                    base = 10
                    if len(c.args) > 1 and isinstance(c.args[1], ast.Constant):
                        base = c.args[1].value
                    if base not in INT_GRAMMAR:
                        raise AnalysisError('int base {}'.format(base))
                    gram = ('int base {}'.format(base), INT_GRAMMAR[base])
                else:
                    gram = ('float', FLOAT_GRAMMAR)
                self.obligations.append((c, v, gram, region, tag))

    def block(self, stmts, env, region, tag):
        """-> region that falls through the block (None if it always
        returns)."""
        env = dict(env)
        for st in stmts:
            if region is None or region.is_empty():
                return None
            if isinstance(st, ast.Expr) and isinstance(st.value, ast.Constant):
                continue
            if isinstance(st, ast.Assign) and len(st.targets) == 1:
                t = st.targets[0]
                if isinstance(t, ast.Name):
                    v = self.eval(st.value, env)
                    if v is None:
                        raise AnalysisError('assignment outside the model: ' +
                                            unparse(st))
                    env[t.id] = v
                    continue
                if isinstance(t, ast.Tuple) and len(t.elts) == 2 and \
                        isinstance(st.value, ast.Call) and \
                        isinstance(st.value.func, ast.Attribute) and \
                        st.value.func.attr == 'split' and st.value.args and \
                        isinstance(const_str(st.value.args[0]), bytes) and \
                        len(const_str(st.value.args[0])) == 1:
                    sep = const_str(st.value.args[0])[0]
                    v = self.eval(st.value.func.value, env)
                    if v is None:
                        raise AnalysisError('split receiver outside model')
                    w0, w2 = v.lang(region).count_sep_problems(sep)
                    if w0 is not None or w2 is not None:
                        self.obligations.append(
                            (st, v, ('unpack-2', (w0, w2)), region, tag))
                    env[t.elts[0].id] = v.then(('part', sep, 0))
                    env[t.elts[1].id] = v.then(('part', sep, 1))
                    continue
                raise AnalysisError('assignment outside the model: ' +
                                    unparse(st))
            if isinstance(st, ast.Return):
                self.collect(st.value, env, region, tag)
                return None
            if isinstance(st, ast.If):
                tr, fa = self.split(st.test, env, region)
                t1 = self.block(st.body, env, tr, tag + [unparse(st.test, 30)])
                t2 = self.block(st.orelse, env, fa,
                                tag + ['not ' + unparse(st.test, 30)])
                parts = [p for p in (t1, t2) if p is not None]
                if not parts:
                    return None
                region = parts[0]
                for p in parts[1:]:
                    region = region.union(p)
                continue
            raise AnalysisError('statement outside the model: ' + unparse(st))
        return region

    def split(self, test, env, region):
        # const in VALUE
        if isinstance(test, ast.Compare) and len(test.ops) == 1 and \
                isinstance(test.ops[0], (ast.In, ast.NotIn)) and \
                isinstance(const_str(test.left), bytes) and \
                len(const_str(test.left)) == 1:
            v = self.eval(test.comparators[0], env)
            if isinstance(v, _Val):
                pre = v.preimage_bytes(const_str(test.left)[0])
                if pre is not None:
                    yes = region.filter_contains(pre, True)
                    no = region.filter_contains(pre, False)
                    if isinstance(test.ops[0], ast.NotIn):
                        yes, no = no, yes
                    return yes, no
        # VALUE[:k] == lit  /  lit == VALUE[:k]  /  VALUE.startswith(lit)
        # (and the negations): the spellings whose image starts with lit
        neg = False
        t = test
        while isinstance(t, ast.UnaryOp) and isinstance(t.op, ast.Not):
            t, neg = t.operand, not neg
        lit = recv = None
        if isinstance(t, ast.Compare) and len(t.ops) == 1 and \
                isinstance(t.ops[0], (ast.Eq, ast.NotEq)):
            a, b = t.left, t.comparators[0]
            if isinstance(const_str(a), bytes):
                a, b = b, a
            if isinstance(const_str(b), bytes) and isinstance(
                    a, ast.Subscript) and isinstance(a.slice, ast.Slice) and \
                    a.slice.lower is None and a.slice.step is None and \
                    isinstance(a.slice.upper, ast.Constant) and \
                    a.slice.upper.value == len(const_str(b)):
                lit, recv = const_str(b), a.value
                if isinstance(t.ops[0], ast.NotEq):
                    neg = not neg
        elif isinstance(t, ast.Call) and isinstance(t.func, ast.Attribute) \
                and t.func.attr == 'startswith' and len(t.args) == 1 and \
                isinstance(const_str(t.args[0]), bytes):
            lit, recv = const_str(t.args[0]), t.func.value
        if lit is not None:
            v = self.eval(recv, env)
            if isinstance(v, _Val):
                classes = []
                for c in lit:
                    pre = v.preimage_bytes(c)
                    if pre is None:
                        classes = None
                        break
                    classes.append(pre)
                if classes is not None:
                    import re as _re
                    pat = b''.join(
                        b'[' + b''.join(_re.escape(bytes([x]))
                                        for x in sorted(cl)) + b']'
                        if cl else b'[^\\x00-\\xff]' for cl in classes)
                    pref = Lang.from_regex(pat).concat(Lang.all_strings())
                    yes = region.intersect(pref)
                    no = region.intersect(pref.complement())
                    if neg:
                        yes, no = no, yes
                    return yes, no
        raise AnalysisError('branch test outside the model: ' + unparse(test))


def rule_value(ctx, res, src, impl, base):
    model = ctx.model
    qual = 'pico8.lua.lexer:TokNumber.value'
    f = model.func(qual)
    grammars = {}
    n = 0
    for i, (rg, cls) in enumerate(src.table):
        if cls != 'TokNumber':
            continue
        region = Lang.from_nfa(impl.rows[base + i].nfa)
        it = _Interp(f, model)
        rest = it.block(f.node.body, {}, region, [])
        inst_row = 'row {!r}'.format(rg.pattern.decode('latin-1'))
        if rest is not None and not rest.is_empty():
            res.violation('R-C07-value', qual, inst_row + ' returns a value',
                          'spelling {!r} falls off the end of value() '
                          '(returns None)'.format(rest.witness()), f.loc)
        bad = None
        for (node, v, gram, reg, tag) in it.obligations:
            n += 1
            if gram[0] == 'unpack-2':
                w0, w2 = gram[1]
                bad = ('split(".") into two parts fails for spelling '
                       '{!r}'.format(v.lang(reg).witness()
                                     if w0 is None else w0))
                break
            L = v.lang(reg)
            if L.is_empty():
                continue
            if gram[0] not in grammars:
                grammars[gram[0]] = Lang.from_regex(gram[1])
            w = L.not_subset_witness(grammars[gram[0]])
            if w is not None:
                # recover an original spelling that produces w: report w
                bad = ('{} receives {!r} under [{}] -- not in its input '
                       'grammar, the conversion raises ValueError'.format(
                           unparse(node, 40), w, ' and '.join(tag) or 'always'))
                break
        if bad:
            res.violation('R-C07-value', qual, inst_row + ' converts',
                          bad, f.loc)
        else:
            res.holds('R-C07-value', qual, inst_row + ' converts',
                      '{} conversion sites receive only spellings of their '
                      'input grammar'.format(len(it.obligations)), f.loc)
    res.stats['value_obligations'] = n
    res.require_min('R-C07-value', 5)
