"""R-C14-splice (shared by C14 and C20): where line sequences coming from
different files are concatenated into one program, each spliced sequence must
be terminated by a line end before the next piece starts.

Foreign line sources recognised: iteration over a file handle bound by
`with open(...) as fh`, and anything produced by a `.to_lines()` call (possibly
wrapped, e.g. lines_for_tab(x.to_lines(), n)).  Accepted terminations:

  loop form      for v in SRC:  [if not v.endswith(b'\\n'): v += b'\\n']  yield v
  extend form    L.extend(SRC)  [if not L[-1].endswith(b'\\n'): L.append(b'\\n')]
                 ... L.append(<literal>)

A sequence that is the LAST piece of the program needs no terminator.
"""
import ast

from ..srcmodel import walk_own, const_str
from .common import assignments_to, unparse


def _is_foreign(model, f, it):
    """iter expression yields lines of another file / another Lua object"""
    if isinstance(it, ast.Name):
        for (st, v) in assignments_to(f.node, it.id):
            if isinstance(st, ast.With) and isinstance(v, ast.Call) and \
                    model.ext_name(f.module, v.func) == 'open':
                return 'file ' + it.id
        # a local holding the (materialised) lines of another object
        binds = [v for (_s, v) in assignments_to(f.node, it.id)]
        if binds and all(b is not None for b in binds) and \
                len(binds) <= 3:
            rs = [_is_foreign(model, f, b) if not (
                isinstance(b, ast.Name) and b.id == it.id) else None
                for b in binds]
            if all(r is not None for r in rs):
                return ' / '.join(sorted(set(rs)))
        return None
    for c in walk_own(it):
        if isinstance(c, ast.Call) and isinstance(c.func, ast.Attribute) and \
                c.func.attr == 'to_lines':
            return unparse(it, 40)
    return None


def _endswith_nl_guard(test, target_dump):
    """test is `not <target>.endswith(b'\\n')`, possibly preceded by
    non-emptiness conjuncts (`seq and not seq[-1].endswith(..)`)"""
    if isinstance(test, ast.BoolOp) and isinstance(test.op, ast.And) and \
            all(isinstance(v, ast.Name) for v in test.values[:-1]):
        test = test.values[-1]
    if isinstance(test, ast.UnaryOp) and isinstance(test.op, ast.Not):
        c = test.operand
        if isinstance(c, ast.Call) and isinstance(c.func, ast.Attribute) and \
                c.func.attr == 'endswith' and c.args and \
                const_str(c.args[0]) in (b'\n', '\n') and \
                ast.dump(c.func.value) == target_dump:
            return True
    return False


def _appends_nl(stmts, var):
    for st in stmts:
        if isinstance(st, ast.AugAssign) and isinstance(st.op, ast.Add) and \
                isinstance(st.target, ast.Name) and st.target.id == var and \
                const_str(st.value) in (b'\n', '\n'):
            return True
        if isinstance(st, ast.Assign) and isinstance(st.targets[0], ast.Name) \
                and st.targets[0].id == var and \
                isinstance(st.value, ast.BinOp) and \
                isinstance(st.value.op, ast.Add) and \
                const_str(st.value.right) in (b'\n', '\n'):
            return True
    return False


def check_yield_loops(model, f, res, rule='R-C14-splice'):
    """Loop form inside a generator function."""
    n = 0
    for lp in walk_own(f.node):
        if not isinstance(lp, ast.For) or not isinstance(lp.target, ast.Name):
            continue
        src = _is_foreign(model, f, lp.iter)
        if src is None:
            continue
        var = lp.target.id
        yields = [y for s in lp.body for y in walk_own(s)
                  if isinstance(y, ast.Yield) and isinstance(y.value, ast.Name)
                  and y.value.id == var]
        # expression form: yield v if v.endswith(nl) else v + nl
        cond_y = [y for s in lp.body for y in walk_own(s)
                  if isinstance(y, ast.Yield) and
                  isinstance(y.value, ast.IfExp)]
        if cond_y and not yields:
            n += 1
            tgt = ast.dump(ast.Name(var, ast.Load()))
            good = True
            for y in cond_y:
                v = y.value
                t, neg = v.test, False
                if isinstance(t, ast.UnaryOp) and isinstance(t.op, ast.Not):
                    neg = True
                has, lacks = (v.orelse, v.body) if neg else (v.body, v.orelse)
                good = good and _endswith_nl_guard(
                    t if neg else ast.UnaryOp(ast.Not(), t), tgt) and \
                    ast.dump(has) == tgt and isinstance(lacks, ast.BinOp) \
                    and isinstance(lacks.op, ast.Add) and \
                    ast.dump(lacks.left) == tgt and \
                    const_str(lacks.right) in (b'\n', '\n')
            res.check(good, rule, f.qual, 'spliced lines of ' + src,
                      'each spliced line is newline-terminated before it is '
                      'handed on',
                      'lines of {} are spliced without a line end being '
                      'supplied'.format(src), f.module.loc(lp))
            continue
        if not yields:
            continue
        n += 1
        guarded = False
        for i, st in enumerate(lp.body):
            if isinstance(st, ast.If) and _endswith_nl_guard(
                    st.test, ast.dump(ast.Name(var, ast.Load()))) and \
                    _appends_nl(st.body, var):
                # the yield comes after it in the same block
                later = [y for s in lp.body[i + 1:] for y in walk_own(s)]
                if all(any(y is z for z in later) for y in yields):
                    guarded = True
        res.check(guarded, rule, f.qual, 'spliced lines of ' + src,
                  'each spliced line is newline-terminated before it is '
                  'handed on',
                  'lines of {} are spliced verbatim: if the last one has no '
                  'line end the next line of the including program is glued '
                  'to it'.format(src), f.module.loc(lp))
    return n


def check_extend_sites(model, f, res, rule='R-C14-splice'):
    """Extend form: L.extend(<foreign>) followed by more pieces."""
    n = 0
    for st in walk_own(f.node):
        if not (isinstance(st, ast.Expr) and isinstance(st.value, ast.Call)
                and isinstance(st.value.func, ast.Attribute)
                and st.value.func.attr == 'extend'
                and isinstance(st.value.func.value, ast.Name)
                and st.value.args):
            continue
        src = _is_foreign(model, f, st.value.args[0])
        if src is None:
            continue
        L = st.value.func.value.id
        blk = None
        p = getattr(st, '_parent', None)
        for fld in ('body', 'orelse'):
            b = getattr(p, fld, None)
            if isinstance(b, list) and st in b:
                blk = b
        if blk is None:
            continue
        rest = blk[blk.index(st) + 1:]
        more = [s for s in rest for c in walk_own(s)
                if isinstance(c, ast.Call) and
                isinstance(c.func, ast.Attribute) and
                c.func.attr in ('append', 'extend') and
                isinstance(c.func.value, ast.Name) and c.func.value.id == L]
        in_loop = any(isinstance(q, (ast.For, ast.While))
                      for q in _ancestors(st, f.node))
        if not more and not in_loop:
            continue                      # last piece
        n += 1
        target = ast.dump(ast.Subscript(
            ast.Name(L, ast.Load()),
            ast.UnaryOp(ast.USub(), ast.Constant(1)), ast.Load()))
        guarded = False
        targets = [target]
        if isinstance(st.value.args[0], ast.Name):
            # the last line of the spliced sequence itself
            targets.append(ast.dump(ast.Subscript(
                ast.Name(st.value.args[0].id, ast.Load()),
                ast.UnaryOp(ast.USub(), ast.Constant(1)), ast.Load())))
        if rest and isinstance(rest[0], ast.If) and any(
                _endswith_nl_guard(rest[0].test, tg) for tg in targets):
            for s in rest[0].body:
                for c in walk_own(s):
                    if isinstance(c, ast.Call) and \
                            isinstance(c.func, ast.Attribute) and \
                            c.func.attr == 'append' and c.args and \
                            const_str(c.args[0]) == b'\n':
                        guarded = True
        res.check(guarded, rule, f.qual, 'spliced sequence ' + src,
                  'terminated by a line end before the next piece',
                  'the lines of {} are followed directly by the next piece: '
                  'without a final newline in that file the next piece is '
                  'glued to its last line'.format(src), f.module.loc(st))
    return n


def _ancestors(node, stop):
    p = getattr(node, '_parent', None)
    while p is not None and p is not stop:
        yield p
        p = getattr(p, '_parent', None)
