"""C01 -- luamin keeps the program: same tokens modulo renaming, nothing
glued.  Rules: R-C01-transducer, R-C01-noglue, R-C01-wiring, R-C01-reparse.
(C19 reuses the transducer and the glue search.)
"""
import ast

from .. import rx, lexmodel, leximpl, grammar
from ..lang import Lang
from ..minify import MinifierModel
from ..refs import grammar as G
from ..srcmodel import walk_own
from . import cli
from .c11 import rule_sanity

EXPLANATION = (
    'R-C01-transducer: LuaMinifyTokenWriter is extracted as a finite '
    'transducer by abstract interpretation of its loop body over ten token '
    'classes and its loop-carried flags (all reachable (class, state) pairs '
    'are enumerated -- the state space is finite). Obligations on the '
    'machine: every code token emits exactly one token-derived chunk in '
    'every state; keywords, numbers, symbols and strings are emitted as '
    'their own code, names as get_short_name(code), labels as '
    '::short(code[2:-2])::; spaces and later comments emit nothing; between '
    'two code tokens a line end is written iff a newline token lay between '
    'them (so line-scoped constructs keep their extent). R-C01-noglue: with '
    'the separator function read off the machine (including the '
    'last-byte/first-byte hazard stage when present) and the '
    'implementation\'s own lexer automaton (C07), the product search '
    'decides, for every ordered pair of token classes that the dialect '
    'grammar allows to be neighbours (terminal-adjacency relation computed '
    'from refs/grammar.py), for ALL spellings u, v and every continuation '
    'w: the first token of u+sep+v+w is u with its kind. A hit is reported '
    'with the shortest (u, v). R-C01-wiring: luamin and build --lua-minify '
    'hand the token minifier and the keep options to file.to_file. '
    'R-C01-reparse: the sanity re-parse dominates the write of the code '
    'section.')

ASSUMPTIONS = [
    'the lexer itself is right (C07): the no-glue search uses the '
    'implementation\'s automaton',
    'refs/grammar.py for the adjacency relation',
    'block comments / long strings containing newlines between a short-if '
    'and the next statement are outside the flag model (no Newline token)',
]

W = 'pico8.lua.lua:LuaMinifyTokenWriter'


def rule_transducer(ctx, res, mm):
    where = mm.core.qual
    res.stats['minifier_states'] = len(mm.states)
    res.stats['minifier_table_entries'] = len(mm.table)
    if mm.wrapper is not None:
        res.check(mm.wrapper_ok, 'R-C01-transducer', mm.wrapper.qual,
                  'hazard stage passes every chunk through once',
                  'hazards {}'.format(sorted(h.decode() for h in mm.hazards)),
                  'the wrapper drops, duplicates or alters chunks, or does '
                  'not track the last emitted chunk', mm.wrapper.loc)
    want_kind = {'Name': ('short',), 'Label': ('label',),
                 'Keyword': ('code',), 'Number': ('code',),
                 'Symbol': ('code',), 'String': ('code',)}
    want = {c: want_kind[mm.kind_of[c]] for c in mm.code_classes}
    res.tables['minifier_token_classes'] = [
        '{}: {}'.format(c, ' '.join(sorted(
            x.decode('latin-1') for x in mm.members[c]))
            if mm.members[c] else 'any ' + c) for c in mm.classes]
    CODE_CLASSES = mm.code_classes
    for c in CODE_CLASSES:
        bad = None
        for s in mm.states:
            outs, _ns = mm.table[(c, s)]
            derived = [o for o in outs if o[0] != 'lit']
            if len(derived) != 1:
                bad = 'in state {} a {} token emits {} token-derived ' \
                      'chunks ({}): the token is {}'.format(
                          dict(zip(mm.state_vars, s)), c, len(derived), outs,
                          'lost' if not derived else 'duplicated')
                break
            if derived[0] != want[c]:
                bad = 'a {} token is emitted as {} instead of {}'.format(
                    c, derived[0], want[c])
                break
            if outs[-1][0] == 'lit':
                bad = 'text {!r} is emitted AFTER a {} token'.format(
                    outs[-1][1], c)
                break
        res.check(bad is None, 'R-C01-transducer', where,
                  '{} tokens: exactly one chunk, {}'.format(c, want[c][0]),
                  'in all {} reachable states'.format(len(mm.states)), bad,
                  mm.core.loc)
    for c in ('Space',):
        bad = [s for s in mm.states if mm.table[(c, s)][0]]
        res.check(not bad, 'R-C01-transducer', where,
                  'Space tokens emit nothing', '',
                  'space tokens emit text in state {}'.format(bad[:1]),
                  mm.core.loc)
    # line structure between two code tokens.  A line end is SIGNIFICANT
    # after a token that can end a line-scoped shorthand (short-if, `?`) --
    # the terminals that precede NL in the reference grammar, i.e. everything
    # that can end a statement; elsewhere (after `,` `(` an operator ...) no
    # valid program has a significant line end.
    ends_line = grammar.before_line_end()

    def can_end_line(c):
        kind = mm.kind_of[c]
        if mm.members[c] is not None:
            return bool(mm.members[c] & ends_line)
        return {'Name': G.NAME, 'Number': G.NUMBER, 'String': G.STRING,
                'Label': G.LABEL}.get(kind) in ends_line
    lost = gained = lost_harmless = None
    for (a, s0), (_o, s1) in mm.table.items():
        if a not in CODE_CLASSES:
            continue
        # explore filler runs; track whether a Newline token occurred and
        # whether a line end was emitted
        start = (s1, False, False)
        seen = {start}
        todo = [start]
        while todo:
            (s, had_nl, out_nl) = todo.pop()
            for b in CODE_CLASSES:
                o, _ = mm.table[(b, s)]
                lits = b''.join(x[1] for x in o if x[0] == 'lit')
                onl = out_nl or b'\n' in lits
                if had_nl and not onl:
                    if can_end_line(a):
                        lost = lost or (a, b, s)
                    else:
                        lost_harmless = lost_harmless or (a, b, s)
                if onl and not had_nl:
                    gained = gained or (a, b, s)
            for fil in ('Space', 'Comment', 'Newline'):
                o, ns = mm.table[(fil, s)]
                if fil == 'Comment' and any(x[0] == 'code' for x in o):
                    continue            # header comment: separate rule (C19)
                lits = b''.join(x[1] for x in o if x[0] == 'lit')
                st = (ns, had_nl or fil == 'Newline',
                      out_nl or b'\n' in lits)
                if st not in seen:
                    seen.add(st)
                    todo.append(st)
    res.check(lost is None, 'R-C01-transducer', where,
              'a significant newline between two code tokens survives',
              'one line end is kept per run of newline tokens after every '
              'token class that can end a statement',
              'a run containing a newline token can produce no line end '
              'after a token that can end a short-if / `?` line (e.g. {} '
              'then {}): two lines merge and the shorthand swallows the next '
              'statement'.format(*(lost[:2] if lost else ('', ''))),
              mm.core.loc)
    if lost_harmless is not None:
        res.info('R-C01-transducer', where,
                 'line ends dropped after {}'.format(lost_harmless[0]),
                 'no token of this class can end a statement, so no '
                 'line-scoped shorthand ends there')
    res.check(gained is None, 'R-C01-transducer', where,
              'no line end appears between tokens of one line', '',
              'a line end is inserted between two tokens of the same line '
              '(e.g. {} then {}): a short-if body is cut short'.format(
                  *(gained[:2] if gained else ('', ''))), mm.core.loc)
    res.require_min('R-C01-transducer', 9)


def build_glue_inputs(ctx, mm):
    src = leximpl.LexerSource(ctx)
    impl, base = leximpl.build_impl(src)
    row_info = {}
    for i, r in enumerate(impl.rows):
        spelling = None
        if r.kind in ('symbol', 'keyword', 'name'):
            L = Lang.from_nfa(r.nfa)
            w = L.witness()
            if w is not None:
                only = Lang.literal(w)
                if L.not_subset_witness(only) is None:
                    spelling = w
        row_info[i] = (r.kind, spelling)
    sepfn = mm.sep_function()

    def cls_of(info):
        kind, sp = info
        k = {'name': 'Name', 'label': 'Label', 'keyword': 'Keyword',
             'number': 'Number', 'string': 'String',
             'symbol': 'Symbol'}.get(kind)
        if k is None:
            return None
        c = mm.class_of(k, sp)
        if c is None and k in ('Symbol', 'Keyword'):
            # a spelling the reference tables do not list: C07 reports it
            cands = [x for x in mm.classes if mm.kind_of[x] == k]
            c = max(cands, key=lambda x: len(mm.members[x]))
        return c

    def sep_of(infoA, infoB, last_u, first_v):
        a, b = cls_of(infoA), cls_of(infoB)
        if a is None or b is None:
            return None
        seps = sepfn.get((a, b), set())
        if len(seps) != 1:
            return None
        sep = next(iter(seps))
        if not sep and mm.hazards and \
                bytes([last_u, first_v]) in mm.hazards:
            sep = b' '
        return sep

    adj = grammar.adjacency()

    def term(info):
        kind, sp = info
        if kind in ('symbol', 'keyword'):
            return sp
        if kind == 'name':
            return sp if sp == b'?' else G.NAME
        return {'number': G.NUMBER, 'string': G.STRING,
                'label': G.LABEL}.get(kind)

    def adjacent(infoA, infoB):
        a, b = term(infoA), term(infoB)
        if a is None or b is None:
            return False
        return (a, b) in adj
    extra = [frozenset([h[0]]) for h in mm.hazards] + \
        [frozenset([h[1]]) for h in mm.hazards] + \
        [frozenset([c]) for c in b'-.[=/']
    return impl, row_info, sep_of, adjacent, extra, sepfn


def rule_noglue(ctx, res, mm, prop_rule='R-C01-noglue', only_comment=False):
    where = mm.core.qual
    impl, row_info, sep_of, adjacent, extra, sepfn = build_glue_inputs(ctx, mm)
    amb = {k: v for k, v in sepfn.items() if len(v) != 1}
    res.check(not amb, prop_rule, where,
              'separator is a function of the two token classes', '',
              'the separator between {} depends on earlier context'.format(
                  sorted(amb)[:3]), mm.core.loc)
    if not only_comment:
        # layouts with line breaks: where the line break is dropped the pair
        # must get the separator it gets without the line break
        nl = mm.sep_function(with_newlines=True)
        bad = sorted((a, b) for (a, b), v in nl.items()
                     if b'' in v and sepfn.get((a, b)) not in (None, {b''}))
        res.check(not bad, prop_rule, where,
                  'a dropped line break is replaced by the separator the '
                  'pair needs', '{} class pairs'.format(len(nl)),
                  'tokens separated only by a line break are written with '
                  'nothing between them although the pair needs a separator: '
                  '{}'.format(bad[:3]), mm.core.loc)
    stats = {}
    hits = lexmodel.glue_search(impl, row_info, sep_of, adjacent,
                                extra_bytesets=extra, stats=stats)
    res.stats.update(stats)
    res.stats['adjacent_terminal_pairs'] = len(grammar.adjacency())

    def name(info):
        kind, sp = info
        return '{} {!r}'.format(kind, sp.decode('latin-1')) if sp else kind
    n = 0
    for h in sorted(hits, key=lambda x: (str(x['A']), str(x['B']))):
        is_comment = h.get('first_kind') == 'comment'
        if only_comment and not is_comment:
            continue
        n += 1
        res.violation(
            prop_rule, where, '{} . {}'.format(name(h['A']), name(h['B'])),
            'emitting {!r} then {!r} with separator {!r} gives {!r}, whose '
            'first token is {} instead of {!r}: two tokens fuse{}'.format(
                h['u'], h['v'], h['s'], h['u'] + h['s'] + h['v'] + h['w'],
                h['first_token'], h['u'],
                ' into a comment' if is_comment else ''), mm.core.loc,
            extra={'u': repr(h['u']), 'v': repr(h['v']), 'w': repr(h['w'])})
    if ctx.tier == 'thorough' and not only_comment:
        # (a) second derivation of the adjacency relation: bounded sentence
        # enumeration of the reference grammar must stay inside it
        enum = grammar.enumerate_adjacent(depth=5)
        extra_pairs = sorted(map(str, enum - grammar.adjacency()))
        res.check(not extra_pairs, prop_rule, 'pv.refs.grammar',
                  'adjacency relation covers the enumerated sentences',
                  '{} pairs from sentences up to depth 5, all inside the '
                  '{}-pair FIRST/LAST relation'.format(
                      len(enum), len(grammar.adjacency())),
                  'pairs found by enumeration but missing from the '
                  'relation: {}'.format(extra_pairs[:5]))
        # (b) hazards between pairs that can never be neighbours: report only
        hits_all = lexmodel.glue_search(
            impl, row_info, sep_of, lambda a, b: True,
            extra_bytesets=extra)
        nonadj = [h for h in hits_all if not adjacent(h['A'], h['B'])]
        res.stats['non_adjacent_gluing_pairs'] = len(nonadj)
        for h in nonadj[:80]:
            res.info(prop_rule, where, '{} . {} (never adjacent)'.format(
                name(h['A']), name(h['B'])),
                '{!r}+{!r} would fuse, but the grammar never puts them next '
                'to each other'.format(h['u'], h['v']))
    if n == 0:
        res.holds(prop_rule, where,
                  'no adjacent token pair fuses' if not only_comment else
                  'no adjacent token pair fuses into a comment',
                  'product search exhausted ({} states): for every '
                  'grammar-adjacent class pair, all spellings and all '
                  'continuations, the first token of u+sep+v+w is u'.format(
                      stats.get('glue_states')), mm.core.loc)


def rule_wiring(ctx, res):
    model = ctx.model
    keep = {'keep_all_names', 'keep_names_from_file', 'lua_minify'}
    cli.rule_wiring(ctx, res, 'luamin',
                    only_options={'keep_all_names', 'keep_names_from_file'})
    cli.rule_wiring(ctx, res, 'build', only_options=keep)
    # luamin selects the token minifier
    f = model.func('pico8.tool:luamin')
    sel = cli.writer_selections(model, f)
    ok = any(c is not None and ast.unparse(c).endswith('LuaMinifyTokenWriter')
             for (c, _a, _s) in sel)
    res.check(ok, 'R-C01-wiring', f.qual, 'luamin uses LuaMinifyTokenWriter',
              '', 'luamin hands another writer class to file.to_file', f.loc)
    b = model.func('pico8.build.build:do_build')
    sel = cli.writer_selections(model, b)
    ok = any(c is not None and ast.unparse(c).endswith('LuaMinifyTokenWriter')
             for (c, _a, _s) in sel)
    res.check(ok, 'R-C01-wiring', b.qual,
              'build --lua-minify uses LuaMinifyTokenWriter', '',
              'build no longer selects the token minifier', b.loc)


def rule_instance_state(ctx, res, rule_id='R-C01-transducer'):
    from . import memo
    for q, what in (
            ('pico8.lua.lua:MinifyNameFactory',
             'names handed out while minifying one cart are reused for the '
             'next cart in the same process and collide with its fresh '
             'names'),
            ('pico8.lua.lua:LuaMinifyTokenWriter',
             'one minification run sees the state of another')):
        memo.rule_instance_state(ctx, res, rule_id, q, what)


def run(ctx, res):
    mm = MinifierModel(ctx)
    rule_instance_state(ctx, res)
    rule_transducer(ctx, res, mm)
    rule_noglue(ctx, res, mm)
    rule_wiring(ctx, res)
    before = len(res.instances)
    rule_sanity(ctx, res)
    for i in res.instances[before:]:
        if i.rule == 'R-C11-sanity':
            i.rule = 'R-C01-reparse'
    # string literals are re-spelled from their decoded value by the same
    # TokString.code the echo writers use: the escape transducer round trip
    # (shared with C06) is a clause of "strings by decoded value"
    from . import c06
    from .. import leximpl
    c06.rule_escapes(ctx, res, leximpl.LexerSource(ctx))
    # a header comment that is passed through without its line end swallows
    # the first code tokens of the program into the comment (shared with C19)
    from . import c19
    c19.rule_header(ctx, res, mm)
    # "identifiers differing at most by the renaming": a generated name that
    # is a keyword, a built-in or a kept name makes two identifiers collide
    # or a name lex as a keyword (shared with C02; the writer's factory is
    # evaluated, default and with a keep file)
    from . import c02
    c02.rule_factory_evaluated(ctx, res)
