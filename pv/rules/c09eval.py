"""C09/C10: the list-walking handlers of LuaASTEchoWriter decided by evaluation.

The inventory rule (R-C09-agree) compares WHICH terminals a handler emits with
the ones the parser consumed for that node type; it cannot see a loop that
visits one element too few.  Here each handler that iterates over a list is
evaluated (concrete-control abstract interpreter) on stand-in nodes with 0-3
elements: the token list is made of real lexer tokens, each child node is a
placeholder that stands for a fixed number of tokens (the `_walk` hook echoes
and consumes exactly those), the spacing hook returns nothing.  The handler
must echo every token of the node once, in order, and leave the cursor behind
the last one.  Every shape is evaluated twice: tokens back to back (spacing
stand-in), and with a space, line-end or comment token before every token and
the writer's own `_get_code_for_spaces` (a handler that looks at the token
under the cursor before skipping those is wrong for such layouts)."""
from ..absint import cx as CX
from ..core import AnalysisError

L = 'pico8.lua.lua'
LEX = 'pico8.lua.lexer:'
PARSER = 'pico8.lua.parser'


class Echo:
    def __init__(self, ctx):
        self.ctx = ctx
        self.model = ctx.model
        self.cls = self.model.cls(L + ':LuaASTEchoWriter')

    @staticmethod
    def _fields_of(build):
        """field names a builder sets (dry run on a recording helper)"""
        class Dry:
            def tok(self, kind, data):
                return (kind, data)

            def child(self, specs):
                return ('child', len(specs))
        return list(build(Dry()).keys())

    def run(self, nodetype, build, spaced=False):
        """build(h) -> (node fields dict, token spec list); h gives
        h.child(n_tokens, spec...) and h.tok(kind, data)
        -> (emitted bytes, final pos, n tokens) | ('raise', name)
        spaced: a space, line end or comment token stands before every token
        (a child's leading one belongs to the child, as in the parser's
        spans) and the writer's own `_get_code_for_spaces` is evaluated
        instead of a stand-in -- a handler that peeks at the cursor without
        skipping them first is seen"""
        cxi = CX.Cx(self.model, self.ctx.consts)
        node_base = CX.StubClass('Node')
        stubs = {}

        def stub(name):
            if name not in stubs:
                stubs[name] = CX.StubClass(name, (node_base,))
                cxi.module_vars[(PARSER, name)] = stubs[name]
            return stubs[name]
        cxi.module_vars[(PARSER, 'Node')] = node_base
        child_cls = stub('Child')
        toks = []

        SPACERS = (('TokSpace', b' '), ('TokNewline', b'\n'),
                   ('TokComment', b'--[[c]]'))

        class H:
            def tok(self, kind, data):
                if spaced:
                    sk, sd = SPACERS[len(toks) % 3]
                    toks.append(cxi.call(CX.ClassVal(
                        self_model.cls(LEX + sk)), [sd], {}))
                t = cxi.call(CX.ClassVal(
                    self_model.cls(LEX + kind)), [data], {})
                toks.append(t)
                return t

            def child(self, specs):
                """a child node standing for the given tokens"""
                before = len(toks)
                for (k, d) in specs:
                    self.tok(k, d)
                c = CX.Obj(child_cls)
                c.attrs['n_tokens'] = len(toks) - before
                c.attrs['tok_start'] = before
                c.attrs['tok_end'] = len(toks)
                # index of the child's first token that is not a spacer
                c.attrs['tok_first'] = before + (1 if spaced else 0)
                c.attrs['start_pos'] = 0
                c.attrs['end_pos'] = 0
                return c
        self_model = self.model
        writer = {}

        def walk(cx, a, k, bound=None):
            node = a[0]
            w = bound
            if isinstance(node, CX.Obj) and node.cls is child_cls:
                # the child echoes what is left of its own tokens: a parent
                # may already have taken the blank tokens in front of it
                pos = w.attrs['_pos']
                if not node.attrs['tok_start'] <= pos <= \
                        node.attrs['tok_first']:
                    raise CX.PyRaise('AssertionError', (
                        'child walked at token {} but it spans {}..{}'.format(
                            pos, node.attrs['tok_start'],
                            node.attrs['tok_end']),))
                end = node.attrs['tok_end']
                out = b''.join(bytes(_as_bytes(cx, cx.getattr(t, 'code')))
                               for t in w.attrs['_tokens'][pos:end])
                w.attrs['_pos'] = end
                return [out]
            raise CX.CxError('_walk of a {}'.format(type(node).__name__))

        def spaces(cx, a, k, bound=None):
            return b''
        cxi.hooks = {
            L + ':LuaASTEchoWriter._walk': walk,
            L + ':BaseASTWalker._walk': walk,
        }
        if not spaced:
            cxi.hooks[L + ':LuaASTEchoWriter._get_code_for_spaces'] = spaces

        def go():
            del toks[:]
            fields = build(H())
            node = CX.Obj(stub(nodetype))
            node.attrs.update(fields)
            node.attrs.setdefault('start_pos', 0)
            node.attrs.setdefault('end_pos', len(toks))
            w = CX.Obj(self.cls)
            # the node never is the end of the token list: every program the
            # tool passes on ends in a line end, which belongs to no node (a
            # handler that looks at the token behind its node finds one)
            after = cxi.call(CX.ClassVal(self_model.cls(LEX + 'TokNewline')),
                             [b'\n'], {})
            w.attrs['_tokens'] = list(toks) + [after]
            w.attrs['_pos'] = 0
            w.attrs['_args'] = {}
            w.attrs['_indent'] = 0
            writer['w'] = w
            r = cxi.call(cxi.getattr(w, '_walk_' + nodetype), [node], {})
            chunks = cxi.items(r) if r is not None else []
            out = b''
            for c in chunks:
                out += bytes(_as_bytes(cxi, c))
            want = b''.join(bytes(_as_bytes(cxi, cxi.getattr(t, 'code')))
                            for t in toks)
            return out, w.attrs['_pos'], len(toks), want
        paths = cxi.explore(go)
        if len(paths) != 1 or paths[0][0]:
            raise CX.CxError('the handler forks on token contents')
        kind, val = paths[0][1]
        if kind == 'raise':
            return ('raise', val.tname)
        return val


def _as_bytes(cx, v):
    if isinstance(v, (bytes, bytearray)):
        return v
    if isinstance(v, CX.Seq):
        if any(CX.is_sym(x) for x in v.items):
            raise CX.CxError('symbolic token text')
        return bytes(v.items)
    raise CX.CxError('chunk is {}'.format(type(v).__name__))


S, N, K = 'TokSymbol', 'TokName', 'TokKeyword'
E = [(N, b'e')]                  # an expression of one token
E2 = [(N, b'f'), (S, b'('), (S, b')')]   # an expression of three tokens
BLK = [(N, b'x'), (S, b'='), ('TokNumber', b'1')]


def _table(k, trailing):
    def build(h):
        h.tok(S, b'{')
        fields = []
        for i in range(k):
            if i:
                h.tok(S, b',' if i % 2 else b';')
            fields.append(h.child(E if i % 2 else E2))
        if trailing:
            h.tok(S, trailing)
        h.tok(S, b'}')
        return {'fields': fields}
    return build


def _list(field, k, seq_of_children=True):
    def build(h):
        items = []
        for i in range(k):
            if i:
                h.tok(S, b',')
            items.append(h.child(E2 if i % 2 else E) if seq_of_children
                         else h.tok(N, b'n%d' % i))
        return {field: items}
    return build


def _funcname(k, method):
    def build(h):
        path = []
        for i in range(k):
            if i:
                h.tok(S, b'.')
            path.append(h.tok(N, b'p%d' % i))
        m = None
        if method:
            h.tok(S, b':')
            m = h.tok(N, b'm')
        return {'namepath': path, 'methodname': m}
    return build


def _args(has):
    def build(h):
        h.tok(S, b'(')
        ex = h.child(E2 + [(S, b',')] + E) if has else None
        h.tok(S, b')')
        return {'explist': ex}
    return build


def _body(par, dots):
    def build(h):
        h.tok(S, b'(')
        p = h.child([(N, b'a'), (S, b','), (N, b'b')]) if par else None
        if par and dots:
            h.tok(S, b',')
        d = h.child([(S, b'...')]) if dots else None
        h.tok(S, b')')
        b = h.child(BLK)
        h.tok(K, b'end')
        return {'parlist': p, 'dots': d, 'block': b}
    return build


def _if(n_elseif, has_else, use_do=False):
    def build(h):
        pairs = []
        for i in range(1 + n_elseif):
            h.tok(K, b'if' if i == 0 else b'elseif')
            e = h.child(E2 if i % 2 else E)
            h.tok(K, b'do' if (use_do and i == 0) else b'then')
            pairs.append((e, h.child(BLK)))
        if has_else:
            h.tok(K, b'else')
            pairs.append((None, h.child(BLK)))
        h.tok(K, b'end')
        return {'exp_block_pairs': pairs, 'short_if': False}
    return build


def _short_if(has_else, else_stored):
    """`if ( c ) body [else [body]]` in PICO-8 short form: the parser stores
    the unwrapped condition; an `else` with nothing behind it on the line is
    consumed but -- when else_stored is False -- leaves no pair in the node"""
    def build(h):
        h.tok(K, b'if')
        h.tok(S, b'(')
        e = h.child(E)
        h.tok(S, b')')
        pairs = [(e, h.child(BLK))]
        if has_else:
            h.tok(K, b'else')
            if else_stored:
                pairs.append((None, h.child(BLK)))
        return {'exp_block_pairs': pairs, 'short_if': True}
    return build


def parser_drops_empty_else(ctx):
    """Does the parser's short-if branch consume `else` without storing an
    else pair on some path?  Read off Parser._stat: the statement that
    appends the `(None, <else block>)` pair stands under a test with more to
    it than `<else block> is not None`.  -> True / False / None (not found)"""
    import ast
    try:
        f = ctx.model.func(PARSER + ':Parser._stat')
    except Exception:
        return None
    found = None
    for n in ast.walk(f.node):
        if not isinstance(n, ast.If):
            continue
        for st in n.body:
            if isinstance(st, ast.Expr) and isinstance(st.value, ast.Call) \
                    and isinstance(st.value.func, ast.Attribute) and \
                    st.value.func.attr == 'append' and st.value.args and \
                    isinstance(st.value.args[0], ast.Tuple) and \
                    len(st.value.args[0].elts) == 2 and \
                    isinstance(st.value.args[0].elts[0], ast.Constant) and \
                    st.value.args[0].elts[0].value is None and \
                    isinstance(st.value.args[0].elts[1], ast.Name):
                blk = st.value.args[0].elts[1].id
                t = n.test
                plain = isinstance(t, ast.Compare) and len(t.ops) == 1 and \
                    isinstance(t.ops[0], ast.IsNot) and \
                    isinstance(t.left, ast.Name) and t.left.id == blk and \
                    isinstance(t.comparators[0], ast.Constant) and \
                    t.comparators[0].value is None
                if isinstance(t, ast.Name) and t.id == blk:
                    continue        # truthiness of a node: not decided here
                mentions = any(isinstance(x, ast.Name) and x.id == blk
                               for x in ast.walk(t))
                if not mentions:
                    continue        # the long form: `if accept(else):`
                found = (not plain) or bool(found)
    return found


def _expvalue(kind):
    def build(h):
        if kind == 'nil':
            h.tok(K, b'nil')
            return {'value': None}
        if kind in ('true', 'false'):
            h.tok(K, kind.encode())
            return {'value': kind == 'true'}
        if kind == 'name':
            return {'value': h.tok(N, b'v')}
        if kind == 'number':
            return {'value': h.tok('TokNumber', b'12')}
        if kind == 'string':
            return {'value': h.tok('TokString', b'str')}
        if kind == 'node':
            return {'value': h.child(E2)}
        # a parenthesised expression
        h.tok(S, b'(')
        v = h.child(E2)
        h.tok(S, b')')
        return {'value': v}
    return build


def _call(method, args):
    def build(h):
        f = {'exp_prefix': h.child(E)}
        if method:
            h.tok(S, b':')
            f['methodname'] = h.tok(N, b'm')
        if args == 'string':
            f['args'] = h.tok('TokString', b'str')
        else:
            f['args'] = h.child([(S, b'('), (N, b'a'), (S, b')')])
        return f
    return build


CASES = []
for k in range(0, 4):
    for tr in (None, b',', b';'):
        if k == 0 and tr:
            continue
        CASES.append(('TableConstructor', '{} field(s){}'.format(
            k, ', trailing `{}`'.format(tr.decode()) if tr else ''),
            _table(k, tr)))
for k in range(1, 4):
    CASES.append(('ExpList', '{} expression(s)'.format(k), _list('exps', k)))
    CASES.append(('VarList', '{} variable(s)'.format(k), _list('vars', k)))
    CASES.append(('NameList', '{} name(s)'.format(k),
                  _list('names', k, seq_of_children=False)))
for k in range(1, 4):
    for m in (False, True):
        CASES.append(('FunctionName', '{} path element(s){}'.format(
            k, ' and a method' if m else ''), _funcname(k, m)))
for has in (False, True):
    CASES.append(('FunctionArgs', 'with arguments' if has else 'empty',
                  _args(has)))
for par in (False, True):
    for dots in (False, True):
        CASES.append(('FunctionBody', 'parameters={} varargs={}'.format(
            par, dots), _body(par, dots)))
for n in range(0, 3):
    for el in (False, True):
        CASES.append(('StatIf', '{} elseif, else={}'.format(n, el),
                      _if(n, el)))
CASES.append(('StatIf', 'if (c) do .. end', _if(0, False, use_do=True)))
for kind in ('nil', 'true', 'false', 'name', 'number', 'string', 'node',
             'parenthesised'):
    CASES.append(('ExpValue', kind, _expvalue(kind)))
for method in (False, True):
    for args in ('string', 'node'):
        CASES.append(('FunctionCallMethod' if method else 'FunctionCall',
                      '{} argument'.format(args), _call(method, args)))
CASES.append(('StatIf', 'short if (c) body', _short_if(False, False)))
CASES.append(('StatIf', 'short if (c) body else body', _short_if(True, True)))
# only when the parser can produce it (parser_drops_empty_else)
EMPTY_ELSE = ('StatIf', 'short if (c) body else <nothing>: the parser '
              'consumes the `else` and stores no pair for it',
              _short_if(True, False))


def report(ctx, res, rule='R-C09-agree'):
    try:
        ev = Echo(ctx)
    except Exception as e:
        res.vanished(rule, L + ':LuaASTEchoWriter', 'echo writer', str(e)[:80])
        return False
    by_type = {}
    cases = list(CASES)
    drops = parser_drops_empty_else(ctx)
    if drops:
        cases.append(EMPTY_ELSE)
    elif drops is None:
        res.info(rule, PARSER + ':Parser._stat', 'short-if with an empty '
                 'else', 'the statement that stores the else pair of a '
                 'short-if was not found: the shape is not evaluated')
    from .c09 import _schema
    schema = _schema(ctx)
    skipped = []
    try:
        for (nt, what, build) in cases:
            m = ctx.model.lookup_method(ev.cls, '_walk_' + nt)
            if m is None:
                res.vanished(rule, L + ':LuaASTEchoWriter._walk_' + nt,
                             'handler', 'missing')
                continue
            ent = by_type.setdefault(nt, [m, 0, []])
            if schema is not None:
                # the stand-in node is only a node of this tree if its
                # fields are the fields the parser declares for the type
                probe = Echo._fields_of(build)
                decl = schema.get(nt)
                if decl is None or set(probe) - {'short_if'} != set(decl):
                    skipped.append('{} ({})'.format(nt, what))
                    continue
            for spaced in (False, True):
                r = ev.run(nt, build, spaced=spaced)
                ent[1] += 1
                tag = what + (' (space / line end / comment before every '
                              'token)' if spaced else '')
                if r[0] == 'raise':
                    ent[2].append('{}: raises {}'.format(tag, r[1]))
                    continue
                out, pos, n, want = r
                if out != want:
                    ent[2].append('{}: writes {!r} for the tokens {!r}'
                                  .format(tag, out, want))
                elif pos != n:
                    ent[2].append('{}: the cursor ends at token {} of {}'
                                  .format(tag, pos, n))
    except AnalysisError as e:
        res.info(rule, L + ':LuaASTEchoWriter', 'list handlers evaluated',
                 'not followed: ' + str(e)[:140])
        return False
    if skipped:
        res.info(rule, L + ':LuaASTEchoWriter', 'stand-in shapes whose '
                 'fields are not the fields the parser declares',
                 'not evaluated: ' + ', '.join(skipped[:6]))
    for nt, (m, n, bad) in sorted(by_type.items()):
        if not n:
            continue
        res.check(not bad, rule, m.qual,
                  '{}: every token of the node is echoed once, in order, for '
                  '0-3 elements (evaluated)'.format(nt),
                  '{} shapes on stand-in nodes'.format(n),
                  '; '.join(bad[:2]) + (' (+{} more)'.format(len(bad) - 2)
                                        if len(bad) > 2 else ''), m.loc,
                  semantic=True)
    return True
