"""C11 -- a failed cart write never damages the destination.

Decided: the control-flow fact the fault-injection quantifier collapses to --
no byte reaches a named destination file before the whole encoder returned
normally.  Rules: R-C11-order, R-C11-owner, R-C11-entry, R-C11-sanity,
R-C04-label (destination is only *read* before the encoder ran).
"""
import ast

from ..cfg import cfg_of
from ..srcmodel import walk_own, FuncInfo
from .common import (fs_sites, is_write_mode, open_mode, assignments_to,
                     derived_names, TEMPSTREAM_CTORS, OPEN_NAMES, unparse)

EXPLANATION = (
    'Static control-flow / ownership analysis of every file-system write in '
    'pico8/. R-C11-owner enumerates every open()/os.*/shutil.* call site of '
    'the package and evaluates its mode: only game.file.to_file (and the '
    'stand-alone demo) may open a named file for writing. R-C11-order builds '
    'the CFG (with exception edges) of each such writer and proves that the '
    'write-mode open of the destination is dominated by the NORMAL return of '
    'every call that receives the temporary stream (the encoder), is not '
    'reachable from that call\'s exception edge, that the stream handed to '
    'the encoder is an anonymous temporary and that the destination receives '
    'only the bytes read back from it. R-C11-entry checks on the resolved '
    'call graph that every CLI command naming an output cart reaches the file '
    'system only through file.to_file. R-C11-sanity / R-C04-label: the '
    're-parse of transformed Lua precedes the first section write, and the '
    'existing destination is opened read-only (label) before anything is '
    'written. Together: for every fault point k inside the encoder the '
    'destination is untouched -- the quantifier over k disappears.')

ASSUMPTIONS = [
    'tempfile.TemporaryFile / io.BytesIO never touch the destination path '
    '(stdlib semantics)',
    'pypng Writer.write writes only to the stream it is given',
    'a failure of the final copy itself (disk full during finalfh.write) is '
    'outside the property\'s list of failure sources',
]

WRITER_WHITELIST = {
    # function qual -> reason it may open a named file for writing
    'pico8.game.file:to_file': 'the one sanctioned writer (final copy)',
    'pico8.demos.upsidedown:main': 'stand-alone demo script, own output',
}

CLI_WRITERS = [
    ('pico8.tool:writep8', 'writep8'),
    ('pico8.tool:luamin', 'luamin'),
    ('pico8.tool:luafmt', 'luafmt'),
    ('pico8.build.build:do_build', 'build'),
]


def _path_arg(call):
    if call.args and not isinstance(call.args[0], ast.Starred):
        return call.args[0]
    for k in call.keywords:
        if k.arg in ('file', 'name', 'path', 'filename'):
            return k.value
    return None


def rule_owner(ctx, res):
    model = ctx.model
    sites = fs_sites(model)
    res.stats['fs_call_sites'] = len(sites)
    legit_found = False
    # helpers extracted from a sanctioned writer (functions the pinned tree
    # does not have, reachable only from it) belong to it
    from .. import norm
    part_of = {}
    for wq in WRITER_WHITELIST:
        if model.has_func(wq):
            for g in norm.new_helpers(ctx, model.func(wq)):
                callers = [c for c in model.functions.values()
                           if any(t is g or getattr(t, 'qual', None) == g.qual
                                  for (_n, t) in norm.callees(
                                      model, c, list(c.node.body)))]
                if all(c.qual == wq or c.qual in part_of for c in callers):
                    part_of[g.qual] = wq
    from .. import normalise as _nz
    base_funcs = _nz.load_baseline()['functions']
    called = set()
    for c in model.functions.values():
        for (_n, t) in norm.callees(model, c, list(c.node.body)):
            called.add(t.qual)
    for s in sites:
        f = s['func']
        where = f.qual if f else s['module'].name + ':<module>'
        where = part_of.get(where, where)
        if f is not None and f.qual not in base_funcs and \
                f.qual not in called and base_funcs:
            # a helper the normaliser inlined at every call site: its body
            # is analysed there
            continue
        mod = f.module if f else s['module']
        loc = mod.loc(s['call'])
        inst = '{}({})'.format(s['name'], unparse(_path_arg(s['call']) or
                                                  ast.Constant(None), 40))
        if s['kind'] == 'open':
            mode = s['mode']
            if mode is None:
                res.undecided('R-C11-owner', where, inst,
                              'open() mode cannot be evaluated', loc)
                continue
            if not is_write_mode(mode):
                res.holds('R-C11-owner', where, inst + ' mode=' + mode,
                          'read-only open', loc, nontrivial=True)
                continue
            if where in WRITER_WHITELIST:
                if where == 'pico8.game.file:to_file':
                    legit_found = True
                res.holds('R-C11-owner', where, inst + ' mode=' + mode,
                          'sanctioned writer: ' + WRITER_WHITELIST[where],
                          loc)
            else:
                res.violation(
                    'R-C11-owner', where, inst + ' mode=' + mode,
                    'a named file is opened for writing outside '
                    'game.file.to_file: a failure after this point leaves a '
                    'damaged / new file behind', loc)
        else:
            if where in WRITER_WHITELIST and s['name'].startswith('shutil.copyfileobj'):
                res.holds('R-C11-owner', where, inst, 'stream copy', loc)
            else:
                res.violation(
                    'R-C11-owner', where, inst,
                    'file-system mutation outside game.file.to_file', loc)
    if not legit_found:
        res.vanished('R-C11-owner', 'pico8.game.file:to_file',
                     'positive-twin',
                     'the sanctioned write-mode open of the destination was '
                     'not found')
    res.require_min('R-C11-owner', 8)


def _stream_kind(model, f, name):
    """Kind of the value bound to local `name`: 'temp', 'named-file',
    None (unknown)."""
    asg = assignments_to(f.node, name)
    kinds = set()
    for (_stmt, value) in asg:
        if value is None or not isinstance(value, ast.Call):
            kinds.add(None)
            continue
        ext = model.ext_name(f.module, value.func)
        if ext in TEMPSTREAM_CTORS:
            kinds.add('temp')
        elif ext in OPEN_NAMES:
            kinds.add('named-file')
        else:
            kinds.add(None)
    if len(kinds) == 1:
        return kinds.pop()
    if 'named-file' in kinds:
        return 'named-file'
    return None


def rule_order(ctx, res):
    model = ctx.model
    n_inst = 0
    for qual in WRITER_WHITELIST:
        if not model.has_func(qual):
            if qual == 'pico8.game.file:to_file':
                res.vanished('R-C11-order', qual, 'function',
                             'game.file.to_file not found')
            continue
        f = model.func(qual)
        cfg = cfg_of(f)
        # destination opens
        opens = []
        for n in model.own_nodes(f.node):
            if isinstance(n, ast.Call) and \
                    model.ext_name(f.module, n.func) in OPEN_NAMES:
                mode = open_mode(f.node, n)
                if mode is None:
                    res.undecided('R-C11-order', qual, unparse(n, 50),
                                  'mode not evaluable', f.module.loc(n))
                elif is_write_mode(mode):
                    opens.append(n)
        if not opens:
            res.vanished('R-C11-order', qual, 'destination-open',
                         'no write-mode open found in the sanctioned writer')
            continue
        # temp streams and the calls that receive them (the encoder)
        temp_names = set()
        for n in walk_own(f.node):
            if isinstance(n, ast.Name) and isinstance(n.ctx, ast.Store):
                if _stream_kind(model, f, n.id) == 'temp':
                    temp_names.add(n.id)
        enc_calls = []
        for n in model.own_nodes(f.node):
            if not isinstance(n, ast.Call):
                continue
            args = list(n.args) + [k.value for k in n.keywords]
            if any(isinstance(a, ast.Name) and a.id in temp_names
                   for a in args):
                enc_calls.append(n)
        # any call named to_file / to_p8_file etc. that gets a stream
        for n in model.own_nodes(f.node):
            if (isinstance(n, ast.Call) and isinstance(n.func, ast.Attribute)
                    and n.func.attr.startswith('to_') and
                    n.func.attr.endswith('file') and n not in enc_calls):
                # encoder called with something that is not a temp stream
                outarg = None
                if len(n.args) > 1:
                    outarg = n.args[1]
                for k in n.keywords:
                    if k.arg == 'outstr':
                        outarg = k.value
                kind = None
                if isinstance(outarg, ast.Name):
                    kind = _stream_kind(model, f, outarg.id)
                elif isinstance(outarg, ast.Call):
                    ext = model.ext_name(f.module, outarg.func)
                    kind = ('named-file' if ext in OPEN_NAMES else
                            'temp' if ext in TEMPSTREAM_CTORS else None)
                if kind == 'named-file':
                    res.violation(
                        'R-C11-order', qual,
                        'outstr of ' + unparse(n.func),
                        'the encoder is handed a handle on a named file: a '
                        'failure mid-encode leaves a truncated destination',
                        f.module.loc(n))
                    n_inst += 1
                elif kind is None:
                    res.undecided(
                        'R-C11-order', qual, 'outstr of ' + unparse(n.func),
                        'cannot classify the stream passed to the encoder',
                        f.module.loc(n))
                    n_inst += 1
        if not enc_calls:
            res.violation('R-C11-order', qual, 'encoder-call',
                          'no call receives an anonymous temporary stream; '
                          'the destination is written directly',
                          f.module.loc(f.node))
            n_inst += 1
            continue
        fname_names = derived_names(f.node, set(f.params()) | {'out_fname'})
        for op in opens:
            path = _path_arg(op)
            op_nodes = cfg.nodes_of(op)
            inst = 'open({},write)'.format(unparse(path, 30) if path is not None else '?')
            for enc in enc_calls:
                enc_nodes = cfg.nodes_of(enc)
                n_inst += 1
                einst = '{} after {}'.format(inst, unparse(enc.func, 30))
                if not enc_nodes or not op_nodes:
                    res.undecided('R-C11-order', qual, einst,
                                  'call not located in CFG')
                    continue
                bad = None
                # (a) open not reachable without passing the encoder call
                reach = cfg.reachable_from(cfg.entry, avoid=set(enc_nodes))
                for on in op_nodes:
                    if on in reach:
                        p = cfg.find_path(cfg.entry, on, avoid=set(enc_nodes))
                        bad = ('destination opened for writing on a path '
                               'that has not run the encoder: ' +
                               cfg.fmt_path(p or []))
                # (b) not reachable from the encoder's exception edge
                if bad is None:
                    for en in enc_nodes:
                        exc_succ = cfg.succ_by_label(en, 'exc')
                        r2 = cfg.reachable_from(exc_succ)
                        for on in op_nodes:
                            if on in r2:
                                p = cfg.find_path(en, on)
                                bad = ('destination opened for writing on '
                                       'the exception path of the encoder: ' +
                                       cfg.fmt_path(p or []))
                if bad:
                    res.violation('R-C11-order', qual, einst, bad,
                                  f.module.loc(op))
                else:
                    res.holds('R-C11-order', qual, einst,
                              'write-mode open dominated by normal return of '
                              'the encoder; not reachable from its exception '
                              'edge', f.module.loc(op))
            # (c) what is written into the destination comes from the temp
            wstmt = op
            while wstmt is not None and not isinstance(wstmt, ast.With):
                wstmt = getattr(wstmt, '_parent', None)
            if isinstance(wstmt, ast.With):
                handle = None
                for it in wstmt.items:
                    if it.context_expr is op and isinstance(
                            it.optional_vars, ast.Name):
                        handle = it.optional_vars.id
                writes = [c for s in wstmt.body for c in walk_own(s)
                          if isinstance(c, ast.Call) and
                          isinstance(c.func, ast.Attribute) and
                          isinstance(c.func.value, ast.Name) and
                          c.func.value.id == handle]
                ok = bool(writes)
                from_temp = derived_names(f.node, set(temp_names))
                for c in writes:
                    srcs = {x.id for a in c.args for x in walk_own(a)
                            if isinstance(x, ast.Name)}
                    if c.func.attr != 'write' or not (srcs & from_temp):
                        ok = False
                n_inst += 1
                res.check(ok, 'R-C11-order', qual, inst + ' payload',
                          'destination receives exactly the bytes read back '
                          'from the temporary stream',
                          'destination handle is used for something other '
                          'than copying the temporary stream',
                          f.module.loc(wstmt))
    res.require_min('R-C11-order', 2)


def rule_entry(ctx, res):
    model = ctx.model
    g, _ = model.callgraph()
    for qual, cmd in CLI_WRITERS:
        if not model.has_func(qual):
            res.vanished('R-C11-entry', qual, cmd, 'command function missing')
            continue
        f = model.func(qual)
        direct = [t for (_n, kind, targets) in g[qual] for t in targets
                  if isinstance(t, FuncInfo)]
        reaches = any(t.qual == 'pico8.game.file:to_file' for t in direct)
        res.check(reaches, 'R-C11-entry', qual, cmd + ' -> file.to_file',
                  'output cart written through game.file.to_file',
                  'command does not write its output through '
                  'game.file.to_file', f.loc)
        # formatter to_file called directly (bypassing the temp file)?
        for (n, kind, targets) in g[qual]:
            for t in targets:
                if (isinstance(t, FuncInfo) and t.name == 'to_file' and
                        t.cls is not None):
                    res.violation('R-C11-entry', qual,
                                  cmd + ' calls ' + t.qual,
                                  'formatter encoder called directly, '
                                  'bypassing the temp-file protocol',
                                  f.module.loc(n))
    res.require_min('R-C11-entry', 4)


def rule_sanity(ctx, res):
    model = ctx.model
    qual = 'pico8.game.formatter.p8:P8Formatter.to_file'
    f = model.func(qual)
    cfg = cfg_of(f)
    outparam = f.params()[2] if len(f.params()) > 2 else 'outstr'
    reparse = []
    lua_writes = []
    for n in model.own_nodes(f.node):
        if isinstance(n, ast.Call):
            r = model.resolve_call(f, n)
            if any(isinstance(t, FuncInfo) and t.qual.endswith('Lua.from_lines')
                   for t in r[1]):
                # its argument is game.lua.to_lines(writer...)
                inner = [c for c in walk_own(n) if isinstance(c, ast.Call)
                         and isinstance(c.func, ast.Attribute)
                         and c.func.attr == 'to_lines']
                if inner:
                    reparse.append(n)
            if (isinstance(n.func, ast.Attribute) and n.func.attr == 'write'
                    and isinstance(n.func.value, ast.Name)
                    and n.func.value.id == outparam and n.args):
                a = n.args[0]
                if isinstance(a, ast.Constant) and a.value == b'__lua__\n':
                    lua_writes.append(n)
    if not reparse:
        res.violation('R-C11-sanity', qual, 'reparse',
                      'the transformed Lua is not re-parsed before writing',
                      f.loc)
        return
    if not lua_writes:
        res.vanished('R-C11-sanity', qual, '__lua__ write',
                     'section header write not found')
        return
    rp_nodes = set(x for r in reparse for x in cfg.nodes_of(r))
    for w in lua_writes:
        ok = all(cfg.any_dominates(rp_nodes, wn) for wn in cfg.nodes_of(w))
        res.check(ok, 'R-C11-sanity', qual, 'reparse dominates __lua__ write',
                  'sanity re-parse of the writer output precedes the code '
                  'section on every path',
                  'code section can be written without the sanity re-parse',
                  f.module.loc(w))
    # every .write() in the encoder targets the outstr parameter
    for fq in ('pico8.game.formatter.p8:P8Formatter.to_file',
               'pico8.game.formatter.p8png:P8PNGFormatter.to_file'):
        g = model.func(fq)
        op = g.params()[2] if len(g.params()) > 2 else 'outstr'
        cnt = 0
        bad = []
        for n in model.own_nodes(g.node):
            if (isinstance(n, ast.Call) and isinstance(n.func, ast.Attribute)
                    and n.func.attr == 'write'):
                recv = n.func.value
                if isinstance(recv, ast.Name) and recv.id == op:
                    cnt += 1
                elif (n.args and isinstance(n.args[0], ast.Name)
                      and n.args[0].id == op):
                    cnt += 1      # png.Writer.write(outstr, rows)
                else:
                    r = model.resolve_expr(g.module, n.func)
                    if r and r[0] == 'func' and r[1].qual == 'pico8.util:write':
                        continue
                    bad.append(n)
        for n in bad:
            res.violation('R-C11-owner', fq, 'write on ' + unparse(n.func.value, 30),
                          'encoder writes to a stream other than its outstr '
                          'parameter', g.module.loc(n))
        res.check(cnt > 0, 'R-C11-owner', fq, 'writes-to-outstr-only',
                  '{} write call(s), all on the outstr parameter'.format(cnt),
                  'encoder never writes to its stream', g.loc)


def rule_label(ctx, res):
    """R-C04-label (shared with C04/C13)."""
    model = ctx.model
    qual = 'pico8.game.file:to_file'
    f = model.func(qual)
    cfg = cfg_of(f)
    # kwargs['label_fname'] := filename iff the caller gave none and the
    # destination exists -- decided per path of to_file
    from ..absint.symbody import SymBody
    u = ast.unparse
    fname = f.params()[1] if len(f.params()) > 1 else 'filename'
    n_paths = 0
    problems = []
    for p in SymBody(ctx, f).run(f.node.body):
        enc = [k for k, e in enumerate(p.events) if e[0] == 'call' and
               isinstance(e[1], ast.Call) and
               isinstance(e[1].func, ast.Attribute) and
               e[1].func.attr == 'to_file']
        if not enc:
            continue
        # os.path.exists(None) raises: a path on which the file name was
        # tested for existence cannot also have it be None
        texts = [(u(t), v) for (t, v) in p.conds]
        if any(tt == 'os.path.exists({})'.format(fname)
               for (tt, _v) in texts) and any(
                (tt == fname + ' is None' and v) or
                (tt == fname + ' is not None' and not v)
                for (tt, v) in texts):
            continue
        n_paths += 1
        given = exists = None
        for i, (t, v) in enumerate(p.conds):
            if p.conds.at[i] > enc[0]:
                continue
            tt = u(t)
            if tt.startswith("kwargs.get('label_fname'") and \
                    tt.endswith(' is None'):
                given = not v
            elif tt.startswith("kwargs.get('label_fname'") and \
                    tt.endswith(' is not None'):
                given = v
            elif tt == 'os.path.exists({})'.format(fname):
                exists = v
        st = [e for e in p.events[:enc[0]] if e[0] == 'store' and
              u(e[1]) == 'kwargs' and u(e[2]) == "'label_fname'"]
        eff = [u(e[3]) for e in st
               if not u(e[3]).startswith("kwargs.get('label_fname'")]
        want = (given is False and exists is True)
        if want and eff != [fname]:
            problems.append('no label given and the destination exists, but '
                            'label_fname is set to {}'.format(eff or 'nothing'))
        if not want and eff and not (given is None or exists is None):
            problems.append('label_fname is overwritten with {} although {}'
                            .format(eff, 'the caller gave one' if given
                                    else 'the destination does not exist'))
        if (given is None or (given is False and exists is None)) and eff:
            problems.append('label_fname is set without testing that none '
                            'was given and that the destination exists')
    if n_paths == 0:
        res.undecided('R-C04-label', qual, 'label reuse',
                      'no path reaches the encoder call', f.loc)
    else:
        res.check(not problems, 'R-C04-label', qual,
                  'label_fname := destination iff exists and not given',
                  'destination reused as label only when it exists and the '
                  'caller gave none ({} paths)'.format(n_paths),
                  'label source selection changed: ' +
                  '; '.join(sorted(set(problems))[:2]), f.loc)
    q2 = 'pico8.game.formatter.p8png:P8PNGFormatter.to_file'
    g = model.func(q2)
    cfg2 = cfg_of(g)
    outparam = g.params()[2] if len(g.params()) > 2 else 'outstr'
    label_opens = []
    for n in model.own_nodes(g.node):
        if isinstance(n, ast.Call) and \
                model.ext_name(g.module, n.func) in OPEN_NAMES:
            mode = open_mode(g.node, n)
            label_opens.append((n, mode))
    outwrites = [n for n in model.own_nodes(g.node)
                 if isinstance(n, ast.Call) and any(
                     isinstance(a, ast.Name) and a.id == outparam
                     for a in list(n.args) + [k.value for k in n.keywords])
                 or (isinstance(n, ast.Call) and
                     isinstance(n.func, ast.Attribute) and
                     isinstance(n.func.value, ast.Name) and
                     n.func.value.id == outparam)]
    if not label_opens:
        res.vanished('R-C04-label', q2, 'label open', 'label open not found')
    for (n, mode) in label_opens:
        ok = mode is not None and not is_write_mode(mode)
        dom = all(cfg2.any_dominates(set(cfg2.nodes_of(n)), wn)
                  for w in outwrites for wn in cfg2.nodes_of(w))
        # list(img_data) inside the with: fully read before leaving it
        res.check(ok and dom and bool(outwrites), 'R-C04-label', q2,
                  'label opened read-only before any output',
                  'label file opened mode={} and read before the first use '
                  'of the output stream'.format(mode),
                  'label open mode={} dominates-output={}'.format(mode, dom),
                  g.module.loc(n))
    # the bundled blank label exists
    import os
    from ..srcmodel import repo_root
    cands = [os.path.join(repo_root(), 'pico8', 'game', 'empty_023.p8.png')]
    ev = ctx.consts
    val = ev.module_const('pico8.game.formatter.p8png', 'EMPTY_LABEL_FNAME')
    path = None
    if isinstance(val, str):
        path = val
    res.check(path is not None and os.path.isfile(path), 'R-C04-label',
              'pico8.game.formatter.p8png:EMPTY_LABEL_FNAME',
              'bundled blank label present',
              'fallback label {} exists in the tree'.format(path),
              'fallback label file {} missing'.format(path))


def run(ctx, res):
    rule_owner(ctx, res)
    rule_order(ctx, res)
    rule_entry(ctx, res)
    rule_sanity(ctx, res)
    rule_label(ctx, res)
