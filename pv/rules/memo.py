"""Memoisation hazards (shared by C13 / C14 / C18 / C20).

The pinned tree caches nothing in the anchored code, so any memo table found
there was added by a change.  A memo is sound only if its key determines its
value.  `incomplete_memos` finds dictionary memos (`if K in D: return D[K]` ...
`D[K] = V`, or the same across the iterations of a loop) and compares the
*sources* the stored value is computed from with the sources of the key: a
source of V that is not a source of K means two requests that differ only in
that source get the same cached answer.  Sources are parameters and the
distinct pieces of a per-request value (`m.group(1)`, `m.group(3)`, `x[0]`);
a regex group nested inside another group is determined by it.

`lazy_attribute_caches` finds `if self.X is None: self.X = <expr>` caches whose
expression reads other attributes of the object: the cached value goes stale
when one of those attributes is rebound.
"""
import ast
import re

from ..srcmodel import walk_own


def _params(fnode):
    a = fnode.args
    return [x.arg for x in a.posonlyargs + a.args + a.kwonlyargs] + \
        ([a.vararg.arg] if a.vararg else []) + \
        ([a.kwarg.arg] if a.kwarg else [])


class Slicer:
    """backward slice inside one function, down to parameters and
    per-request pieces"""

    def __init__(self, fnode):
        self.f = fnode
        self.params = set(_params(fnode))
        self.binds = {}         # name -> [(value expr, [enclosing tests])]
        self._collect(fnode.body, [])

    def _collect(self, body, tests):
        for st in body:
            if isinstance(st, (ast.FunctionDef, ast.ClassDef, ast.Lambda)):
                continue
            if isinstance(st, ast.Assign):
                for t in st.targets:
                    self._bind(t, st.value, tests)
            elif isinstance(st, ast.AugAssign):
                self._bind(st.target, st.value, tests)
            elif isinstance(st, ast.AnnAssign) and st.value is not None:
                self._bind(st.target, st.value, tests)
            elif isinstance(st, ast.For):
                self._bind(st.target, st.iter, tests)
                self._collect(st.body, tests)
                self._collect(st.orelse, tests)
            elif isinstance(st, ast.While):
                self._collect(st.body, tests + [st.test])
                self._collect(st.orelse, tests)
            elif isinstance(st, ast.If):
                self._collect(st.body, tests + [st.test])
                self._collect(st.orelse, tests + [st.test])
            elif isinstance(st, ast.With):
                for it in st.items:
                    if it.optional_vars is not None:
                        self._bind(it.optional_vars, it.context_expr, tests)
                self._collect(st.body, tests)
            elif isinstance(st, ast.Try):
                self._collect(st.body, tests)
                for h in st.handlers:
                    self._collect(h.body, tests)
                self._collect(st.orelse, tests)
                self._collect(st.finalbody, tests)

    def _bind(self, t, v, tests):
        if isinstance(t, ast.Name):
            self.binds.setdefault(t.id, []).append((v, list(tests)))
        elif isinstance(t, (ast.Tuple, ast.List)):
            groups = isinstance(v, ast.Call) and isinstance(
                v.func, ast.Attribute) and v.func.attr == 'groups' and \
                isinstance(v.func.value, ast.Name) and not v.args
            for k, e in enumerate(t.elts):
                if isinstance(v, (ast.Tuple, ast.List)) and \
                        len(v.elts) == len(t.elts):
                    self._bind(e, v.elts[k], tests)
                elif groups:
                    # a, b, c = m.groups()  ->  a = m.group(1) ...
                    g = ast.Call(func=ast.Attribute(
                        value=v.func.value, attr='group', ctx=ast.Load()),
                        args=[ast.Constant(value=k + 1)], keywords=[])
                    self._bind(e, g, tests)
                else:
                    self._bind(e, v, tests)

    @staticmethod
    def piece(e):
        """`m.group(3)` / `m.groups()[2]` / `x[0]` on a plain name -> token"""
        if isinstance(e, ast.Call) and isinstance(e.func, ast.Attribute) and \
                isinstance(e.func.value, ast.Name) and e.args and all(
                    isinstance(a, ast.Constant) for a in e.args) and \
                e.func.attr == 'group' and len(e.args) == 1:
            return (e.func.value.id, 'group', e.args[0].value)
        if isinstance(e, ast.Subscript) and isinstance(e.value, ast.Name) \
                and isinstance(e.slice, ast.Constant):
            return (e.value.id, 'item', e.slice.value)
        return None

    def sources(self, e, control=True, _seen=None):
        seen = _seen if _seen is not None else set()
        out = set()
        p = self.piece(e)
        if p is not None:
            return {p}
        if isinstance(e, ast.Call) and isinstance(e.func, ast.Attribute) and \
                isinstance(e.func.value, ast.Name) and \
                e.func.attr == 'group' and len(e.args) > 1 and all(
                    isinstance(a, ast.Constant) for a in e.args):
            return {(e.func.value.id, 'group', a.value) for a in e.args}
        for n in ast.iter_child_nodes(e):
            if isinstance(n, ast.expr_context):
                continue
            if isinstance(n, ast.AST):
                out |= self.sources(n, control, seen) if isinstance(
                    n, ast.expr) else set()
        if isinstance(e, ast.Name):
            if e.id in self.params:
                out.add(e.id)
            if e.id in seen:
                return out
            seen.add(e.id)
            for (v, tests) in self.binds.get(e.id, []):
                out |= self.sources(v, control, seen)
                if control:
                    for t in tests:
                        out |= self.sources(t, False, seen)
        if isinstance(e, (ast.ListComp, ast.SetComp, ast.GeneratorExp,
                          ast.DictComp)):
            for g in e.generators:
                out |= self.sources(g.iter, control, seen)
                for c in g.ifs:
                    out |= self.sources(c, control, seen)
        return out


def _key_text(e):
    return ast.unparse(e)


def _group_nesting(pattern):
    """{group index: set of group indices that contain it} of a bytes/str
    regex, via re._parser"""
    try:
        import re._parser as sp
    except ImportError:          # pragma: no cover
        import sre_parse as sp
    try:
        tree = sp.parse(pattern)
    except Exception:
        return {}
    inside = {}

    def rec(items, outer):
        for op, av in items:
            name = str(op)
            if name == 'SUBPATTERN':
                gid, _a, _b, sub = av
                if gid is not None:
                    inside[gid] = set(outer)
                    rec(sub, outer + [gid])
                else:
                    rec(sub, outer)
            elif name in ('MAX_REPEAT', 'MIN_REPEAT', 'POSSESSIVE_REPEAT'):
                rec(av[2], outer)
            elif name == 'BRANCH':
                for alt in av[1]:
                    rec(alt, outer)
            elif name in ('ASSERT', 'ASSERT_NOT'):
                rec(av[1], outer)
            elif name == 'ATOMIC_GROUP':
                rec(av, outer)
    rec(tree, [])
    return inside


def _baseline_locals(f):
    """names the pinned tree already has in this function (None: the
    function itself is new)"""
    try:
        from ..normalise import load_baseline
        base = load_baseline()
    except Exception:
        return set()
    if f.qual not in base.get('functions', ()):
        return None
    return set(base.get('locals', {}).get(f.qual, ()))


def incomplete_memos(ctx, f, only_new=True):
    """-> [(store node, dict text, key text, missing sources, value text)]
    for dictionary memos of function f whose key does not determine the
    stored value.  only_new: ignore tables the pinned tree already has (the
    visited-package table of build is keyed by the require string on purpose)
    """
    fnode = f.node
    old_names = _baseline_locals(f) if only_new else set()
    sl = Slicer(fnode)
    # membership tests / .get() lookups:  (dict text, key text)
    lookups = set()
    for n in walk_own(fnode):
        if isinstance(n, ast.Compare) and len(n.ops) == 1 and \
                isinstance(n.ops[0], (ast.In, ast.NotIn)):
            lookups.add((_key_text(n.comparators[0]), _key_text(n.left)))
        if isinstance(n, ast.Call) and isinstance(n.func, ast.Attribute) \
                and n.func.attr in ('get', 'setdefault') and n.args:
            lookups.add((_key_text(n.func.value), _key_text(n.args[0])))
        if isinstance(n, ast.Try):
            for x in n.body:
                for y in ast.walk(x):
                    if isinstance(y, ast.Subscript) and isinstance(
                            y.ctx, ast.Load):
                        lookups.add((_key_text(y.value), _key_text(y.slice)))
    out = []
    for n in walk_own(fnode):
        store = None
        if isinstance(n, ast.Assign) and len(n.targets) == 1 and \
                isinstance(n.targets[0], ast.Subscript):
            t = n.targets[0]
            store = (t.value, t.slice, n.value)
        elif isinstance(n, ast.Call) and isinstance(n.func, ast.Attribute) \
                and n.func.attr == 'setdefault' and len(n.args) == 2:
            store = (n.func.value, n.args[0], n.args[1])
        if store is None:
            continue
        d, k, v = store
        if (_key_text(d), _key_text(k)) not in lookups:
            continue
        root = d
        while isinstance(root, (ast.Attribute, ast.Subscript)):
            root = root.value
        if old_names is not None and isinstance(root, ast.Name) and \
                root.id in old_names:
            continue
        if isinstance(v, (ast.List, ast.Dict, ast.Set)) and not (
                v.elts if hasattr(v, 'elts') else v.keys):
            continue            # `D[K] = []`: a container being filled
        vs = sl.sources(v)
        ks = sl.sources(k, control=False)
        dname = {x.id for x in ast.walk(d) if isinstance(x, ast.Name)}
        missing = {s for s in vs - ks
                   if not (isinstance(s, str) and s in dname)
                   and s not in ('self', 'cls')}
        # pieces of the same match object: nested groups are determined
        missing = _drop_determined(ctx, f, sl, missing, ks)
        if missing:
            out.append((n, _key_text(d), _key_text(k), missing,
                        ast.unparse(v)[:70]))
    return out


def _drop_determined(ctx, f, sl, missing, ks):
    keep = set()
    for s in missing:
        if isinstance(s, tuple) and s[1] == 'group':
            name, _g, idx = s
            nest = None
            for (v, _t) in sl.binds.get(name, []):
                if isinstance(v, ast.Call) and isinstance(v.func,
                                                          ast.Attribute) \
                        and v.func.attr in ('match', 'search', 'fullmatch'):
                    try:
                        rx = ctx.consts.eval_expr(f.module, v.func.value,
                                                  {'self': None})
                    except Exception:
                        rx = None
                    pat = getattr(rx, 'pattern', None)
                    if pat is not None:
                        nest = _group_nesting(pat)
            if nest is not None and isinstance(idx, int):
                outer = nest.get(idx, set())
                if any((name, 'group', o) in ks for o in outer):
                    continue
        keep.add(s)
    return keep


def describe(missing):
    out = []
    for s in sorted(missing, key=repr):
        if isinstance(s, tuple):
            out.append('{}.group({})'.format(s[0], s[2]) if s[1] == 'group'
                       else '{}[{!r}]'.format(s[0], s[2]))
        else:
            out.append(s)
    return ', '.join(out)


def lazy_attribute_caches(f):
    """-> [(node, cached attribute, attributes of self the value reads)]"""
    out = []
    if not f.params():
        return out
    me = f.params()[0]
    for n in walk_own(f.node):
        if not isinstance(n, ast.If):
            continue
        t = n.test
        attr = None
        if isinstance(t, ast.Compare) and len(t.ops) == 1 and isinstance(
                t.ops[0], ast.Is) and isinstance(t.comparators[0],
                                                 ast.Constant) and \
                t.comparators[0].value is None and isinstance(
                    t.left, ast.Attribute) and isinstance(
                        t.left.value, ast.Name) and t.left.value.id == me:
            attr = t.left.attr
        if isinstance(t, ast.UnaryOp) and isinstance(t.op, ast.Not) and \
                isinstance(t.operand, ast.Attribute) and isinstance(
                    t.operand.value, ast.Name) and t.operand.value.id == me:
            attr = t.operand.attr
        if attr is None:
            continue
        for st in n.body:
            if isinstance(st, ast.Assign) and any(
                    isinstance(x, ast.Attribute) and x.attr == attr and
                    isinstance(x.value, ast.Name) and x.value.id == me
                    for x in st.targets):
                reads = sorted({x.attr for x in ast.walk(st.value)
                                if isinstance(x, ast.Attribute) and
                                isinstance(x.value, ast.Name) and
                                x.value.id == me and x.attr != attr})
                if reads:
                    out.append((st, attr, reads))
    return out


def rule_no_incomplete_memo(ctx, res, rule_id, module_name, what):
    """every dictionary memo a change added to `module_name` has a key that
    determines the cached value"""
    m = ctx.model.module(module_name)
    n_funcs = 0
    found = 0
    for q, f in sorted(ctx.model.functions.items()):
        if f.module is not m:
            continue
        n_funcs += 1
        for (node, d, k, missing, v) in incomplete_memos(ctx, f):
            found += 1
            res.violation(
                rule_id, f.qual, 'cache {}[{}]: the key determines the '
                'cached value'.format(d, k),
                '{}: `{}[{}] = {}` is reused for every later request with '
                'the same key, but the value also depends on {} -- requests '
                'that differ only there get the first one\'s answer'.format(
                    what, d, k, v, describe(missing)),
                f.module.loc(node), semantic=True)
    if not found:
        res.holds(rule_id, module_name, 'no cache keyed by less than its '
                  'value depends on', '{} functions scanned'.format(n_funcs))


def shared_mutable_class_state(ctx, cls):
    """class-level mutable displays ({} / [] / set() / dict() ...) of `cls`
    that methods mutate through the instance (self.X[k] = v, self.X.append,
    self.X.update ...) while no method binds self.X to a fresh object:
    one object shared by every instance of the class
    -> [(attribute, class-level node, mutation node, method qual)]"""
    mutable = {}
    for st in cls.node.body:
        if isinstance(st, ast.Assign) and len(st.targets) == 1 and \
                isinstance(st.targets[0], ast.Name):
            v = st.value
            is_mut = isinstance(v, (ast.Dict, ast.List, ast.Set, ast.ListComp,
                                    ast.DictComp, ast.SetComp)) or (
                isinstance(v, ast.Call) and isinstance(v.func, ast.Name) and
                v.func.id in ('dict', 'list', 'set', 'bytearray',
                              'defaultdict', 'OrderedDict'))
            if is_mut:
                mutable[st.targets[0].id] = st
    if not mutable:
        return []
    rebound = set()
    muts = []
    MUT = {'append', 'extend', 'add', 'update', 'setdefault', 'pop', 'clear',
           'insert', 'remove', 'discard', 'popitem', '__setitem__'}
    for f in cls.methods.values():
        ps = f.params()
        if not ps:
            continue
        me = ps[0]

        def is_self_attr(e, name=None):
            return isinstance(e, ast.Attribute) and isinstance(
                e.value, ast.Name) and e.value.id == me and (
                    name is None or e.attr == name)
        for n in walk_own(f.node):
            if isinstance(n, (ast.Assign, ast.AnnAssign)):
                tgts = n.targets if isinstance(n, ast.Assign) else [n.target]
                for t in tgts:
                    if is_self_attr(t):
                        rebound.add(t.attr)
                    if isinstance(t, ast.Subscript) and is_self_attr(t.value) \
                            and t.value.attr in mutable:
                        muts.append((t.value.attr, n, f))
            elif isinstance(n, ast.AugAssign):
                t = n.target
                if isinstance(t, ast.Subscript) and is_self_attr(t.value) \
                        and t.value.attr in mutable:
                    muts.append((t.value.attr, n, f))
            elif isinstance(n, ast.Call) and isinstance(n.func,
                                                        ast.Attribute) and \
                    n.func.attr in MUT and is_self_attr(n.func.value) and \
                    n.func.value.attr in mutable:
                muts.append((n.func.value.attr, n, f))
            elif isinstance(n, ast.Delete):
                for t in n.targets:
                    if isinstance(t, ast.Subscript) and is_self_attr(
                            t.value) and t.value.attr in mutable:
                        muts.append((t.value.attr, n, f))
    return [(a, mutable[a], n, f) for (a, n, f) in muts if a not in rebound]


def rule_instance_state(ctx, res, rule_id, cls_qual, what):
    cls = ctx.model.cls(cls_qual)
    hits = shared_mutable_class_state(ctx, cls)
    seen = set()
    for (attr, decl, node, f) in hits:
        if attr in seen:
            continue
        seen.add(attr)
        res.violation(
            rule_id, cls.qual, '{}: mutable state belongs to the '
            'instance'.format(attr),
            '{}.{} is a class-level mutable object that {} modifies through '
            'self and no method replaces it with a fresh one: every instance '
            'of the class shares it, so {}'.format(
                cls.name, attr, f.name, what),
            cls.module.loc(decl), semantic=True)
    if not hits:
        res.holds(rule_id, cls.qual, 'mutable state is created per instance',
                  '')
